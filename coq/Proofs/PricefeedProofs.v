(* C20 — proofs about Model/Pricefeed.v and Model/LockedObject.v *)
From Coq Require Import ZArith List Bool Lia Arith Permutation Sorted String.
From Verif Require Import Base.Harness Model.LockedObject Model.Pricefeed.
Import ListNotations.
Open Scope Z_scope.

Ltac Zify.zify_post_hook ::= Z.to_euclidean_division_equations.

(* ====================================================================================== *)
(* A. lib.Median                                                                            *)
(* ====================================================================================== *)
Lemma pow64 : 2 ^ 64 = 18446744073709551616. Proof. reflexivity. Qed.
Lemma pow63 : 2 ^ 63 = 9223372036854775808. Proof. reflexivity. Qed.
Lemma pow32 : 2 ^ 32 = 4294967296. Proof. reflexivity. Qed.
Lemma pow31 : 2 ^ 31 = 2147483648. Proof. reflexivity. Qed.

Ltac unfold_ty :=
  unfold in_range, wrap, lo, hi, signed, bits in *;
  change (64 - 1) with 63 in *; change (32 - 1) with 31 in *;
  rewrite ?pow64, ?pow63, ?pow32, ?pow31 in *.

Lemma wrap_id ty x : in_range ty x -> wrap ty x = x.
Proof. destruct ty; unfold_ty; intros H; lia. Qed.

Lemma in_rangeb_iff ty x : in_rangeb ty x = true <-> in_range ty x.
Proof. unfold in_rangeb, in_range. rewrite andb_true_iff, !Z.leb_le. tauto. Qed.

(* the mathematical values of all intermediate expressions stay inside the type, and the
   result is the mean rounded away from zero *)
Lemma med2_steps_in_range ty x y :
  in_range ty x -> in_range ty y -> x <= y -> Forall (in_range ty) (med2_steps x y).
Proof.
  intros Hx Hy Hxy. unfold med2_steps.
  destruct ((x <=? 0) && (0 <=? y)) eqn:E1.
  - apply andb_prop in E1. destruct E1 as [E1 E2]. apply Z.leb_le in E1, E2.
    repeat constructor; destruct ty; unfold_ty; lia.
  - apply andb_false_iff in E1. destruct (0 <? y) eqn:E2.
    + apply Z.ltb_lt in E2. assert (0 < x) by (destruct E1 as [E1|E1]; [apply Z.leb_gt in E1 | apply Z.leb_gt in E1]; lia).
      repeat constructor; destruct ty; unfold_ty; lia.
    + apply Z.ltb_ge in E2. assert (y < 0) by (destruct E1 as [E1|E1]; [apply Z.leb_gt in E1 | apply Z.leb_gt in E1]; lia).
      repeat constructor; destruct ty; unfold_ty; lia.
Qed.

Lemma med2_exact ty x y :
  in_range ty x -> in_range ty y -> x <= y -> med2 ty x y = mean_away x y.
Proof.
  intros Hx Hy Hxy. pose proof (med2_steps_in_range ty x y Hx Hy Hxy) as HS.
  unfold med2, med2_steps, mean_away in *.
  destruct ((x <=? 0) && (0 <=? y)) eqn:E1.
  - inversion HS as [|? ? H1 HS1]; subst. inversion HS1 as [|? ? H2 HS2]; subst.
    inversion HS2 as [|? ? H3 HS3]; subst. inversion HS3 as [|? ? H4 _]; subst.
    rewrite (wrap_id ty (x + y) H1). rewrite (wrap_id ty _ H2), (wrap_id ty _ H3), (wrap_id ty _ H4).
    destruct (0 <=? x + y) eqn:E; [apply Z.leb_le in E | apply Z.leb_gt in E]; lia.
  - apply andb_false_iff in E1. destruct (0 <? y) eqn:E2.
    + inversion HS as [|? ? H1 HS1]; subst. inversion HS1 as [|? ? H2 HS2]; subst.
      inversion HS2 as [|? ? H3 _]; subst.
      rewrite (wrap_id ty (y - x) H1), (wrap_id ty _ H2), (wrap_id ty _ H3).
      apply Z.ltb_lt in E2.
      assert (0 < x) by (destruct E1 as [E1|E1]; apply Z.leb_gt in E1; lia).
      destruct (0 <=? x + y) eqn:E; [apply Z.leb_le in E | apply Z.leb_gt in E]; lia.
    + inversion HS as [|? ? H1 HS1]; subst. inversion HS1 as [|? ? H2 HS2]; subst.
      inversion HS2 as [|? ? H3 _]; subst.
      rewrite (wrap_id ty (y - x) H1), (wrap_id ty _ H2), (wrap_id ty _ H3).
      apply Z.ltb_ge in E2.
      assert (y < 0) by (destruct E1 as [E1|E1]; apply Z.leb_gt in E1; lia).
      destruct (0 <=? x + y) eqn:E; [apply Z.leb_le in E | apply Z.leb_gt in E]; lia.
Qed.

Lemma mean_away_between x y : x <= y -> x <= mean_away x y <= y.
Proof.
  intros H. unfold mean_away. destruct (0 <=? x + y) eqn:E; [apply Z.leb_le in E | apply Z.leb_gt in E]; lia.
Qed.

(* mean_away is the mean rounded away from zero: it is within 1/2 of (x+y)/2, on the far side *)
Lemma mean_away_char x y :
  let m := mean_away x y in
  (0 <= x + y -> x + y <= 2 * m <= x + y + 1) /\ (x + y < 0 -> x + y - 1 <= 2 * m <= x + y).
Proof.
  unfold mean_away. destruct (0 <=? x + y) eqn:E; [apply Z.leb_le in E | apply Z.leb_gt in E]; split; intros; lia.
Qed.

(* ---- the sort ---------------------------------------------------------------------------- *)
Lemma insertZ_perm x l : Permutation (x :: l) (insertZ x l).
Proof.
  induction l as [|y t IH]; cbn [insertZ]; [apply Permutation_refl|].
  destruct (x <=? y); [apply Permutation_refl|].
  eapply Permutation_trans; [apply perm_swap|]. apply perm_skip. exact IH.
Qed.

Lemma sortZ_perm l : Permutation l (sortZ l).
Proof.
  induction l as [|x t IH]; cbn [sortZ fold_right]; [apply Permutation_refl|].
  eapply Permutation_trans; [|apply insertZ_perm]. apply perm_skip. exact IH.
Qed.

Lemma insertZ_sorted x l : StronglySorted Z.le l -> StronglySorted Z.le (insertZ x l).
Proof.
  induction 1 as [|y t Hs IH Hall]; cbn [insertZ]; [repeat constructor|].
  destruct (x <=? y) eqn:E.
  - apply Z.leb_le in E. constructor; [constructor; assumption|].
    constructor; [exact E|]. eapply Forall_impl; [|exact Hall]. intros; lia.
  - apply Z.leb_gt in E. constructor; [exact IH|].
    eapply Permutation_Forall; [apply insertZ_perm|]. constructor; [lia | exact Hall].
Qed.

Lemma sortZ_sorted l : StronglySorted Z.le (sortZ l).
Proof. induction l as [|x t IH]; cbn [sortZ fold_right]; [constructor | apply insertZ_sorted; exact IH]. Qed.

(* a sorted sequence is determined by its multiset *)
Lemma sorted_perm_unique a : forall b,
  Permutation a b -> StronglySorted Z.le a -> StronglySorted Z.le b -> a = b.
Proof.
  induction a as [|x a IH]; intros b HP Ha Hb.
  - apply Permutation_nil in HP. subst. reflexivity.
  - destruct b as [|y b]; [apply Permutation_sym, Permutation_nil in HP; discriminate|].
    inversion Ha as [|? ? Ha' Hxa]; subst. inversion Hb as [|? ? Hb' Hyb]; subst.
    assert (x = y) as ->.
    { assert (In x (y :: b)) as Hx by (eapply Permutation_in; [exact HP | left; reflexivity]).
      assert (In y (x :: a)) as Hy by (eapply Permutation_in; [apply Permutation_sym; exact HP | left; reflexivity]).
      rewrite Forall_forall in Hxa, Hyb.
      destruct Hx as [->|Hx]; [reflexivity|]. destruct Hy as [->|Hy]; [reflexivity|].
      specialize (Hxa _ Hy). specialize (Hyb _ Hx). lia. }
    f_equal. apply IH; [eapply Permutation_cons_inv; exact HP | assumption | assumption].
Qed.

Lemma sortZ_unique l s : Permutation l s -> StronglySorted Z.le s -> sortZ l = s.
Proof.
  intros HP Hs. apply sorted_perm_unique; [|apply sortZ_sorted | exact Hs].
  eapply Permutation_trans; [apply Permutation_sym, sortZ_perm | exact HP].
Qed.

Lemma sortZ_length l : List.length (sortZ l) = List.length l.
Proof. symmetry. apply Permutation_length, sortZ_perm. Qed.

Lemma sorted_nth_le s : StronglySorted Z.le s -> forall i j, (i <= j < List.length s)%nat -> nth i s 0 <= nth j s 0.
Proof.
  induction 1 as [|x t Hs IH Hall]; intros i j Hij; [cbn in Hij; lia|].
  destruct i as [|i]; destruct j as [|j]; cbn [nth]; cbn [List.length] in Hij; try lia.
  - rewrite Forall_forall in Hall. apply Hall. apply nth_In. lia.
  - apply IH. lia.
Qed.

Lemma Forall_nth_in (P : Z -> Prop) s i : Forall P s -> (i < List.length s)%nat -> P (nth i s 0).
Proof. intros H Hi. rewrite Forall_forall in H. apply H. apply nth_In. exact Hi. Qed.

Lemma odd_even_false n : Nat.odd n = false -> Nat.even n = true.
Proof. unfold Nat.odd. destruct (Nat.even n); [reflexivity | discriminate]. Qed.

Lemma even_half_pos n : n <> O -> Nat.odd n = false -> (1 <= n / 2 /\ n / 2 < n)%nat.
Proof.
  intros Hn Ho. apply odd_even_false in Ho. apply Nat.even_spec in Ho. destruct Ho as [k ->].
  rewrite Nat.mul_comm, Nat.div_mul by lia. lia.
Qed.

(* C20_median_correct *)
Theorem median_correct ty l s :
  l <> [] -> Forall (in_range ty) l -> Permutation l s -> StronglySorted Z.le s ->
  median ty l = Some (median_sorted s)
  /\ in_range ty (median_sorted s)
  /\ (Nat.odd (List.length l) = false ->
      Forall (in_range ty) (med2_steps (nth (List.length l / 2 - 1) s 0) (nth (List.length l / 2) s 0))).
Proof.
  intros Hne Hr HP Hs.
  pose proof (sortZ_unique l s HP Hs) as Hsort.
  pose proof (Permutation_length HP) as Hlen.
  assert (Hrs : Forall (in_range ty) s) by (eapply Permutation_Forall; eassumption).
  assert (Hn : List.length l <> O) by (destruct l; [congruence | cbn; lia]).
  unfold median, median_sorted. rewrite Hsort, <- Hlen.
  destruct (List.length l) as [|n'] eqn:En; [congruence|]. rewrite <- En in *. clear n' En.
  destruct (Nat.odd (List.length l)) eqn:Eo.
  - split; [reflexivity|]. split; [|discriminate].
    apply Forall_nth_in; [exact Hrs|]. rewrite <- Hlen. apply Nat.div_lt; lia.
  - destruct (even_half_pos _ Hn Eo) as [H1 H2].
    assert (Ha : in_range ty (nth (List.length l / 2 - 1) s 0)) by (apply Forall_nth_in; [exact Hrs | lia]).
    assert (Hb : in_range ty (nth (List.length l / 2) s 0)) by (apply Forall_nth_in; [exact Hrs | lia]).
    assert (Hab : nth (List.length l / 2 - 1) s 0 <= nth (List.length l / 2) s 0) by (apply sorted_nth_le; [exact Hs | lia]).
    split; [rewrite med2_exact by assumption; reflexivity|]. split.
    + pose proof (mean_away_between _ _ Hab). unfold in_range in *. lia.
    + intros _. apply med2_steps_in_range; assumption.
Qed.

Lemma median_empty ty : median ty [] = None.
Proof. reflexivity. Qed.

Theorem median_is_spec ty l : Forall (in_range ty) l -> median ty l = median_spec l.
Proof.
  intros Hr. destruct l as [|x t]; [reflexivity|].
  destruct (median_correct ty (x :: t) (sortZ (x :: t)) ltac:(discriminate) Hr (sortZ_perm _) (sortZ_sorted _)) as [H _].
  exact H.
Qed.

(* the valid-price slice is built by ranging over a Go map: its order is arbitrary *)
Theorem median_perm ty l l' : Permutation l l' -> median ty l = median ty l'.
Proof.
  intros HP. unfold median. rewrite (Permutation_length HP).
  assert (sortZ l = sortZ l') as ->; [|reflexivity].
  apply sortZ_unique; [|apply sortZ_sorted].
  eapply Permutation_trans; [exact HP | apply sortZ_perm].
Qed.

(* ---- ranks: a characterisation that does not mention sorting ------------------------------ *)
Lemma filter_len_perm (f : Z -> bool) l l' :
  Permutation l l' -> List.length (filter f l) = List.length (filter f l').
Proof.
  induction 1 as [|x l l' _ IH|x y l|l l' l'' _ IH1 _ IH2]; cbn [filter].
  - reflexivity.
  - destruct (f x); cbn [List.length]; congruence.
  - destruct (f x), (f y); reflexivity.
  - congruence.
Qed.

Lemma filter_all (f : Z -> bool) l : Forall (fun x => f x = true) l -> filter f l = l.
Proof. induction 1 as [|x l Hx _ IH]; cbn [filter]; [reflexivity|]. rewrite Hx, IH. reflexivity. Qed.
Lemma filter_none (f : Z -> bool) l : Forall (fun x => f x = false) l -> filter f l = [].
Proof. induction 1 as [|x l Hx _ IH]; cbn [filter]; [reflexivity|]. rewrite Hx, IH. reflexivity. Qed.
Lemma filter_len_le (f : Z -> bool) l : (List.length (filter f l) <= List.length l)%nat.
Proof. induction l as [|x l IH]; cbn [filter List.length]; [lia|]. destruct (f x); cbn [List.length]; lia. Qed.
Lemma filter_len_mono (f g : Z -> bool) l :
  (forall x, f x = true -> g x = true) -> (List.length (filter f l) <= List.length (filter g l))%nat.
Proof.
  intros H. induction l as [|x l IH]; cbn [filter List.length]; [lia|].
  destruct (f x) eqn:E; [rewrite (H _ E); cbn [List.length]; lia|].
  destruct (g x); cbn [List.length]; lia.
Qed.

Lemma sorted_app_inv a v b :
  StronglySorted Z.le (a ++ v :: b) -> Forall (fun x => x <= v) a /\ Forall (fun x => v <= x) b.
Proof.
  induction a as [|x a IH]; cbn [app]; intros H; inversion H as [|? ? Hs Hall]; subst.
  - split; [constructor | exact Hall].
  - destruct (IH Hs) as [H1 H2]. split; [|exact H2]. constructor; [|exact H1].
    rewrite Forall_forall in Hall. apply Hall. apply in_elt.
Qed.

Lemma sorted_rank s k : StronglySorted Z.le s -> (k < List.length s)%nat ->
  count_lt (nth k s 0) s <= Z.of_nat k < count_le (nth k s 0) s.
Proof.
  intros Hs Hk. destruct (nth_split s 0 Hk) as (a & b & Hab & Hlen).
  set (v := nth k s 0) in *. unfold count_lt, count_le. rewrite Hab in Hs |- *.
  destruct (sorted_app_inv a v b Hs) as [Ha Hb].
  rewrite !filter_app. cbn [filter]. rewrite Z.ltb_irrefl, Z.leb_refl.
  rewrite (filter_none (fun x => x <? v) b) by (eapply Forall_impl; [|exact Hb]; intros x Hx; apply Z.ltb_ge; exact Hx).
  rewrite (filter_all (fun x => x <=? v) a) by (eapply Forall_impl; [|exact Ha]; intros x Hx; apply Z.leb_le; exact Hx).
  rewrite !app_length. cbn [List.length]. pose proof (filter_len_le (fun x => x <? v) a). lia.
Qed.

Theorem median_rank l s k : Permutation l s -> StronglySorted Z.le s -> (k < List.length l)%nat ->
  has_rank l (Z.of_nat k) (nth k s 0).
Proof.
  intros HP Hs Hk. pose proof (Permutation_length HP) as Hlen. split.
  - eapply Permutation_in; [apply Permutation_sym; exact HP|]. apply nth_In. lia.
  - unfold count_lt, count_le. rewrite !(filter_len_perm _ l s HP). apply sorted_rank; [exact Hs | lia].
Qed.

Theorem rank_unique l k v w : has_rank l k v -> has_rank l k w -> v = w.
Proof.
  intros [_ [Hv1 Hv2]] [_ [Hw1 Hw2]]. unfold count_lt, count_le in *.
  destruct (Z.lt_total v w) as [H|[H|H]]; [exfalso | exact H | exfalso].
  - pose proof (filter_len_mono (fun x => x <=? v) (fun x => x <? w) l) as HM.
    assert (forall x, (x <=? v) = true -> (x <? w) = true) as HI by (intros x Hx; apply Z.leb_le in Hx; apply Z.ltb_lt; lia).
    specialize (HM HI). lia.
  - pose proof (filter_len_mono (fun x => x <=? w) (fun x => x <? v) l) as HM.
    assert (forall x, (x <=? w) = true -> (x <? v) = true) as HI by (intros x Hx; apply Z.leb_le in Hx; apply Z.ltb_lt; lia).
    specialize (HM HI). lia.
Qed.

Lemma has_rankb_iff l k v : has_rankb l k v = true <-> has_rank l k v.
Proof.
  unfold has_rankb, has_rank. rewrite !andb_true_iff, Z.leb_le, Z.ltb_lt, existsb_exists. split.
  - intros [[(x & Hx & E) H1] H2]. apply Z.eqb_eq in E. subst x. tauto.
  - intros [Hin [H1 H2]]. split; [split; [|exact H1] | exact H2]. exists v. split; [exact Hin | apply Z.eqb_refl].
Qed.

(* the rank check used on the implementation's answers determines the specified median *)
Theorem is_median_of_sound l m : l <> [] -> is_median_of l m = true -> median_spec l = Some m.
Proof.
  intros Hne H. assert (Hn : List.length l <> O) by (destruct l; [congruence | cbn; lia]).
  destruct l as [|x0 t] eqn:El; [congruence|]. rewrite <- El in *. unfold median_spec. rewrite El, <- El. f_equal.
  unfold is_median_of in H. unfold median_sorted. rewrite sortZ_length.
  destruct (Nat.odd (List.length l)) eqn:Eo.
  - apply has_rankb_iff in H. eapply rank_unique; [|exact H].
    apply median_rank; [apply sortZ_perm | apply sortZ_sorted | apply Nat.div_lt; lia].
  - destruct (even_half_pos _ Hn Eo) as [H1 H2].
    apply existsb_exists in H. destruct H as (a & _ & H). apply existsb_exists in H. destruct H as (b & _ & H).
    apply andb_prop in H. destruct H as [H Hm]. apply andb_prop in H. destruct H as [Ha Hb].
    apply has_rankb_iff in Ha, Hb. apply Z.eqb_eq in Hm. subst m.
    replace (Z.of_nat (List.length l / 2) - 1) with (Z.of_nat (List.length l / 2 - 1)) in Ha by lia.
    f_equal; (eapply rank_unique; [|eassumption]); apply median_rank;
      try apply sortZ_perm; try apply sortZ_sorted; lia.
Qed.

Theorem check_median_sound ty l impl :
  check_median ty l impl = [] -> impl = median_spec l /\ impl = median ty l /\ Forall (in_range ty) l.
Proof.
  unfold check_median. intros H. apply app_nil_both in H. destruct H as [H1 H2].
  apply app_nil_both in H2. destruct H2 as [H2 H3]. apply diff_if_nil in H2, H3.
  assert (Hr : Forall (in_range ty) l).
  { rewrite forallb_forall in H2. apply Forall_forall. intros x Hx. apply in_rangeb_iff. apply H2. exact Hx. }
  assert (E : impl = median ty l).
  { destruct (median ty l), impl; cbn in H3; try discriminate; [apply Z.eqb_eq in H3; subst|]; reflexivity. }
  split; [|split; assumption].
  destruct l as [|x t]; destruct impl as [m|]; try discriminate H1; [reflexivity|].
  apply spec_if_nil in H1. symmetry. apply is_median_of_sound; [discriminate | exact H1].
Qed.

(* ====================================================================================== *)
(* B. the price store                                                                       *)
(* ====================================================================================== *)
Lemma aget_aset_same {V} (l : list (Z * V)) k v : aget (aset l k v) k = Some v.
Proof.
  induction l as [|[k' v'] t IH]; cbn [aset aget]; [rewrite Z.eqb_refl; reflexivity|].
  destruct (k' =? k) eqn:E; cbn [aget]; [rewrite Z.eqb_refl; reflexivity | rewrite E; exact IH].
Qed.

Lemma aget_aset_other {V} (l : list (Z * V)) k k' v : k <> k' -> aget (aset l k v) k' = aget l k'.
Proof.
  intros N. induction l as [|[k1 v1] t IH]; cbn [aset aget].
  - destruct (k =? k') eqn:E; [apply Z.eqb_eq in E; congruence | reflexivity].
  - destruct (k1 =? k) eqn:E; cbn [aget].
    + apply Z.eqb_eq in E. subst k1. destruct (k =? k') eqn:E2; [apply Z.eqb_eq in E2; congruence | reflexivity].
    + destruct (k1 =? k'); [reflexivity | exact IH].
Qed.

Lemma in_aset {V} (l : list (Z * V)) k v k' v' : In (k', v') (aset l k v) -> (k', v') = (k, v) \/ In (k', v') l.
Proof.
  induction l as [|[k1 v1] t IH]; cbn [aset]; intros H.
  - destruct H as [H|[]]; left; symmetry; exact H.
  - destruct (k1 =? k); destruct H as [H|H].
    + left; symmetry; exact H.
    + right; right; exact H.
    + right; left; exact H.
    + destruct (IH H) as [H'|H']; [left; exact H' | right; right; exact H'].
Qed.

(* the effect of one submitted (time, price) on one stored cell *)
Definition upd_cell (c : option pts) (u : Z * Z) : option pts :=
  Some (fst (pts_update (match c with Some pt => pt | None => pts_new end) (snd u) (fst u))).

Definition tp (u : xprice) : Z * Z := (x_time u, x_price u).

Lemma aget_etp_update1 e u x :
  aget (etp_update1 e u) x = if x_id u =? x then upd_cell (aget e x) (tp u) else aget e x.
Proof.
  unfold etp_update1. destruct (x_id u =? x) eqn:E.
  - apply Z.eqb_eq in E. subst x. rewrite aget_aset_same. reflexivity.
  - apply Z.eqb_neq in E. apply aget_aset_other. exact E.
Qed.

Lemma aget_etp_update ups : forall e x,
  aget (etp_update e ups) x = fold_left upd_cell (map tp (filter (fun u => x_id u =? x) ups)) (aget e x).
Proof.
  induction ups as [|u r IH]; intros e x; [reflexivity|].
  unfold etp_update in *. cbn [fold_left filter]. rewrite IH, aget_etp_update1.
  destruct (x_id u =? x); reflexivity.
Qed.

Lemma hist_of_app h1 h2 m x : hist_of (h1 ++ h2) m x = hist_of h1 m x ++ hist_of h2 m x.
Proof. unfold hist_of. rewrite filter_app, map_app. reflexivity. Qed.

Lemma hist_of_market mid prices m x :
  hist_of (map (pair mid) prices) m x =
  if mid =? m then map tp (filter (fun u => x_id u =? x) prices) else [].
Proof.
  unfold hist_of. induction prices as [|u r IH]; cbn [map filter fst snd].
  - destruct (mid =? m); reflexivity.
  - destruct (mid =? m) eqn:E; cbn [andb].
    + destruct (x_id u =? x); cbn [map snd]; [rewrite IH; reflexivity | exact IH].
    + exact IH.
Qed.

Lemma cell_mte_update1 s mu m x :
  cell (mte_update1 s mu) m x = fold_left upd_cell (hist_of (flat_updates [mu]) m x) (cell s m x).
Proof.
  unfold flat_updates. cbn [flat_map]. rewrite app_nil_r, hist_of_market.
  unfold cell, mte_update1. destruct (m_id mu =? m) eqn:E.
  - apply Z.eqb_eq in E. subst m. rewrite aget_aset_same, aget_etp_update.
    destruct (aget s (m_id mu)); reflexivity.
  - apply Z.eqb_neq in E. rewrite aget_aset_other by exact E. reflexivity.
Qed.

Lemma flat_updates_cons mu r : flat_updates (mu :: r) = flat_updates [mu] ++ flat_updates r.
Proof. unfold flat_updates. cbn [flat_map]. rewrite app_nil_r. reflexivity. Qed.

Lemma cell_mte_update ups : forall s m x,
  cell (mte_update s ups) m x = fold_left upd_cell (hist_of (flat_updates ups) m x) (cell s m x).
Proof.
  induction ups as [|mu r IH]; intros s m x; [reflexivity|].
  unfold mte_update in *. cbn [fold_left]. rewrite IH, cell_mte_update1, (flat_updates_cons mu r), hist_of_app, fold_left_app.
  reflexivity.
Qed.

(* the whole history of UpdatePrices calls *)
Lemma cell_history opss : forall s m x,
  cell (fold_left mte_update opss s) m x
  = fold_left upd_cell (hist_of (flat_map flat_updates opss) m x) (cell s m x).
Proof.
  induction opss as [|ups r IH]; intros s m x; [reflexivity|].
  cbn [fold_left flat_map]. rewrite IH, cell_mte_update, hist_of_app, fold_left_app. reflexivity.
Qed.

Definition mk_pts (u : Z * Z) : pts := PT (fst u) (snd u).

Lemma fold_upd_cell_some h : forall t p,
  fold_left upd_cell h (Some (PT t p)) = option_map mk_pts (latest_from (Some (t, p)) h).
Proof.
  induction h as [|[t' p'] r IH]; intros t p; [reflexivity|].
  cbn [fold_left latest_from]. unfold upd_cell at 2, pts_update. cbn [fst snd p_time].
  destruct (t <? t'); cbn [fst]; apply IH.
Qed.

(* after any sequence of updates a stored price is the latest submitted one *)
Theorem fold_upd_cell_latest h :
  (forall u, In u h -> time_zero < fst u) ->
  fold_left upd_cell h None = option_map mk_pts (latest_of h).
Proof.
  destruct h as [|[t p] r]; intros H; [reflexivity|].
  unfold latest_of. cbn [fold_left latest_from]. unfold upd_cell at 2, pts_update, pts_new. cbn [fst snd p_time].
  assert (time_zero < t) as Ht by (apply (H (t, p)); left; reflexivity).
  apply Z.ltb_lt in Ht. rewrite Ht. cbn [fst]. apply fold_upd_cell_some.
Qed.

Theorem store_is_latest opss m x :
  let h := hist_of (flat_map flat_updates opss) m x in
  (forall u, In u h -> time_zero < fst u) ->
  cell (fold_left mte_update opss []) m x = option_map mk_pts (latest_of h).
Proof. intros h H. rewrite cell_history. cbn [cell aget]. apply fold_upd_cell_latest. exact H. Qed.

Lemma latest_from_char l : forall b u,
  latest_from (Some b) l = Some u ->
  (u = b /\ forall w, In w l -> fst w <= fst b)
  \/ (exists l1 l2, l = l1 ++ u :: l2 /\ fst b < fst u /\ (forall w, In w l1 -> fst w < fst u)
                    /\ (forall w, In w l2 -> fst w <= fst u)).
Proof.
  induction l as [|v r IH]; intros b u H; cbn [latest_from] in H.
  - injection H as <-. left. split; [reflexivity | intros w []].
  - destruct (fst b <? fst v) eqn:E; [apply Z.ltb_lt in E | apply Z.ltb_ge in E]; destruct (IH _ _ H) as [[-> Hr] | (l1 & l2 & -> & Hb & H1 & H2)].
    + right. exists [], r. split; [reflexivity|]. split; [exact E|]. split; [intros w []| exact Hr].
    + right. exists (v :: l1), l2. split; [reflexivity|]. split; [lia|]. split; [|exact H2].
      intros w [<-|Hw]; [exact Hb | apply H1; exact Hw].
    + left. split; [reflexivity|]. intros w [<-|Hw]; [exact E | apply Hr; exact Hw].
    + right. exists (v :: l1), l2. split; [reflexivity|]. split; [exact Hb|]. split; [|exact H2].
      intros w [<-|Hw]; [lia | apply H1; exact Hw].
Qed.

(* greatest update time; among equal times the first submitted *)
Theorem latest_of_char l u : latest_of l = Some u -> is_latest l u.
Proof.
  destruct l as [|b r]; [discriminate|]. unfold latest_of. cbn [latest_from]. intros H.
  destruct (latest_from_char r b u H) as [[-> Hr] | (l1 & l2 & -> & Hb & H1 & H2)].
  - exists [], r. split; [reflexivity|]. split; [intros w [] | exact Hr].
  - exists (b :: l1), l2. split; [reflexivity|]. split; [|exact H2].
    intros w [<-|Hw]; [exact Hb | apply H1; exact Hw].
Qed.

Lemma latest_from_some l : forall b, exists u, latest_from (Some b) l = Some u.
Proof. induction l as [|v r IH]; intros b; cbn [latest_from]; [eexists; reflexivity|]. destruct (fst b <? fst v); apply IH. Qed.

Theorem latest_of_none l : latest_of l = None <-> l = [].
Proof.
  split; [|intros ->; reflexivity]. destruct l as [|b r]; [reflexivity|].
  unfold latest_of. cbn [latest_from]. destruct (latest_from_some r b) as [u ->]. discriminate.
Qed.

(* ---- an exchange's stored price only moves forward in update time ------------------------- *)
Lemma fold_upd_cell_monotone h : forall pt,
  exists pt', fold_left upd_cell h (Some pt) = Some pt' /\ (pt' = pt \/ p_time pt < p_time pt').
Proof.
  induction h as [|[t p] r IH]; intros pt; [exists pt; split; [reflexivity | left; reflexivity]|].
  cbn [fold_left]. unfold upd_cell at 2, pts_update. cbn [fst snd].
  destruct (p_time pt <? t) eqn:E; cbn [fst].
  - apply Z.ltb_lt in E. destruct (IH (PT t p)) as (pt' & H1 & H2). exists pt'. split; [exact H1|].
    right. destruct H2 as [->|H2]; cbn [p_time] in *; lia.
  - apply IH.
Qed.

Theorem update_monotone s ups m x pt :
  cell s m x = Some pt ->
  exists pt', cell (mte_update s ups) m x = Some pt' /\ (pt' = pt \/ p_time pt < p_time pt').
Proof. intros H. rewrite cell_mte_update, H. apply fold_upd_cell_monotone. Qed.

Theorem update_monotone_history s opss m x pt :
  cell s m x = Some pt ->
  exists pt', cell (fold_left mte_update opss s) m x = Some pt' /\ (pt' = pt \/ p_time pt < p_time pt').
Proof. intros H. rewrite cell_history, H. apply fold_upd_cell_monotone. Qed.

(* a read does not change the store: by definition of [apply_op] *)

(* ---- prices stay uint64 -------------------------------------------------------------------- *)
Definition updates_in_range (ups : list mupdate) : Prop :=
  forall mu, In mu ups -> forall u, In u (m_prices mu) -> in_range U64 (x_price u).
Definition etp_in_range (e : etp) : Prop := forall x pt, In (x, pt) e -> in_range U64 (p_price pt).

Lemma zero_in_range : in_range U64 0.
Proof. unfold_ty. lia. Qed.

Lemma aget_in {V} (l : list (Z * V)) k v : aget l k = Some v -> In (k, v) l.
Proof.
  induction l as [|[k' v'] t IH]; cbn [aget]; [discriminate|].
  destruct (k' =? k) eqn:E; [apply Z.eqb_eq in E; intros [= ->]; left; congruence | intros H; right; apply IH; exact H].
Qed.

Lemma etp_update_in_range ups : forall e,
  etp_in_range e -> (forall u, In u ups -> in_range U64 (x_price u)) -> etp_in_range (etp_update e ups).
Proof.
  induction ups as [|u r IH]; intros e He Hu; [exact He|].
  unfold etp_update in *. cbn [fold_left]. apply IH; [|intros; apply Hu; right; assumption].
  intros x pt Hin. unfold etp_update1 in Hin. apply in_aset in Hin. destruct Hin as [Heq|Hin]; [|eapply He; exact Hin].
  injection Heq as -> ->. unfold pts_update.
  destruct (aget e (x_id u)) as [pt0|] eqn:Eg.
  - destruct (p_time pt0 <? x_time u); cbn [fst p_price]; [apply Hu; left; reflexivity | eapply He, aget_in; exact Eg].
  - destruct (p_time pts_new <? x_time u); cbn [fst p_price pts_new]; [apply Hu; left; reflexivity | apply zero_in_range].
Qed.

Theorem mte_update_in_range ups : forall s,
  prices_in_range s -> updates_in_range ups -> prices_in_range (mte_update s ups).
Proof.
  induction ups as [|mu r IH]; intros s Hs Hu; [exact Hs|].
  unfold mte_update in *. cbn [fold_left]. apply IH; [|intros mu' Hm; apply Hu; right; exact Hm].
  intros m e Hin. unfold mte_update1 in Hin. apply in_aset in Hin. destruct Hin as [Heq|Hin]; [|eapply Hs; exact Hin].
  injection Heq as -> ->. apply etp_update_in_range; [|apply Hu; left; reflexivity].
  destruct (aget s (m_id mu)) as [e0|] eqn:Eg; [exact (Hs _ _ (aget_in _ _ _ Eg)) | intros x pt []].
Qed.

Lemma empty_in_range : prices_in_range [].
Proof. intros m e []. Qed.

(* ---- what a read serves --------------------------------------------------------------------- *)
Theorem etp_valid_char e cutoff :
  etp_valid e cutoff = map p_price (filter (fun pt => cutoff <=? p_time pt) (map snd e)).
Proof.
  unfold etp_valid. induction e as [|[x pt] t IH]; [reflexivity|].
  cbn [flat_map map filter snd]. unfold pts_valid at 1. rewrite Z.leb_antisym.
  destruct (p_time pt <? cutoff); cbn [negb app map]; rewrite IH; reflexivity.
Qed.

Lemma fresh_in_range s m cutoff : prices_in_range s -> Forall (in_range U64) (fresh_prices s m cutoff).
Proof.
  intros Hs. unfold fresh_prices. destruct (aget s m) as [e|] eqn:Eg; [|constructor].
  apply aget_in in Eg. rewrite etp_valid_char. apply Forall_forall. intros p Hp.
  apply in_map_iff in Hp. destruct Hp as (pt & <- & Hpt). apply filter_In in Hpt. destruct Hpt as [Hpt _].
  apply in_map_iff in Hpt. destruct Hpt as ([x pt'] & Heq & Hin). cbn [snd] in Heq. subst pt'.
  eapply Hs; eassumption.
Qed.

Definition hit (n m : Z) (p : mparam) : bool := (mp_id p =? m) && (mp_min p <=? n).

Lemma median_nonempty ty l : l <> [] -> exists v, median ty l = Some v.
Proof.
  intros H. unfold median. destruct (List.length l) eqn:E; [destruct l; [congruence | discriminate]|].
  destruct (Nat.odd (S n)); eexists; reflexivity.
Qed.

Lemma read_step_get s cutoff acc p m :
  let fresh := fresh_prices s m cutoff in
  let n := Z.of_nat (List.length fresh) in
  aget (read_step s cutoff acc p) m = if hit n m p && (1 <=? n) then median U64 fresh else aget acc m.
Proof.
  intros fresh n. unfold read_step, hit. destruct (mp_id p =? m) eqn:E.
  - apply Z.eqb_eq in E. subst m. subst fresh n. unfold fresh_prices.
    destruct (aget s (mp_id p)) as [e|]; cbn [andb].
    + destruct (mp_min p <=? Z.of_nat (List.length (etp_valid e cutoff))) eqn:E1; cbn [andb]; [|reflexivity].
      destruct (etp_valid e cutoff) as [|v0 vt] eqn:Ev; [reflexivity|].
      destruct (median_nonempty U64 (v0 :: vt) ltac:(discriminate)) as [v Hv]. rewrite Hv.
      replace (1 <=? Z.of_nat (List.length (v0 :: vt))) with true by (symmetry; apply Z.leb_le; cbn [List.length]; lia).
      apply aget_aset_same.
    + cbn [List.length]. replace (1 <=? Z.of_nat 0) with false by reflexivity. rewrite andb_false_r. reflexivity.
  - cbn [andb]. apply Z.eqb_neq in E. destruct (aget s (mp_id p)) as [e|]; [|reflexivity].
    destruct (mp_min p <=? _); [|reflexivity]. destruct (median U64 _); [|reflexivity].
    apply aget_aset_other. exact E.
Qed.

Lemma read_fold_get s cutoff m ps : forall acc,
  let fresh := fresh_prices s m cutoff in
  let n := Z.of_nat (List.length fresh) in
  aget (fold_left (read_step s cutoff) ps acc) m
  = if existsb (hit n m) ps && (1 <=? n) then median U64 fresh else aget acc m.
Proof.
  induction ps as [|p r IH]; intros acc fresh n; [reflexivity|].
  cbn [fold_left existsb]. subst fresh n. rewrite IH, read_step_get.
  destruct (hit _ m p); cbn [orb andb]; [|reflexivity].
  destruct (1 <=? _); [|rewrite andb_false_r; reflexivity].
  destruct (existsb _ r); reflexivity.
Qed.

(* C20_served_price *)
Theorem served_price maxAge s ps readT m :
  prices_in_range s ->
  aget (mte_read maxAge s ps readT) m = served_spec (fresh_prices s m (readT - maxAge)) ps m.
Proof.
  intros Hs. unfold mte_read, served_spec. rewrite read_fold_get. cbn [aget]. unfold hit.
  rewrite (median_is_spec U64 _ (fresh_in_range s m (readT - maxAge) Hs)). reflexivity.
Qed.

Theorem fresh_prices_char s m cutoff :
  fresh_prices s m cutoff =
  match aget s m with
  | Some e => map p_price (filter (fun pt => cutoff <=? p_time pt) (map snd e))
  | None => []
  end.
Proof. unfold fresh_prices. destruct (aget s m); [apply etp_valid_char | reflexivity]. Qed.

(* ---- the read clause at the level of the submitted history ----------------------------------- *)
Definition mem (x : Z) (l : list Z) : bool := existsb (Z.eqb x) l.

Lemma mem_app x a b : mem x (a ++ b) = mem x a || mem x b.
Proof. apply existsb_app. Qed.

Lemma mem_in x l : mem x l = true <-> In x l.
Proof.
  unfold mem. rewrite existsb_exists. split; [intros (y & Hy & E); apply Z.eqb_eq in E; subst; exact Hy|].
  intros H. exists x. split; [exact H | apply Z.eqb_refl].
Qed.

Lemma dedup_ext l : forall seen seen', (forall z, mem z seen = mem z seen') -> dedup seen l = dedup seen' l.
Proof.
  induction l as [|x t IH]; intros seen seen' H; [reflexivity|]. cbn [dedup]. fold (mem x seen) (mem x seen').
  rewrite (H x). destruct (mem x seen'); [apply IH; exact H|]. f_equal. apply IH.
  intros z. unfold mem in *. cbn [existsb]. rewrite H. reflexivity.
Qed.

Lemma dedup_app l1 : forall seen l2, dedup seen (l1 ++ l2) = dedup seen l1 ++ dedup (seen ++ l1) l2.
Proof.
  induction l1 as [|x t IH]; intros seen l2; cbn [app dedup]; [rewrite app_nil_r; reflexivity|].
  fold (mem x seen). destruct (mem x seen) eqn:E.
  - rewrite IH. f_equal. apply dedup_ext. intros z. rewrite !mem_app. unfold mem at 4. cbn [existsb]. fold (mem z t).
    destruct (z =? x) eqn:Ez; [apply Z.eqb_eq in Ez; subst z; rewrite E; reflexivity | reflexivity].
  - cbn [app]. f_equal. rewrite IH. f_equal. apply dedup_ext. intros z. rewrite !mem_app.
    unfold mem at 1 4. cbn [existsb]. fold (mem z seen) (mem z t). destruct (z =? x), (mem z seen); reflexivity.
Qed.

Lemma dedup_not_seen l : forall seen x, In x (dedup seen l) -> mem x seen = false /\ In x l.
Proof.
  induction l as [|y t IH]; intros seen x H; cbn [dedup] in H; [destruct H|]. fold (mem y seen) in H.
  destruct (mem y seen) eqn:E.
  - destruct (IH _ _ H) as [H1 H2]. split; [exact H1 | right; exact H2].
  - destruct H as [<-|H]; [split; [exact E | left; reflexivity]|].
    destruct (IH _ _ H) as [H1 H2]. unfold mem in H1. cbn [existsb] in H1. apply orb_false_elim in H1.
    split; [apply H1 | right; exact H2].
Qed.

Lemma dedup_nodup l : forall seen, NoDup (dedup seen l).
Proof.
  induction l as [|y t IH]; intros seen; cbn [dedup]; [constructor|]. fold (mem y seen).
  destruct (mem y seen); [apply IH|]. constructor; [|apply IH].
  intros H. apply dedup_not_seen in H. destruct H as [H _]. unfold mem in H. cbn [existsb] in H.
  rewrite Z.eqb_refl in H. discriminate.
Qed.

Lemma keys_aset {V} (l : list (Z * V)) k v :
  map fst (aset l k v) = if mem k (map fst l) then map fst l else map fst l ++ [k].
Proof.
  induction l as [|[k' v'] t IH]; cbn [aset map fst]; [reflexivity|].
  unfold mem. cbn [existsb]. fold (mem k (map fst t)). rewrite (Z.eqb_sym k k').
  destruct (k' =? k) eqn:E; cbn [map fst orb app].
  - apply Z.eqb_eq in E. subst. reflexivity.
  - rewrite IH. destruct (mem k (map fst t)); reflexivity.
Qed.

Lemma keys_etp_update ups : forall e,
  map fst (etp_update e ups) = map fst e ++ dedup (map fst e) (map x_id ups).
Proof.
  induction ups as [|u r IH]; intros e; cbn [map dedup]; [rewrite app_nil_r; reflexivity|].
  unfold etp_update in *. cbn [fold_left]. rewrite IH. unfold etp_update1. rewrite keys_aset.
  fold (mem (x_id u) (map fst e)). destruct (mem (x_id u) (map fst e)) eqn:E; [reflexivity|].
  rewrite <- app_assoc. cbn [app]. f_equal. f_equal. apply dedup_ext. intros z. rewrite mem_app.
  unfold mem at 2 3. cbn [existsb]. fold (mem z (map fst e)). rewrite orb_false_r. apply orb_comm.
Qed.

Definition etp_of (s : store) (m : Z) : etp := match aget s m with Some e => e | None => [] end.

Definition ids_of (h : list (Z * xprice)) (m : Z) : list Z :=
  map (fun mx => x_id (snd mx)) (filter (fun mx => fst mx =? m) h).

Lemma ids_of_app h1 h2 m : ids_of (h1 ++ h2) m = ids_of h1 m ++ ids_of h2 m.
Proof. unfold ids_of. rewrite filter_app, map_app. reflexivity. Qed.

Lemma ids_of_market mid prices m : ids_of (map (pair mid) prices) m = if mid =? m then map x_id prices else [].
Proof.
  unfold ids_of. induction prices as [|u r IH]; cbn [map filter fst]; [destruct (mid =? m); reflexivity|].
  destruct (mid =? m) eqn:E; [cbn [map snd]; rewrite IH; reflexivity | exact IH].
Qed.

Lemma mem_cons z y l : mem z (y :: l) = (z =? y) || mem z l.
Proof. reflexivity. Qed.

Lemma mem_dedup l : forall seen z, mem z seen || mem z (dedup seen l) = mem z seen || mem z l.
Proof.
  induction l as [|y t IH]; intros seen z; [reflexivity|]. cbn [dedup]. fold (mem y seen).
  destruct (mem y seen) eqn:E.
  - rewrite IH, mem_cons. destruct (z =? y) eqn:Ez; [|reflexivity].
    apply Z.eqb_eq in Ez. subst z. rewrite E. reflexivity.
  - rewrite !mem_cons. specialize (IH (y :: seen) z). rewrite !mem_cons in IH.
    destruct (z =? y), (mem z seen); cbn [orb] in *; try reflexivity; exact IH.
Qed.

Lemma keys_mte_update ups : forall s m,
  map fst (etp_of (mte_update s ups) m)
  = map fst (etp_of s m) ++ dedup (map fst (etp_of s m)) (ids_of (flat_updates ups) m).
Proof.
  induction ups as [|mu r IH]; intros s m; [cbn; rewrite app_nil_r; reflexivity|].
  unfold mte_update in *. cbn [fold_left]. rewrite IH, (flat_updates_cons mu r), ids_of_app, dedup_app.
  unfold flat_updates at 2 3. cbn [flat_map]. rewrite app_nil_r, ids_of_market.
  unfold etp_of at 1 2, mte_update1. destruct (m_id mu =? m) eqn:E.
  - apply Z.eqb_eq in E. subst m. rewrite aget_aset_same, keys_etp_update. fold (etp_of s (m_id mu)).
    rewrite <- app_assoc. f_equal. f_equal. apply dedup_ext. intros z. rewrite !mem_app. apply mem_dedup.
  - apply Z.eqb_neq in E. rewrite aget_aset_other by exact E. fold (etp_of s m). cbn [dedup app].
    rewrite app_nil_r. reflexivity.
Qed.

Lemma flat_map_ext_in {A B} (f g : A -> list B) l : (forall x, In x l -> f x = g x) -> flat_map f l = flat_map g l.
Proof.
  induction l as [|x t IH]; intros H; [reflexivity|]. cbn [flat_map].
  rewrite (H x (or_introl eq_refl)), IH; [reflexivity|]. intros y Hy. apply H. right. exact Hy.
Qed.

Definition valid_list (c : option pts) (cutoff : Z) : list Z :=
  match c with
  | Some pt => match pts_valid pt cutoff with Some p => [p] | None => [] end
  | None => []
  end.

Lemma etp_valid_by_keys e cutoff : NoDup (map fst e) ->
  etp_valid e cutoff = flat_map (fun x => valid_list (aget e x) cutoff) (map fst e).
Proof.
  unfold etp_valid. induction e as [|[x pt] t IH]; intros Hn; [reflexivity|].
  cbn [map fst] in Hn. inversion Hn as [|? ? Hx Hn']; subst.
  cbn [flat_map map fst snd aget]. rewrite Z.eqb_refl. cbn [valid_list]. f_equal.
  rewrite (IH Hn'). apply flat_map_ext_in. intros y Hy.
  destruct (x =? y) eqn:E; [apply Z.eqb_eq in E; subst y; contradiction | reflexivity].
Qed.

(* below the cutoff the stored entry and the history's latest entry may differ (Go's zero Time),
   but neither is fresh *)
Definition sim (cutoff : Z) (pt : pts) (b : Z * Z) : Prop :=
  (p_time pt = fst b /\ p_price pt = snd b) \/ (p_time pt < cutoff /\ fst b < cutoff).

Lemma sim_step cutoff pt b u : sim cutoff pt b ->
  sim cutoff (fst (pts_update pt (snd u) (fst u))) (if fst b <? fst u then u else b).
Proof.
  unfold sim, pts_update. intros [[H1 H2]|[H1 H2]].
  - rewrite H1. destruct (fst b <? fst u); cbn [fst p_time p_price]; left; auto.
  - destruct (p_time pt <? fst u) eqn:E1; destruct (fst b <? fst u) eqn:E2; cbn [fst p_time p_price];
      try apply Z.ltb_lt in E1; try apply Z.ltb_ge in E1; try apply Z.ltb_lt in E2; try apply Z.ltb_ge in E2.
    + left; auto.
    + right. lia.
    + right. lia.
    + right. auto.
Qed.

Lemma sim_fold cutoff h : forall pt b, sim cutoff pt b ->
  exists pt' b', fold_left upd_cell h (Some pt) = Some pt' /\ latest_from (Some b) h = Some b' /\ sim cutoff pt' b'.
Proof.
  induction h as [|u r IH]; intros pt b H; [exists pt, b; auto|].
  cbn [fold_left latest_from]. unfold upd_cell at 2.
  replace (match (if fst b <? fst u then Some u else Some b) with Some b0 => Some b0 | None => None end)
    with (Some (if fst b <? fst u then u else b)) by (destruct (fst b <? fst u); reflexivity).
  assert (E : (if fst b <? fst u then Some u else Some b) = Some (if fst b <? fst u then u else b))
    by (destruct (fst b <? fst u); reflexivity).
  rewrite E. apply IH. apply sim_step. exact H.
Qed.

Lemma valid_of_sim cutoff pt b : sim cutoff pt b ->
  valid_list (Some pt) cutoff = (if cutoff <=? fst b then [snd b] else []).
Proof.
  unfold sim, valid_list, pts_valid. intros [[H1 H2]|[H1 H2]].
  - rewrite H1, H2, Z.leb_antisym. destruct (fst b <? cutoff); reflexivity.
  - apply Z.ltb_lt in H1. rewrite H1. replace (cutoff <=? fst b) with false by (symmetry; apply Z.leb_gt; exact H2).
    reflexivity.
Qed.

Lemma valid_of_history cutoff h : time_zero < cutoff ->
  valid_list (fold_left upd_cell h None) cutoff
  = match latest_of h with Some (t, p) => if cutoff <=? t then [p] else [] | None => [] end.
Proof.
  intros Hc. destruct h as [|u r]; [reflexivity|]. unfold latest_of. cbn [fold_left latest_from].
  unfold upd_cell at 2.
  assert (Hs : sim cutoff (fst (pts_update pts_new (snd u) (fst u))) u).
  { unfold sim, pts_update, pts_new. cbn [p_time]. destruct (time_zero <? fst u) eqn:E; cbn [fst p_time p_price].
    - left. auto.
    - apply Z.ltb_ge in E. right. lia. }
  destruct (sim_fold cutoff r _ _ Hs) as (pt' & b' & -> & -> & Hs'). rewrite (valid_of_sim _ _ _ Hs').
  destruct b' as [t p]. reflexivity.
Qed.

Lemma cell_etp_of s m x : cell s m x = aget (etp_of s m) x.
Proof. unfold cell, etp_of. destruct (aget s m); reflexivity. Qed.

(* the fresh prices of the model store are those computed from the submitted history alone:
   per exchange (in order of first appearance) the latest submitted price, if not older than the cutoff *)
Theorem fresh_prices_history ups m cutoff : time_zero < cutoff ->
  fresh_prices (mte_update [] ups) m cutoff = fresh_of_history (flat_updates ups) m cutoff.
Proof.
  intros Hc. pose proof (keys_mte_update ups [] m) as HK. cbn [etp_of aget map app] in HK.
  unfold fresh_prices. fold (etp_of (mte_update [] ups) m).
  assert (E : match aget (mte_update [] ups) m with Some e => etp_valid e cutoff | None => [] end
              = etp_valid (etp_of (mte_update [] ups) m) cutoff)
    by (unfold etp_of; destruct (aget (mte_update [] ups) m); reflexivity).
  rewrite E. rewrite etp_valid_by_keys by (rewrite HK; apply dedup_nodup).
  rewrite HK. unfold fresh_of_history, exchanges_of. fold (ids_of (flat_updates ups) m).
  apply flat_map_ext_in. intros x _.
  rewrite <- cell_etp_of, cell_mte_update. cbn [cell aget]. apply valid_of_history. exact Hc.
Qed.

(* ====================================================================================== *)
(* C. the lock-protected object: every interleaving is a sequential run                     *)
(* ====================================================================================== *)
Section LockedProofs.
Variables (S L Op R : Type).
Variable l0 : Op -> L.
Variable bstep : Op -> L -> S -> (L * S) + R.

Local Notation runs := (runs bstep).
Local Notation seq_run := (seq_run l0 bstep).
Local Notation step := (step l0 bstep).
Local Notation exec := (exec l0 bstep).
Local Notation Inv_ := (Inv_ l0 bstep).
Local Notation guarded := (guarded l0 bstep).
Local Notation config := (config S L Op R).

Lemma runs_det o l s r1 s1 r2 s2 : runs o l s r1 s1 -> runs o l s r2 s2 -> r1 = r2 /\ s1 = s2.
Proof.
  intros H1; revert r2 s2. induction H1 as [l s r E | l s l' s' r s'' E _ IH]; intros r2 s2 H2.
  - inversion H2 as [? ? ? E2 | ? ? ? ? ? ? E2 _]; subst; rewrite E in E2; [injection E2 as <-; auto | discriminate].
  - inversion H2 as [? ? ? E2 | ? ? l2 s2' ? ? E2 H2']; subst; rewrite E in E2; [discriminate|].
    injection E2 as <- <-. apply IH; assumption.
Qed.

Lemma seq_run_app s h1 s1 h2 s2 : seq_run s h1 s1 -> seq_run s1 h2 s2 -> seq_run s (h1 ++ h2) s2.
Proof. induction 1; cbn; [auto|]. intros. econstructor; eauto. Qed.

Lemma upd_same (f : tid -> tstate L Op) t x : upd f t x t = x.
Proof. unfold upd. rewrite Nat.eqb_refl. reflexivity. Qed.
Lemma upd_other (f : tid -> tstate L Op) t x u : u <> t -> upd f t x u = f u.
Proof. unfold upd. intros H. apply Nat.eqb_neq in H. rewrite H. reflexivity. Qed.

Lemma step_inv s0 (c : config) e c' : Inv_ s0 c -> step c e c' -> Inv_ s0 c'.
Proof.
  intros [Hrun Hsh] Hs. unfold LockedObject.Inv_. inversion Hs; subst; cbn [sh owner th lin] in *.
  - (* invoke *) split.
    + intros u o' l' Hu. destruct (Nat.eq_dec u t) as [->|N]; [rewrite upd_same in Hu; discriminate|].
      rewrite upd_other in Hu by exact N. eapply Hrun; eassumption.
    + destruct (owner c) as [t'|]; [|exact Hsh].
      destruct Hsh as (o' & l' & sq & Ht' & Hseq & Hk). exists o', l', sq. split; [|split; assumption].
      destruct (Nat.eq_dec t' t) as [->|N]; [congruence | rewrite upd_other by exact N; exact Ht'].
  - (* acquire *) match goal with H : owner c = None |- _ => rewrite H in Hsh end. split.
    + intros u o' l' Hu. destruct (Nat.eq_dec u t) as [->|N]; [reflexivity|].
      rewrite upd_other in Hu by exact N. specialize (Hrun _ _ _ Hu). congruence.
    + exists o, (l0 o), (sh c). rewrite upd_same. split; [reflexivity|]. split; [exact Hsh|]. auto.
  - (* body step *) match goal with H : owner c = Some t |- _ => rewrite H in Hsh end. split.
    + intros u o' l'' Hu. destruct (Nat.eq_dec u t) as [->|N]; [reflexivity|].
      rewrite upd_other in Hu by exact N. eapply Hrun in Hu. congruence.
    + destruct Hsh as (o' & l1 & sq & Ht & Hseq & Hk).
      assert (o' = o /\ l1 = l) as [-> ->] by (split; congruence).
      exists o, l', sq. rewrite upd_same. split; [reflexivity|]. split; [exact Hseq|].
      intros r s'' Hr. apply Hk. eapply runs_step; eassumption.
  - (* response *) match goal with H : owner c = Some t |- _ => rewrite H in Hsh end. split.
    + intros u o' l'' Hu. destruct (Nat.eq_dec u t) as [->|N]; [rewrite upd_same in Hu; discriminate|].
      rewrite upd_other in Hu by exact N. eapply Hrun in Hu. congruence.
    + destruct Hsh as (o' & l1 & sq & Ht & Hseq & Hk).
      assert (o' = o /\ l1 = l) as [-> ->] by (split; congruence).
      eapply seq_run_app; [exact Hseq|]. econstructor; [|constructor].
      apply Hk. apply runs_done. assumption.
Qed.

Lemma init_inv s0 : Inv_ s0 (init s0).
Proof. split; [cbn; discriminate | cbn; constructor]. Qed.

Lemma exec_inv s0 (c : config) es c' : Inv_ s0 c -> exec c es c' -> Inv_ s0 c'.
Proof. intros HI He. induction He; [exact HI|]. apply IHHe. eapply step_inv; eassumption. Qed.

Theorem linearizable s0 es (c : config) :
  exec (init s0) es c -> owner c = None -> seq_run s0 (lin c) (sh c).
Proof.
  intros He Ho. destruct (exec_inv s0 _ _ _ (init_inv s0) He) as [_ H]. rewrite Ho in H. exact H.
Qed.

Lemma exec_lin (c : config) es c' : exec c es c' -> lin c' = lin c ++ responses es.
Proof.
  induction 1 as [|c e c1 es c2 Hs _ IH]; [rewrite app_nil_r; reflexivity|].
  rewrite IH. inversion Hs; subst; cbn [lin responses]; [reflexivity..|].
  rewrite <- app_assoc. reflexivity.
Qed.

(* the (operation, result) pairs in the order their responses occur in the trace are a
   sequential run from the initial state, ending in the final shared state *)
Theorem responses_are_a_sequential_run s0 es (c : config) :
  exec (init s0) es c -> owner c = None -> seq_run s0 (responses es) (sh c).
Proof.
  intros He Ho. pose proof (linearizable s0 es c He Ho) as H.
  rewrite (exec_lin _ _ _ He) in H. exact H.
Qed.

(* race freedom of the model: every access to the shared state is made by the owner of the mutex *)
Theorem exec_guarded (c : config) es c' : exec c es c' -> guarded c es.
Proof.
  induction 1 as [|c e c1 es c2 Hs _ IH]; [constructor|].
  econstructor; [exact Hs | | exact IH].
  intros t Ht. inversion Hs; subst; cbn [accessor] in Ht; try discriminate; injection Ht as <-; assumption.
Qed.

(* mutual exclusion: in every reachable configuration at most one call is running, and it owns the mutex *)
Theorem mutual_exclusion s0 es (c : config) t1 o1 l1 t2 o2 l2 :
  exec (init s0) es c -> th c t1 = Running o1 l1 -> th c t2 = Running o2 l2 -> t1 = t2 /\ owner c = Some t1.
Proof.
  intros He H1 H2. destruct (exec_inv s0 _ _ _ (init_inv s0) He) as [Hrun _].
  pose proof (Hrun _ _ _ H1) as E1. pose proof (Hrun _ _ _ H2) as E2. split; [congruence | exact E1].
Qed.

(* real-time order: a call whose response precedes the invocation of another call precedes it
   in the linearization (the linearization is the response order) *)
Lemma responses_app (es1 es2 : list (event Op R)) : responses (es1 ++ es2) = responses es1 ++ responses es2.
Proof.
  induction es1 as [|e t IH]; [reflexivity|]. destruct e; cbn [app responses]; rewrite ?IH; reflexivity.
Qed.

Theorem real_time_order (es1 es2 es3 : list (event Op R)) t1 o1 r1 t2 o2 r2 :
  responses (es1 ++ Res t1 o1 r1 :: es2 ++ Res t2 o2 r2 :: es3)
  = responses es1 ++ (o1, r1) :: responses es2 ++ (o2, r2) :: responses es3.
Proof. rewrite responses_app. cbn [responses]. rewrite responses_app. reflexivity. Qed.
End LockedProofs.

(* ---- the price store as an instance ---------------------------------------------------------- *)
Lemma p_runs_update maxAge ups0 : forall rest s,
  runs (p_bstep maxAge) (CUpdate ups0) (LUpd rest) s [] (mte_update s rest).
Proof.
  induction rest as [|mu r IH]; intros s.
  - apply runs_done. reflexivity.
  - eapply runs_step; [reflexivity|]. apply IH.
Qed.

Lemma p_runs_read maxAge ps0 t : forall rest acc s,
  runs (p_bstep maxAge) (CRead ps0 t) (LRead rest acc) s (fold_left (read_step s (t - maxAge)) rest acc) s.
Proof.
  induction rest as [|p r IH]; intros acc s.
  - apply runs_done. reflexivity.
  - eapply runs_step; [reflexivity|]. apply IH.
Qed.

(* running the loop of a method step by step under the lock = the method as one atomic function *)
Lemma p_runs_apply maxAge o s :
  runs (p_bstep maxAge) o (p_l0 o) s (snd (apply_op maxAge s o)) (fst (apply_op maxAge s o)).
Proof. destruct o as [ups|ps t]; cbn [p_l0 apply_op fst snd]; [apply p_runs_update | apply p_runs_read]. Qed.

Lemma p_seq_run_ops maxAge s h s' :
  seq_run p_l0 (p_bstep maxAge) s h s' -> run_ops maxAge s (map fst h) = (map snd h, s').
Proof.
  induction 1 as [s|s o r s1 h s2 Hr _ IH]; [reflexivity|].
  destruct (runs_det _ _ _ _ _ _ _ _ _ _ _ _ Hr (p_runs_apply maxAge o s)) as [-> ->].
  cbn [map fst snd run_ops]. destruct (apply_op maxAge s o) as [s1' out] eqn:E. cbn [fst snd] in IH.
  rewrite IH. reflexivity.
Qed.

(* C20_linearizable *)
Theorem pricefeed_linearizable maxAge s0 es c :
  exec p_l0 (p_bstep maxAge) (init s0) es c -> owner c = None ->
  run_ops maxAge s0 (map fst (responses es)) = (map snd (responses es), sh c).
Proof.
  intros He Ho. apply p_seq_run_ops. eapply responses_are_a_sequential_run; eassumption.
Qed.

(* ---- the linearization search used on recorded histories ------------------------------------ *)
Lemma lazy_existsb_exists {A} (f : A -> bool) l : lazy_existsb f l = true -> exists x, In x l /\ f x = true.
Proof.
  induction l as [|x t IH]; cbn [lazy_existsb]; [discriminate|].
  destruct (f x) eqn:E; [intros _; exists x; split; [left; reflexivity | exact E]|].
  intros H. destruct (IH H) as (y & Hy & Ey). exists y. split; [right; exact Hy | exact Ey].
Qed.

Lemma picks_perm {A} (l : list A) : forall pre c rest,
  In (c, rest) (picks pre l) -> Permutation (c :: rest) (pre ++ l).
Proof.
  induction l as [|x t IH]; intros pre c rest H; cbn [picks] in H; [destruct H|].
  destruct H as [H|H].
  - injection H as <- <-. rewrite rev_append_rev.
    eapply Permutation_trans; [|apply Permutation_middle]. apply perm_skip.
    apply Permutation_app_tail. apply Permutation_sym, Permutation_rev.
  - eapply Permutation_trans; [apply (IH _ _ _ H)|]. cbn [app]. apply Permutation_middle.
Qed.

Theorem lin_search_sound maxAge final fuel : forall s pending,
  lin_search fuel maxAge final s pending = true -> lin_witness maxAge final s pending.
Proof.
  induction fuel as [|f IH]; intros s pending H.
  - destruct pending; [apply lw_nil; exact H | discriminate].
  - destruct pending as [|c0 p0] eqn:Ep; [apply lw_nil; exact H|]. rewrite <- Ep in *.
    cbn [lin_search] in H. rewrite Ep in H at 1. 
    apply lazy_existsb_exists in H. destruct H as ([c rest] & Hin & H).
    destruct (minimal c pending) eqn:Em; [|discriminate].
    destruct (apply_op maxAge s (k_op c)) as [s' out] eqn:Ea.
    destruct (map_eqb out (k_out c)) eqn:Eo; [|discriminate].
    eapply lw_cons with (c := c) (rest := rest).
    + apply (picks_perm pending [] c rest Hin).
    + intros d Hd. unfold minimal in Em. rewrite forallb_forall in Em. specialize (Em d Hd).
      apply negb_true_iff, Z.ltb_ge in Em. lia.
    + rewrite Ea. exact Eo.
    + rewrite Ea. apply IH. exact H.
Qed.

Theorem check_conc_sound maxAge calls final :
  check_conc maxAge calls final = [] -> lin_witness maxAge final [] calls.
Proof.
  unfold check_conc. intros H. apply app_nil_both in H. destruct H as [_ H]. apply spec_if_nil in H.
  eapply lin_search_sound. exact H.
Qed.

(* ---- lock discipline facts --------------------------------------------------------------------- *)
Lemma check_lock_facts facts :
  flat_map (fun f =>
    diff_if (lf_guarded f) (String.append "map field accessed without Lock(); defer Unlock() in " (lf_name f))
    ++ diff_if (negb (lf_escapes f)) (String.append "guarded map or *ExchangeToPrice escapes from " (lf_name f))) facts = [] ->
  forall f, In f facts -> lf_guarded f = true /\ lf_escapes f = false.
Proof.
  induction facts as [|g t IH]; intros H1 f Hf; [destruct Hf|].
  cbn [flat_map] in H1. apply app_nil_both in H1. destruct H1 as [Hg Ht].
  destruct Hf as [<-|Hf]; [|apply IH; assumption].
  apply app_nil_both in Hg. destruct Hg as [G1 G2]. apply diff_if_nil in G1, G2.
  split; [exact G1 | apply negb_true_iff; exact G2].
Qed.

Theorem check_lock_sound facts :
  check_lock facts = [] ->
  (forall f, In f facts -> lf_guarded f = true /\ lf_escapes f = false)
  /\ (exists f, In f facts /\ lf_name f = "UpdatePrices"%string)
  /\ (exists f, In f facts /\ lf_name f = "GetValidMedianPrices"%string).
Proof.
  unfold check_lock. intros H. apply app_nil_both in H. destruct H as [H1 H2]. apply diff_if_nil in H2.
  apply andb_prop in H2. destruct H2 as [Ha Hb]. split; [|split].
  - apply check_lock_facts. exact H1.
  - apply existsb_exists in Ha. destruct Ha as (f & Hf & E). exists f. split; [exact Hf | apply String.eqb_eq; exact E].
  - apply existsb_exists in Hb. destruct Hb as (f & Hf & E). exists f. split; [exact Hf | apply String.eqb_eq; exact E].
Qed.

(* ---- what the check establishes about the real read results of a sequential run ---------------- *)
Lemma flat_map_nil {A B} (f : A -> list B) l : flat_map f l = [] -> forall x, In x l -> f x = [].
Proof.
  induction l as [|y t IH]; intros H x Hx; [destruct Hx|]. cbn [flat_map] in H.
  apply app_nil_both in H. destruct H as [H1 H2]. destruct Hx as [<-|Hx]; [exact H1 | apply IH; assumption].
Qed.

Lemma in_dedup_nil x l : In x (dedup [] l) <-> In x l.
Proof.
  rewrite <- !mem_in. pose proof (mem_dedup l [] x) as H. cbn [mem existsb orb] in H. rewrite H. tauto.
Qed.

Lemma aget_notin {V} (l : list (Z * V)) k : ~ In k (map fst l) -> aget l k = None.
Proof.
  induction l as [|[k' v] t IH]; intros H; [reflexivity|]. cbn [aget map fst] in *.
  destruct (k' =? k) eqn:E; [apply Z.eqb_eq in E; subst; exfalso; apply H; left; reflexivity|].
  apply IH. intros Hi. apply H. right. exact Hi.
Qed.

Lemma spec_read_sound h cutoff ps impl : spec_read h cutoff ps impl = [] ->
  forall m, aget impl m = served_spec (fresh_of_history h m cutoff) ps m.
Proof.
  intros H m. unfold served_spec.
  destruct (in_dec Z.eq_dec m (keys_of ps impl)) as [Hin|Hnot].
  - pose proof (flat_map_nil _ _ H m Hin) as Hm. cbv beta zeta in Hm.
    destruct (aget impl m) as [v|].
    + apply app_nil_both in Hm. destruct Hm as [H1 H2]. apply spec_if_nil in H1. rewrite H1 in H2 |- *.
      apply spec_if_nil in H2. destruct (median_spec _) as [w|]; cbn in H2; [|discriminate].
      apply Z.eqb_eq in H2. subst. reflexivity.
    + apply spec_if_nil, negb_true_iff in Hm. rewrite Hm. reflexivity.
  - unfold keys_of in Hnot. rewrite in_dedup_nil, in_app_iff in Hnot.
    rewrite aget_notin by tauto.
    replace (existsb _ ps) with false; [reflexivity|]. symmetry. apply not_true_is_false. intros He.
    apply existsb_exists in He. destruct He as (p & Hp & E). apply andb_prop in E. destruct E as [E _].
    apply Z.eqb_eq in E. apply Hnot. left. apply in_map_iff. exists p. split; assumption.
Qed.

Definition step_state (s : seq_state) (o : sop) : seq_state :=
  match o with
  | SUpdate ups => SS (mte_update (ss_store s) ups) (ss_hist s ++ flat_updates ups) (ss_prev s)
  | SRead _ _ _ => s
  | SDump cells => SS (ss_store s) (ss_hist s) cells
  end.

Lemma seq_step_split maxAge s iss o :
  exists extra, seq_step maxAge (s, iss) o = (step_state s o, iss ++ extra)
                /\ seq_step maxAge (s, []) o = (step_state s o, extra).
Proof.
  destruct o as [ups|ps t impl|cells]; cbn [seq_step step_state].
  - exists []. rewrite app_nil_r. split; reflexivity.
  - eexists. split; reflexivity.
  - eexists. split; reflexivity.
Qed.

Lemma seq_fold_issues maxAge ops : forall s iss,
  fold_left (seq_step maxAge) ops (s, iss)
  = (fst (fold_left (seq_step maxAge) ops (s, [])), iss ++ snd (fold_left (seq_step maxAge) ops (s, []))).
Proof.
  induction ops as [|o r IH]; intros s iss; [cbn; rewrite app_nil_r; reflexivity|].
  cbn [fold_left]. destruct (seq_step_split maxAge s iss o) as (extra & -> & ->).
  rewrite (IH _ (iss ++ extra)), (IH _ extra). cbn [fst snd]. rewrite app_assoc. reflexivity.
Qed.

Lemma seq_fold_hist maxAge pre : forall st,
  ss_hist (fst (fold_left (seq_step maxAge) pre st)) = ss_hist (fst st) ++ updates_of pre.
Proof.
  induction pre as [|o r IH]; intros [s iss]; [cbn; rewrite app_nil_r; reflexivity|].
  cbn [fold_left]. destruct (seq_step_split maxAge s iss o) as (extra & -> & _). rewrite IH.
  unfold updates_of. cbn [flat_map fst]. destruct o; cbn [step_state ss_hist]; rewrite ?app_assoc, ?app_nil_r; reflexivity.
Qed.

(* every recorded read result of an accepted sequential run is what the property prescribes for
   the updates submitted before it *)
Theorem check_seq_sound maxAge pre ps t impl post :
  check_seq maxAge (pre ++ SRead ps t impl :: post) = [] -> time_zero < t - maxAge ->
  forall m, aget impl m = served_spec (fresh_of_history (updates_of pre) m (t - maxAge)) ps m.
Proof.
  unfold check_seq. rewrite fold_left_app. intros H Hc.
  destruct (fold_left (seq_step maxAge) pre (SS [] [] [], [])) as [s1 iss1] eqn:E1.
  match type of E1 with fold_left _ _ ?st = _ => pose proof (seq_fold_hist maxAge pre st) as Hh end.
  rewrite E1 in Hh. cbn [fst ss_hist app] in Hh.
  cbn [fold_left seq_step] in H. rewrite seq_fold_issues in H. cbn [snd] in H.
  apply app_nil_both in H. destruct H as [H _].
  apply app_nil_both in H. destruct H as [_ H]. apply app_nil_both in H. destruct H as [H _].
  apply Z.ltb_lt in Hc. rewrite Hc in H. rewrite Hh in H. apply spec_read_sound. exact H.
Qed.

(* both endpoints of the median server answer what the property prescribes for the submitted updates: the
   all-markets answer for every market, and the single-market answer of a market for that market *)
Theorem check_server_sound maxAge ups ps readT all singles :
  check_server maxAge ups ps readT all singles = [] ->
  (forall m, aget all m = served_spec (fresh_of_history (flat_updates ups) m (readT - maxAge)) ps m) /\ (forall m r, In (m, r) singles ->
     r = served_spec (fresh_of_history (flat_updates ups) m (readT - maxAge)) (filter (fun p => mp_id p =? m) ps) m).
Proof.
  unfold check_server. intros H. apply app_nil_both in H. destruct H as [H1 H]. apply app_nil_both in H. destruct H as [_ H].
  split; [apply spec_read_sound; exact H1|].
  intros m r Hin. pose proof (flat_map_nil _ _ H (m, r) Hin) as Hm. cbv beta iota zeta in Hm.
  apply app_nil_both in Hm. destruct Hm as [Hm _].
  pose proof (spec_read_sound _ _ _ _ Hm m) as Hs. rewrite <- Hs.
  destruct r as [v|]; cbn [single_answer aget]; [rewrite Z.eqb_refl|]; reflexivity.
Qed.

(* ====================================================================================== *)
(* D. non-vacuity                                                                           *)
(* ====================================================================================== *)
Example median_sum_overflows :
  median U64 [18446744073709551615; 18446744073709551614] = Some 18446744073709551615
  /\ wrap U64 (18446744073709551615 + 18446744073709551614) / 2 = 9223372036854775806.
Proof. vm_compute. split; reflexivity. Qed.

Example median_min_max_int64 :
  median I64 [9223372036854775807; -9223372036854775808] = Some (-1)
  /\ median I64 [-9223372036854775808; -9223372036854775807] = Some (-9223372036854775808)
  /\ median I64 [-3; 0] = Some (-2) /\ median I64 [0; 3] = Some 2 /\ median I32 [-2147483648; -3] = Some (-1073741826).
Proof. vm_compute. repeat split; reflexivity. Qed.

Example median_odd_and_empty : median U32 [7; 1; 4294967295] = Some 7 /\ median U32 [] = None.
Proof. vm_compute. split; reflexivity. Qed.

Definition ex_store : store :=
  mte_update (mte_update [] [MU 0 [XP 0 100 1000; XP 1 104 1001; XP 2 1000 990]])
             [MU 0 [XP 0 90 1000; XP 1 107 1002; XP 2 5 989]].

(* equal and older timestamps are ignored, the newer one replaces; with maxAge 10 the read at
   1010 uses exchanges 0 and 1 (cutoff 1000; exchange 2 is stale): mean of 100 and 107 rounded up;
   three fresh exchanges are required => nothing served; at 1011 only one exchange is fresh *)
Example served_example :
  store_cells ex_store = [Cell 0 0 1000 100; Cell 0 1 1002 107; Cell 0 2 990 1000]
  /\ mte_read 10 ex_store [MP 0 2; MP 7 0] 1010 = [(0, 104)]
  /\ mte_read 10 ex_store [MP 0 3] 1010 = []
  /\ mte_read 10 ex_store [MP 0 1] 1011 = [(0, 107)]
  /\ mte_read 10 ex_store [MP 0 0] 1013 = [].
Proof. vm_compute. repeat split; reflexivity. Qed.

(* two goroutines: thread 1 invokes a read before thread 0's update has finished; the read
   acquires the mutex after the update released it and sees the new price *)
Example interleaving_example :
  let u := CUpdate [MU 0 [XP 0 100 1000]] in
  let r := CRead [MP 0 1] 1005 in
  exists c,
    exec p_l0 (p_bstep 10) (init [])
         [Inv 0%nat u; Acq 0%nat; Inv 1%nat r; Tau 0%nat; Res 0%nat u []; Acq 1%nat; Tau 1%nat; Res 1%nat r [(0, 100)]] c
    /\ owner c = None.
Proof.
  cbv zeta. eexists. split.
  - eapply e_cons; [eapply s_inv; reflexivity|].
    eapply e_cons; [eapply s_acq; reflexivity|].
    eapply e_cons; [eapply s_inv; reflexivity|].
    eapply e_cons; [eapply s_body; reflexivity|].
    eapply e_cons; [eapply s_res; reflexivity|].
    eapply e_cons; [eapply s_acq; reflexivity|].
    eapply e_cons; [eapply s_body; reflexivity|].
    eapply e_cons; [eapply s_res; reflexivity|].
    apply e_nil.
  - reflexivity.
Qed.

(* a recorded history in which a read that started after an update had returned misses it is rejected *)
Example search_rejects_stale_read :
  lin_search 2 10 [Cell 0 0 1000 100] []
    [Call 1 2 (CUpdate [MU 0 [XP 0 100 1000]]) []; Call 3 4 (CRead [MP 0 1] 1005) []] = false
  /\ lin_search 2 10 [Cell 0 0 1000 100] []
    [Call 1 4 (CUpdate [MU 0 [XP 0 100 1000]]) []; Call 2 3 (CRead [MP 0 1] 1005) []] = true.
Proof. vm_compute. split; reflexivity. Qed.
