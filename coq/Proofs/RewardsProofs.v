From Coq Require Import ZArith List Bool Lia String Permutation Sorted.
From Verif Require Import Base.Harness Base.Dec Model.Rewards.
Import ListNotations.
Open Scope Z_scope.

(* ====================================================================================== *)
(* CalculateRewardAmount                                                                    *)
(* ====================================================================================== *)
(* amount = q * R with q the 18-digit quotient of p*n by T *)
Lemma calc_reward_eq p n T R : 0 < T ->
  calc_reward p n T R = chop_round (Z.quot (p * n * P * P) T) * R.
Proof.
  intros HT. unfold calc_reward. rewrite dec_mul_of_int_r.
  rewrite dec_mul_of_int_l. rewrite dec_quo_of_int by exact HT.
  unfold of_int. f_equal. f_equal. f_equal. ring.
Qed.

Lemma calc_reward_nonneg p n T R : 0 <= p -> 0 <= n -> 0 < T -> 0 <= R -> 0 <= calc_reward p n T R.
Proof.
  intros Hp Hn HT HR. rewrite calc_reward_eq by exact HT.
  apply Z.mul_nonneg_nonneg; [|exact HR]. apply chop_round_nonneg_sign.
  apply Z.quot_pos; [unfold P; nia | lia].
Qed.

(* |amount*T - R*p*n*10^18| <= R*T : one unit of 10^-18 per unit of reward *)
Lemma calc_reward_err p n T R : 0 <= p -> 0 <= n -> 0 < T -> 0 <= R ->
  Z.abs (calc_reward p n T R * T - R * (p * n) * P) <= R * T.
Proof.
  intros Hp Hn HT HR. unfold calc_reward. rewrite dec_mul_of_int_r, dec_mul_of_int_l. unfold of_int at 1.
  pose proof (dec_quo_of_int_err (p * (n * P)) T ltac:(unfold P; nia) HT) as He.
  set (q := dec_quo (p * (n * P)) (of_int T)) in *.
  assert (E : q * R * T - R * (p * n) * P = R * (q * T - p * (n * P))) by ring.
  rewrite E, Z.abs_mul, (Z.abs_eq R) by exact HR. nia.
Qed.

(* ====================================================================================== *)
(* the pay loop: exact sum, and non-negativity                                              *)
(* ====================================================================================== *)
Lemma pay_loop_sum acc T R : forall l dist, l <> [] ->
  dist + sumz (amounts (pay_loop acc T R dist l)) = of_int R.
Proof.
  induction l as [|x t IH]; intros dist Hne; [congruence|].
  cbn [pay_loop]. destruct (weight acc x) as [p n].
  destruct t as [|y t'].
  - cbn [amounts map sumz fst snd]. lia.
  - change (amounts ((i_id x, calc_reward p n T R, i_query x, i_height x) :: pay_loop acc T R (dist + calc_reward p n T R) (y :: t')))
      with (calc_reward p n T R :: amounts (pay_loop acc T R (dist + calc_reward p n T R) (y :: t'))).
    cbn [sumz]. specialize (IH (dist + calc_reward p n T R) ltac:(discriminate)). lia.
Qed.

Theorem allocate_sum_exact acc order aggs R :
  R <> 0 -> order <> [] ->
  sumz (amounts (allocate_rewards_ord acc order aggs R)) = of_int R.
Proof.
  intros HR Hne. unfold allocate_rewards_ord. destruct (R =? 0) eqn:E; [apply Z.eqb_eq in E; congruence|].
  assert (Hs : sort_by_id order <> []).
  { destruct order as [|x t]; [congruence|]. cbn [sort_by_id fold_right].
    destruct (fold_right insert_by_id [] t); cbn [insert_by_id]; [discriminate|]. destruct (i_id x <=? i_id r); discriminate. }
  pose proof (pay_loop_sum acc (total_power aggs) R (sort_by_id order) 0 Hs). lia.
Qed.

(* ---- sorting by distinct ids is independent of the input order (C01) ---------------------- *)
Lemma insert_by_id_perm x l : Permutation (x :: l) (insert_by_id x l).
Proof.
  induction l as [|y t IH]; cbn [insert_by_id]; [reflexivity|].
  destruct (i_id x <=? i_id y); [reflexivity|]. rewrite perm_swap. constructor. exact IH.
Qed.
Lemma sort_by_id_perm l : Permutation l (sort_by_id l).
Proof.
  induction l as [|x t IH]; cbn [sort_by_id fold_right]; [constructor|].
  rewrite <- insert_by_id_perm. constructor. exact IH.
Qed.

Definition id_sorted (l : list rinfo) := StronglySorted (fun a b => i_id a <= i_id b) l.

Lemma insert_by_id_sorted x l : id_sorted l -> id_sorted (insert_by_id x l).
Proof.
  unfold id_sorted. induction 1 as [|y t Hs IH Hy]; cbn [insert_by_id].
  - constructor; constructor.
  - destruct (i_id x <=? i_id y) eqn:E.
    + apply Z.leb_le in E. constructor; [constructor; assumption|].
      constructor; [exact E|]. eapply Forall_impl; [|exact Hy]. cbn; intros; lia.
    + apply Z.leb_gt in E. constructor; [exact IH|].
      eapply Permutation_Forall; [apply insert_by_id_perm|]. constructor; [lia|exact Hy].
Qed.
Lemma sort_by_id_sorted l : id_sorted (sort_by_id l).
Proof. induction l; cbn [sort_by_id fold_right]; [constructor | apply insert_by_id_sorted; assumption]. Qed.

(* two sorted permutations of a list with pairwise distinct ids are equal *)
Lemma sorted_perm_unique : forall l1 l2,
  id_sorted l1 -> id_sorted l2 -> Permutation l1 l2 -> NoDup (map i_id l1) -> l1 = l2.
Proof.
  induction l1 as [|x t IH]; intros l2 S1 S2 Hp Hnd.
  - apply Permutation_nil in Hp. congruence.
  - destruct l2 as [|y t2]; [apply Permutation_sym, Permutation_nil in Hp; discriminate|].
    inversion S1 as [|? ? S1t H1]; subst. inversion S2 as [|? ? S2t H2]; subst.
    inversion Hnd as [|? ? Hnx Hndt]; subst.
    assert (Hxy : x = y).
    { assert (In x (y :: t2)) as Hx by (eapply Permutation_in; [exact Hp | left; reflexivity]).
      assert (In y (x :: t)) as Hy by (eapply Permutation_in; [symmetry; exact Hp | left; reflexivity]).
      destruct Hx as [Hx|Hx]; [congruence|]. destruct Hy as [Hy|Hy]; [congruence|].
      rewrite Forall_forall in H1, H2. pose proof (H1 _ Hy). pose proof (H2 _ Hx).
      exfalso. apply Hnx. assert (i_id x = i_id y) as -> by lia. apply in_map. exact Hy. }
    subst y. f_equal. apply IH; auto. eapply Permutation_cons_inv. exact Hp.
Qed.

Theorem sort_by_id_order_independent o1 o2 :
  Permutation o1 o2 -> NoDup (map i_id o1) -> sort_by_id o1 = sort_by_id o2.
Proof.
  intros Hp Hnd. apply sorted_perm_unique; try apply sort_by_id_sorted.
  - rewrite <- (sort_by_id_perm o1), <- (sort_by_id_perm o2). exact Hp.
  - eapply Permutation_NoDup; [|exact Hnd]. apply Permutation_map. apply sort_by_id_perm.
Qed.

Theorem allocate_rewards_map_order_independent acc o1 o2 aggs R :
  Permutation o1 o2 -> NoDup (map i_id o1) ->
  allocate_rewards_ord acc o1 aggs R = allocate_rewards_ord acc o2 aggs R.
Proof.
  intros Hp Hnd. unfold allocate_rewards_ord. rewrite (sort_by_id_order_independent o1 o2 Hp Hnd). reflexivity.
Qed.

(* the collected map has pairwise distinct ids *)
Lemma map_add_ids acc m q r : forall id, In id (map i_id (map_add acc m q r)) <-> In id (map i_id m) \/ id = fst (fst r).
Proof.
  destruct r as [[rid pw] h]. cbn [fst]. induction m as [|x t IH]; intros id; cbn [map_add map In].
  - split.
    + intros [Hx|Hx]; [right; symmetry; exact Hx | destruct Hx].
    + intros [Hx|Hx]; [destruct Hx | left; symmetry; exact Hx].
  - destruct (i_id x =? rid) eqn:E; cbn [map In i_id].
    + apply Z.eqb_eq in E. subst rid. split; [intros [H|H]; [left; left; exact H | left; right; exact H]|].
      intros [[H|H]|H]; [left; exact H | right; exact H | left; symmetry; exact H].
    + rewrite IH. tauto.
Qed.

Lemma map_add_nodup acc m q r : NoDup (map i_id m) -> NoDup (map i_id (map_add acc m q r)).
Proof.
  destruct r as [[rid pw] h]. induction m as [|x t IH]; intros Hnd; cbn [map_add map].
  - constructor; [intros [] | constructor].
  - inversion Hnd as [|? ? Hx Ht]; subst. destruct (i_id x =? rid) eqn:E; cbn [map i_id].
    + apply Z.eqb_eq in E. subst rid. constructor; assumption.
    + constructor; [|apply IH; exact Ht]. intros Hin.
      apply (map_add_ids acc t q (rid, pw, h)) in Hin. cbn [fst] in Hin. apply Z.eqb_neq in E. destruct Hin; [tauto | congruence].
Qed.

Theorem collect_nodup acc aggs : NoDup (map i_id (collect acc aggs)).
Proof.
  unfold collect.
  assert (G : forall aggs m, NoDup (map i_id m) ->
            NoDup (map i_id (fold_left (fun m g => fold_left (fun m' r => map_add acc m' (g_query g) r) (g_reporters g) m) aggs m))).
  { induction aggs0 as [|g t IH]; intros m Hm; cbn [fold_left]; [exact Hm|]. apply IH.
    generalize (g_reporters g) m Hm. induction l as [|r l IHl]; intros m0 Hm0; cbn [fold_left]; [exact Hm0|].
    apply IHl. apply map_add_nodup. exact Hm0. }
  apply G. constructor.
Qed.

(* ---- non-negativity of every payment ------------------------------------------------------- *)
(* the amounts before the remainder adjustment *)
Definition raw_amount (acc : bool) (T R : Z) (x : rinfo) : Z :=
  let '(p, n) := weight acc x in calc_reward p n T R.

Lemma pay_loop_amounts acc T R : forall l dist,
  Forall (fun x => 0 <= raw_amount acc T R x) l ->
  forall a, In a (amounts (removelast (pay_loop acc T R dist l))) -> 0 <= a.
Proof.
  induction l as [|x t IH]; intros dist HF a; cbn [pay_loop]; [intros []|].
  inversion HF as [|? ? Hx Ht]; subst. unfold raw_amount in Hx. destruct (weight acc x) as [p n].
  destruct t as [|y t']; [intros []|].
  change (pay_loop acc T R (dist + calc_reward p n T R) (y :: t')) with (pay_loop acc T R (dist + calc_reward p n T R) (y :: t')).
  set (rest := pay_loop acc T R (dist + calc_reward p n T R) (y :: t')).
  assert (Hrest : rest <> []).
  { unfold rest. cbn [pay_loop]. destruct (weight acc y). destruct t'; discriminate. }
  destruct rest as [|r0 rest'] eqn:Er; [congruence|].
  cbn [removelast amounts map In fst snd].
  intros [<-|Hin]; [exact Hx|].
  apply (IH (dist + calc_reward p n T R) Ht a). fold rest. rewrite Er. exact Hin.
Qed.

(* ====================================================================================== *)
(* DivvyingTips                                                                             *)
(* ====================================================================================== *)
Lemma share_eq net amt total : 0 < total -> share net amt total = chop_round (Z.quot (net * amt * P) total).
Proof. intros H. unfold share. rewrite dec_mul_of_int_r, dec_quo_of_int by exact H. reflexivity. Qed.

Lemma share_nonneg net amt total : 0 <= net -> 0 <= amt -> 0 < total -> 0 <= share net amt total.
Proof.
  intros Hn Ha Ht. rewrite share_eq by exact Ht. apply chop_round_nonneg_sign.
  apply Z.quot_pos; [unfold P; nia | lia].
Qed.

(* |share*total - net*amt| <= total *)
Lemma share_err net amt total : 0 <= net -> 0 <= amt -> 0 < total ->
  Z.abs (share net amt total * total - net * amt) <= total.
Proof.
  intros Hn Ha Ht. unfold share. rewrite dec_mul_of_int_r.
  apply dec_quo_of_int_err; [nia | exact Ht].
Qed.

Lemma commission_bounds reward rate : 0 <= reward -> 0 <= rate <= P ->
  0 <= dec_mul reward rate <= reward.
Proof.
  intros Hr Hc. split; [apply dec_mul_nonneg; lia|].
  pose proof (dec_mul_err reward rate) as He.
  assert (reward * rate <= reward * P) by nia. unfold P in *. lia.
Qed.

Theorem divvy_credits_nonneg reporter rate reward origins total :
  0 <= reward -> 0 <= rate <= P -> 0 < total -> Forall (fun o => 0 <= snd o) origins ->
  Forall (fun c => 0 <= snd c) (divvy_credits true reporter rate reward origins total).
Proof.
  intros Hr Hc Ht Ho. unfold divvy_credits. cbn [negb andb].
  destruct (commission_bounds reward rate Hr Hc) as [C0 C1].
  apply Forall_app. split.
  - rewrite Forall_map. eapply Forall_impl; [|exact Ho]. intros o Hamt. cbn [snd].
    pose proof (share_nonneg (reward - dec_mul reward rate) (snd o) total ltac:(lia) Hamt Ht). lia.
  - destruct (negb (dec_mul reward rate =? 0)); [|constructor]. constructor; [cbn; lia | constructor].
Qed.

(* the shares of the origins sum to the net reward within one 10^-18 unit per origin *)
Lemma shares_sum net total : forall origins : list (Z * Z), 0 <= net -> 0 < total -> Forall (fun o => 0 <= snd o) origins ->
  Z.abs (sumz (map (fun o => share net (snd o) total) origins) * total - net * sumz (map snd origins))
  <= Z.of_nat (List.length origins) * total.
Proof.
  induction origins as [|o t IH]; intros Hn Ht HF; cbn [map sumz List.length]; [lia|].
  inversion HF as [|? ? Ho HFt]; subst. specialize (IH Hn Ht HFt).
  pose proof (share_err net (snd o) total Hn Ho Ht). lia.
Qed.

Lemma sumz_app a b : sumz (a ++ b) = sumz a + sumz b.
Proof. induction a; cbn [app sumz]; lia. Qed.

Theorem divvy_credits_sum reporter rate reward origins total :
  0 <= reward -> 0 <= rate <= P -> 0 < total -> Forall (fun o => 0 <= snd o) origins ->
  total = sumz (map snd origins) ->
  Z.abs (sumz (map snd (divvy_credits true reporter rate reward origins total)) - reward)
  <= Z.of_nat (List.length origins).
Proof.
  intros Hr Hc Ht Ho Htot. unfold divvy_credits. cbn [negb andb].
  destruct (commission_bounds reward rate Hr Hc) as [C0 C1].
  set (c := dec_mul reward rate) in *. set (net := reward - c).
  rewrite map_app, sumz_app, map_map. cbn [snd].
  assert (Hm : map (fun o => share net (snd o) total + 0) origins = map (fun o => share net (snd o) total) origins).
  { apply map_ext. intros; lia. }
  rewrite Hm.
  pose proof (shares_sum net total origins ltac:(unfold net; lia) Ht Ho) as Hs. rewrite <- Htot in Hs.
  assert (Hc2 : sumz (map snd (if negb (c =? 0) then [(reporter, c)] else [])) = c).
  { destruct (c =? 0) eqn:E; cbn; [apply Z.eqb_eq in E|]; lia. }
  rewrite Hc2.
  set (S := sumz (map (fun o => share net (snd o) total) origins)) in *.
  assert (Z.abs (S - net) * total <= Z.of_nat (List.length origins) * total).
  { replace (S * total - net * total) with ((S - net) * total) in Hs by ring.
    rewrite Z.abs_mul, (Z.abs_eq total) in Hs by lia. exact Hs. }
  assert (Z.abs (S - net) <= Z.of_nat (List.length origins)) by nia.
  unfold net in *. lia.
Qed.

(* per delegator: pro-rata share of the net reward, plus the commission exactly once for the reporter *)
Lemma credit_of_app d a b : credit_of d (a ++ b) = credit_of d a + credit_of d b.
Proof. induction a as [|x t IH]; cbn [app credit_of]; lia. Qed.

Lemma credit_of_shares d net total : forall origins : list (Z * Z), 0 <= net -> 0 < total -> Forall (fun o => 0 <= snd o) origins ->
  Z.abs (credit_of d (map (fun o => (fst o, share net (snd o) total + 0)) origins) * total
         - net * sumz (origins_of d origins))
  <= Z.of_nat (List.length (origins_of d origins)) * total.
Proof.
  unfold origins_of. induction origins as [|o t IH]; intros Hn Ht HF; cbn [map credit_of filter fst snd]; [cbn; lia|].
  inversion HF as [|? ? Ho HFt]; subst. specialize (IH Hn Ht HFt).
  destruct (fst o =? d); cbn [map sumz List.length].
  - pose proof (share_err net (snd o) total Hn Ho Ht). lia.
  - lia.
Qed.

Theorem divvy_commission_once reporter rate reward origins total d :
  0 <= reward -> 0 <= rate <= P -> 0 < total -> Forall (fun o => 0 <= snd o) origins ->
  let m := divvy_credits true reporter rate reward origins total in
  let c := dec_mul reward rate in
  Z.abs (credit_of d m * total - ((reward - c) * sumz (origins_of d origins) + (if d =? reporter then c * total else 0)))
  <= Z.of_nat (List.length (origins_of d origins)) * total.
Proof.
  intros Hr Hc Ht Ho m c. unfold m, divvy_credits. cbn [negb andb]. fold c.
  destruct (commission_bounds reward rate Hr Hc) as [C0 C1]. fold c in C0, C1.
  rewrite credit_of_app.
  pose proof (credit_of_shares d (reward - c) total origins ltac:(lia) Ht Ho) as Hs.
  assert (Hx : credit_of d (if negb (c =? 0) then [(reporter, c)] else []) = if d =? reporter then c else 0).
  { destruct (c =? 0) eqn:E; cbn [negb credit_of fst snd].
    - apply Z.eqb_eq in E. destruct (d =? reporter); lia.
    - rewrite (Z.eqb_sym reporter d). destruct (d =? reporter); lia. }
  rewrite Hx. destruct (d =? reporter); lia.
Qed.

(* the code as found: commission per token origin (F05) and any rate <= 100 (F06) *)
Theorem divvy_commission_per_origin_refuted :
  exists reporter rate reward origins total,
    0 <= rate <= P /\ total = sumz (map snd origins) /\
    sumz (map snd (divvy_credits false reporter rate reward origins total)) = reward + dec_mul reward rate.
Proof. exists 0, HALF, (1000000 * P), [(0, 600000); (0, 400000)], 1000000. vm_compute. repeat split; discriminate. Qed.

Theorem divvy_rate_range_refuted :
  exists reporter rate reward origins total,
    rate <= 100 * P /\ total = sumz (map snd origins) /\
    exists c, In c (divvy_credits true reporter rate reward origins total) /\ snd c < 0.
Proof.
  exists 0, (2 * P), (1000 * P), [(0, 1000); (1, 1000)], 2000. split; [vm_compute; discriminate|]. split; [reflexivity|].
  exists (1, -500 * P). split; [vm_compute; auto | vm_compute; reflexivity].
Qed.

Theorem allocate_first_power_refuted :
  exists aggs R a, In a (amounts (allocate_rewards false aggs R)) /\ a < 0.
Proof.
  exists [ {| g_query := 1; g_reporters := [(0, 10, 5); (1, 1, 5)] |}; {| g_query := 2; g_reporters := [(0, 1, 6)] |} ], 1200,
         (-800000000000000000400).
  split; [vm_compute; auto | reflexivity].
Qed.

Example c09_nonvacuous :
  amounts (allocate_rewards true [ {| g_query := 1; g_reporters := [(0, 10, 5); (1, 1, 5)] |};
                                   {| g_query := 2; g_reporters := [(0, 1, 6)] |} ] 1200)
    = [1100000000000000000400; 99999999999999999600] /\
  map snd (divvy_credits true 0 HALF (1000000 * P) [(0, 600000); (0, 400000); (1, 1000000)] 2000000)
    = [150000 * P; 100000 * P; 250000 * P; 500000 * P].
Proof. vm_compute. auto. Qed.

(* soundness of the executable specs *)
Lemma alloc_spec_sound aggs R pays : alloc_spec aggs R pays = [] ->
  sumz (amounts pays) = of_int R /\ Forall (fun a => 0 <= a) (amounts pays).
Proof.
  unfold alloc_spec. intros H. apply app_nil_both in H. destruct H as [H1 H]. apply app_nil_both in H. destruct H as [H2 _].
  apply spec_if_nil in H1, H2. split; [apply Z.eqb_eq; exact H1|].
  rewrite Forall_forall. rewrite forallb_forall in H2. intros a Ha. apply Z.leb_le. apply H2. exact Ha.
Qed.

Lemma divvy_spec_sound reporter rate reward origins total credits :
  divvy_spec reporter rate reward origins total credits = [] ->
  Forall (fun c => 0 <= snd c) credits /\
  Z.abs (sumz (map snd credits) - reward) <= Z.of_nat (List.length origins).
Proof.
  unfold divvy_spec. intros H. apply app_nil_both in H. destruct H as [H1 H]. apply app_nil_both in H. destruct H as [H2 _].
  apply spec_if_nil in H1, H2. split; [|apply Z.leb_le; exact H2].
  rewrite Forall_forall. rewrite forallb_forall in H1. intros c Hc. apply Z.leb_le. apply H1. exact Hc.
Qed.

(* what an empty issue list of the eligibility case says: the AllocateRewards calls of the end blocker are exactly the
   tips of the tipped rounds, each to its own reporters, followed by one payout of the whole reward pool to the reporters
   of the eligible rounds; and nobody outside the eligible rounds is among the recipients of that payout *)
Lemma list_eqb_call_sound a b : list_eqb call_eqb a b = true -> List.length a = List.length b.
Proof.
  revert b. induction a as [|x t IH]; intros [|y u]; cbn [list_eqb List.length]; intros H; try reflexivity; try discriminate.
  apply andb_prop in H. destruct H as [_ H]. f_equal. apply IH. exact H.
Qed.

Theorem elig_check_sound rounds R impl :
  c09_check (EligCase rounds R impl) = [] ->
  list_eqb call_eqb (elig_expected rounds R) impl = true /\
  (forall c, In c impl -> fst (fst c) = 2 ->
     snd (fst c) = R /\
     forall id a q h, In (id, a, q, h) (snd c) -> In id (reporters_of_rounds (filter (fun r => fst (fst r)) rounds))).
Proof.
  cbn [c09_check]. intros H.
  apply app_nil_both in H. destruct H as [H1 H]. apply app_nil_both in H. destruct H as [_ H].
  apply app_nil_both in H. destruct H as [H3 H]. apply app_nil_both in H. destruct H as [_ H].
  apply diff_if_nil in H. apply spec_if_nil in H1, H3. split; [exact H|].
  intros c Hc E2. rewrite forallb_forall in H1, H3.
  assert (Hf : In c (filter (fun c0 => fst (fst c0) =? 2) impl)).
  { apply filter_In. split; [exact Hc|]. rewrite E2. reflexivity. }
  split.
  - apply Z.eqb_eq. apply H3. exact Hf.
  - intros id a q h Hin. specialize (H1 c Hf). rewrite forallb_forall in H1. specialize (H1 _ Hin). cbn in H1.
    apply existsb_exists in H1. destruct H1 as (x & Hx & Ex). apply Z.eqb_eq in Ex. subst x. exact Hx.
Qed.
