From Coq Require Import ZArith List Bool Lia.
From Verif Require Import Base.Dec Model.Escrow.
Import ListNotations.
Open Scope Z_scope.

(* ---- association-list arithmetic ---------------------------------------------------------- *)
Lemma owed_sum_set q v l : owed_sum (owed_set q v l) = owed_sum l - owed_get q l + v.
Proof.
  induction l as [|x t IH]; cbn [owed_set owed_sum owed_get snd]; [lia|].
  destruct (fst x =? q); cbn [owed_sum snd]; lia.
Qed.

Lemma owed_sum_remove q l : owed_sum (owed_remove q l) = owed_sum l - owed_get q l.
Proof.
  induction l as [|x t IH]; cbn [owed_remove owed_sum owed_get]; [lia|].
  destruct (fst x =? q); cbn [owed_sum]; lia.
Qed.

Lemma sum_snd_owed l : sum_snd l = owed_sum l.
Proof. induction l as [|x t IH]; cbn; lia. Qed.

Lemma sum_snd_credit_add s v l : sum_snd (credit_add s v l) = sum_snd l + v.
Proof.
  induction l as [|x t IH]; cbn [credit_add sum_snd snd]; [lia|].
  destruct (fst x =? s); cbn [sum_snd snd]; lia.
Qed.

Lemma sum_snd_credits_add cs : forall l, sum_snd (credits_add cs l) = sum_snd l + sum_snd cs.
Proof.
  unfold credits_add. induction cs as [|c t IH]; intros l; cbn [fold_left sum_snd]; [lia|].
  rewrite IH, sum_snd_credit_add. lia.
Qed.

Lemma floor_sum_le l : Forall (fun c => 0 <= snd c) l -> floor_sum l * P <= sum_snd l.
Proof.
  induction 1 as [|x t Hx _ IH]; cbn [floor_sum sum_snd]; [lia|].
  pose proof (Z.mul_div_le (snd x) P P_pos). lia.
Qed.

Lemma credit_add_nonneg s v l : 0 <= v -> Forall (fun c => 0 <= snd c) l -> Forall (fun c => 0 <= snd c) (credit_add s v l).
Proof.
  intros Hv. induction 1 as [|x t Hx Ht IH]; cbn [credit_add].
  - constructor; [cbn; lia | constructor].
  - destruct (fst x =? s); constructor; cbn [snd]; auto; lia.
Qed.

Lemma credits_add_nonneg cs : forall l, Forall (fun c => 0 <= snd c) cs -> Forall (fun c => 0 <= snd c) l ->
  Forall (fun c => 0 <= snd c) (credits_add cs l).
Proof.
  unfold credits_add. induction cs as [|c t IH]; intros l Hcs Hl; cbn [fold_left]; [exact Hl|].
  inversion Hcs; subst. apply IH; [assumption|]. apply credit_add_nonneg; assumption.
Qed.

Lemma owed_set_nonneg q v l : 0 <= v -> Forall (fun c => 0 <= snd c) l -> Forall (fun c => 0 <= snd c) (owed_set q v l).
Proof.
  intros Hv. induction 1 as [|x t Hx Ht IH]; cbn [owed_set].
  - constructor; [cbn; lia | constructor].
  - destruct (fst x =? q); constructor; cbn [snd]; auto.
Qed.

Lemma owed_get_nonneg q l : Forall (fun c => 0 <= snd c) l -> 0 <= owed_get q l.
Proof. induction 1 as [|x t Hx _ IH]; cbn [owed_get]; [lia|]. destruct (fst x =? q); assumption. Qed.

Lemma owed_remove_nonneg q l : Forall (fun c => 0 <= snd c) l -> Forall (fun c => 0 <= snd c) (owed_remove q l).
Proof. induction 1 as [|x t Hx Ht IH]; cbn [owed_remove]; [constructor|]. destruct (fst x =? q); [assumption | constructor; assumption]. Qed.

(* ---- the escrow invariant ---------------------------------------------------------------------- *)
Definition einv (s : estate) : Prop :=
  e_oracle s = owed_sum (e_owed s) /\                                   (* oracle account = unpaid tips *)
  sum_snd (e_credits s) <= e_tips s * P + e_credit_ops s /\              (* tips pool covers the credits ... *)
  e_tips s * P - e_credit_ops s <= sum_snd (e_credits s) /\              (* ... and nothing more: credits <= paid in *)
  Forall (fun c => 0 <= snd c) (e_credits s) /\
  Forall (fun c => 0 <= snd c) (e_owed s) /\
  0 <= e_credit_ops s /\ 0 <= e_tbr s /\
  e_supply s = e_users s + e_oracle s + e_tips s + e_tbr s + e_feecoll s + e_bonded s.   (* sum of balances = supply *)

Lemma einv_init u : einv (einit u).
Proof. unfold einv, einit; cbn. repeat split; try lia; constructor. Qed.

Lemma payout_ok_spec m cs : payout_ok m cs = true ->
  Forall (fun c => 0 <= snd c) cs /\ Z.abs (sum_snd cs - m * P) <= Z.of_nat (length cs).
Proof.
  unfold payout_ok. intros H. apply andb_prop in H. destruct H as [H1 H2]. split.
  - rewrite Forall_forall. rewrite forallb_forall in H1. intros c Hc. apply Z.leb_le. apply H1. exact Hc.
  - apply Z.leb_le. exact H2.
Qed.

Theorem estep_inv s o s' : einv s -> estep s o = Some s' -> einv s'.
Proof.
  intros (I1 & I2 & I3 & I4 & I5 & I6 & I7 & I8) H. destruct o as [q a | q cs | cs | sel | p]; cbn [estep] in H.
  - destruct ((0 <? a) && (a <=? e_users s)) eqn:E; [|discriminate]. injection H as <-.
    apply andb_prop in E. destruct E as [E1 E2]. apply Z.ltb_lt in E1. apply Z.leb_le in E2.
    assert (Hb : 0 <= Z.quot (a * 2) 100 <= a).
    { split; [apply Z.quot_pos; lia|]. apply Z.quot_le_upper_bound; lia. }
    pose proof (owed_get_nonneg q (e_owed s) I5).
    unfold einv; cbn. rewrite owed_sum_set. repeat split; try assumption; try lia.
    apply owed_set_nonneg; [lia | assumption].
  - destruct ((0 <? owed_get q (e_owed s)) && payout_ok (owed_get q (e_owed s)) cs) eqn:E; [|discriminate]. injection H as <-.
    apply andb_prop in E. destruct E as [E1 E2]. apply Z.ltb_lt in E1.
    destruct (payout_ok_spec _ _ E2) as [Hc Hs].
    unfold einv; cbn. rewrite owed_sum_remove, sum_snd_credits_add. repeat split; try lia.
    + apply credits_add_nonneg; assumption.
    + apply owed_remove_nonneg; assumption.
  - destruct ((0 <? e_tbr s) && payout_ok (e_tbr s) cs) eqn:E; [|discriminate]. injection H as <-.
    apply andb_prop in E. destruct E as [E1 E2]. apply Z.ltb_lt in E1.
    destruct (payout_ok_spec _ _ E2) as [Hc Hs].
    unfold einv; cbn. rewrite sum_snd_credits_add. repeat split; try lia; try assumption.
    apply credits_add_nonneg; assumption.
  - destruct (0 <? owed_get sel (e_credits s) / P) eqn:E; [|discriminate]. injection H as <-. apply Z.ltb_lt in E.
    pose proof (owed_get_nonneg sel (e_credits s) I4) as Hg.
    pose proof (Z.mul_div_le (owed_get sel (e_credits s)) P P_pos) as Hm.
    unfold einv; cbn. rewrite (sum_snd_owed (owed_set _ _ _)), owed_sum_set.
    rewrite (sum_snd_owed (e_credits s)) in I2, I3.
    repeat split; try lia; try assumption.
    apply owed_set_nonneg; [lia | assumption].
  - destruct (0 <=? p) eqn:E; [|discriminate]. injection H as <-. apply Z.leb_le in E.
    assert (Hq : 0 <= Z.quot p 4 <= p).
    { split; [apply Z.quot_pos; lia|]. apply Z.quot_le_upper_bound; lia. }
    unfold einv; cbn. repeat split; try lia; try assumption.
Qed.

Theorem estep_total_inv s o : einv s -> einv (estep_total s o).
Proof. intros H. unfold estep_total. destruct (estep s o) eqn:E; [eapply estep_inv; eassumption | exact H]. Qed.

Theorem erun_inv ops : forall s, einv s -> einv (fold_left estep_total ops s).
Proof. induction ops as [|o t IH]; intros s H; cbn [fold_left]; [exact H|]. apply IH, estep_total_inv, H. Qed.

(* what the invariant gives the user: whole-unit credits are covered, so an entitled withdrawal
   never fails for lack of funds (as long as fewer than 10^18 credit entries were ever written) *)
Theorem tips_pool_covers_withdrawals s : einv s -> e_credit_ops s < P -> floor_sum (e_credits s) <= e_tips s.
Proof.
  intros (_ & I2 & _ & I4 & _) Hk. pose proof (floor_sum_le _ I4) as Hf.
  assert (floor_sum (e_credits s) * P < (e_tips s + 1) * P) by lia.
  pose proof P_pos. nia.
Qed.

Lemma owed_get_le_floor sel l : Forall (fun c => 0 <= snd c) l -> owed_get sel l / P <= floor_sum l.
Proof.
  induction 1 as [|x t Hx Ht IH]; cbn [owed_get floor_sum]; [cbn; lia|].
  assert (0 <= floor_sum t). { clear - Ht. induction Ht as [|y u Hy _ IHu]; cbn [floor_sum]; [lia|]. pose proof (Z.div_pos (snd y) P Hy P_pos). lia. }
  pose proof (Z.div_pos (snd x) P Hx P_pos). destruct (fst x =? sel); lia.
Qed.

Theorem withdraw_never_insufficient s sel : einv s -> e_credit_ops s < P ->
  owed_get sel (e_credits s) / P <= e_tips s.
Proof.
  intros H Hk. pose proof (tips_pool_covers_withdrawals s H Hk). destruct H as (_ & _ & _ & I4 & _).
  pose proof (owed_get_le_floor sel _ I4). lia.
Qed.

(* C03 frame: supply moves only by the tip burn and the block provision *)
Theorem supply_frame s o : e_supply (estep_total s o) = e_supply s + supply_delta s o.
Proof.
  unfold estep_total, supply_delta. destruct (estep s o) as [s'|] eqn:E; [|destruct o; lia].
  destruct o as [q a | q cs | cs | sel | p]; cbn [estep] in E.
  - destruct ((0 <? a) && (a <=? e_users s)); [|discriminate]. injection E as <-. cbn. lia.
  - destruct ((0 <? owed_get q (e_owed s)) && payout_ok (owed_get q (e_owed s)) cs); [|discriminate]. injection E as <-. cbn. lia.
  - destruct ((0 <? e_tbr s) && payout_ok (e_tbr s) cs); [|discriminate]. injection E as <-. cbn. lia.
  - destruct (0 <? owed_get sel (e_credits s) / P); [|discriminate]. injection E as <-. cbn. lia.
  - destruct (0 <=? p); [|discriminate]. injection E as <-. cbn. lia.
Qed.

(* time based rewards use up exactly the pool's balance *)
Theorem tbr_pays_whole_pool s cs s' : estep s (EPayTbr cs) = Some s' -> e_tbr s' = 0 /\ e_tips s' = e_tips s + e_tbr s.
Proof.
  cbn [estep]. destruct ((0 <? e_tbr s) && payout_ok (e_tbr s) cs); [|discriminate]. intros H. injection H as <-. cbn. auto.
Qed.

(* a tip on a query that received no report stays with the query until it is paid *)
Theorem tip_stays_until_paid s q a s' : estep s (ETip q a) = Some s' ->
  owed_get q (e_owed s') = owed_get q (e_owed s) + (a - Z.quot (a * 2) 100).
Proof.
  cbn [estep]. destruct ((0 <? a) && (a <=? e_users s)); [|discriminate]. intros H. injection H as <-. cbn [e_owed].
  generalize (owed_get q (e_owed s) + (a - Z.quot (a * 2) 100)). intros v.
  induction (e_owed s) as [|x t IH]; cbn [owed_set owed_get fst]; [rewrite Z.eqb_refl; reflexivity|].
  destruct (fst x =? q) eqn:E; cbn [owed_get fst]; [rewrite Z.eqb_refl; reflexivity | rewrite E; exact IH].
Qed.

Example escrow_nonvacuous :
  exists s, fold_left estep_total
     [ETip 1 1000; ETip 2 51; EMint 1000; EPayTip 1 [(7, 490 * P - 1); (8, 490 * P)]; EPayTbr [(7, 750 * P)]; EWithdrawTip 7]
     (einit 5000) = s /\ e_tips s = 491 /\ e_oracle s = 50 /\ e_supply s = 5979 /\ e_bonded s = 1239.
Proof. eexists. split; [reflexivity|]. vm_compute. auto. Qed.

(* ---- staking pools --------------------------------------------------------------------------- *)
Definition pinv (s : pstate) : Prop :=
  p_bonded_ledger s <= p_bonded s /\ p_notbonded_ledger s <= p_notbonded s /\
  0 <= p_bonded_ledger s /\ 0 <= p_notbonded_ledger s /\ 0 <= p_dispute s.

Theorem pstep_inv s o s' : pinv s -> pstep s o = Some s' -> pinv s'.
Proof.
  intros (I1 & I2 & I3 & I4 & I5) H. unfold pinv.
  destruct o as [a|a|a|t|t|a|a|amount dust tb]; cbn [pstep] in H;
    repeat match type of H with
           | (if ?c then _ else _) = _ => let E := fresh "E" in destruct c eqn:E; [|try discriminate]
           end;
    try (injection H as <-);
    repeat match goal with
           | E : (_ && _) = true |- _ => apply andb_prop in E; destruct E
           | E : (_ <=? _) = true |- _ => apply Z.leb_le in E
           end; cbn; lia.
Qed.

Definition pstep_total_inv s o : pinv s -> pinv (pstep_total s o).
Proof. intros H. unfold pstep_total. destruct (pstep s o) eqn:E; [eapply pstep_inv; eassumption | exact H]. Qed.

Theorem prun_inv ops : forall s, pinv s -> pinv (fold_left pstep_total ops s).
Proof. induction ops as [|o t IH]; intros s H; cbn [fold_left]; [exact H|]. apply IH, pstep_total_inv, H. Qed.

(* stake taken leaves ledger and pool by the same amount; stake put back enters both by the same
   amount except the dust (at most one smallest unit per returned entry) that stays in the pool *)
Theorem escrow_moves_equal s a s' : pstep s (PEscrowBonded a) = Some s' ->
  p_bonded s - p_bonded s' = a /\ p_bonded_ledger s - p_bonded_ledger s' = a /\ p_dispute s' - p_dispute s = a.
Proof.
  cbn [pstep]. destruct ((0 <=? a) && (a <=? p_bonded_ledger s)); [|discriminate]. intros H. injection H as <-. cbn. lia.
Qed.

Theorem return_moves_equal_up_to_dust s amount dust tb s' : pstep s (PReturn amount dust tb) = Some s' ->
  (p_bonded s' + p_notbonded s') - (p_bonded s + p_notbonded s) = amount /\
  (p_bonded_ledger s' + p_notbonded_ledger s') - (p_bonded_ledger s + p_notbonded_ledger s) = amount - dust /\
  (p_bonded s' - p_bonded_ledger s') - (p_bonded s - p_bonded_ledger s) = dust.
Proof.
  cbn [pstep]. destruct ((0 <=? dust) && (dust <=? amount) && (amount <=? p_dispute s)); [|discriminate].
  destruct tb; intros H; injection H as <-; cbn; lia.
Qed.

(* the code as found broke the not-bonded pool's backing: finding F11 *)
Theorem return_as_found_refuted :
  exists s amount, pinv s /\ 0 < amount <= p_dispute s /\ ~ pinv (pstep_return_as_found s amount).
Proof.
  exists {| p_bonded := 100; p_bonded_ledger := 100; p_notbonded := 50; p_notbonded_ledger := 50; p_dispute := 10 |}, 10.
  unfold pinv, pstep_return_as_found. cbn. split; [lia|]. split; [lia|]. lia.
Qed.

(* ---- the slack of the pools over the ledger (C05) ------------------------------------------------------- *)
Definition pslack (s : pstate) : Z := (p_bonded s - p_bonded_ledger s) + (p_notbonded s - p_notbonded_ledger s).

(* every operation keeps the slack, except a return, which adds exactly its dust; coins only move between
   the pools, the users and the dispute escrow *)
Theorem pstep_slack s o s' : pstep s o = Some s' ->
  pslack s' = pslack s + match o with PReturn _ dust _ => dust | _ => 0 end /\
  0 <= match o with PReturn _ dust _ => dust | _ => 0 end.
Proof.
  unfold pslack. intros H.
  destruct o as [a|a|a|t|t|a|a|amount dust tb]; cbn [pstep] in H;
    repeat match type of H with
           | (if ?c then _ else _) = _ => destruct c eqn:?; [|discriminate]
           end;
    try (injection H as <-; cbn; lia).
  match goal with E : (_ && _ && _) = true |- _ => apply andb_prop in E; destruct E as [E _]; apply andb_prop in E; destruct E as [E _]; apply Z.leb_le in E end.
  destruct tb; injection H as <-; cbn; lia.
Qed.

Theorem prun_slack_monotone ops : forall s, pslack s <= pslack (fold_left pstep_total ops s).
Proof.
  induction ops as [|o t IH]; intros s; cbn [fold_left]; [lia|].
  etransitivity; [|apply IH]. unfold pstep_total. destruct (pstep s o) eqn:E; [|lia].
  destruct (pstep_slack _ _ _ E) as [H1 H2]. lia.
Qed.

