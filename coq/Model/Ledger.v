(* History cases: what the all-messages history driver (harness/hist_test.go) projects from the
   real application after every operation, and the executable specifications the properties
   C02, C03, C04, C05 and C19 state over such histories.

   A history = initial snapshot + list of steps; a step = (operation name, signer id,
   result 0 ok / 1 rejected / 2 block processing failed, numeric parameters, snapshot after,
   decreases of holdings (account, component, role)). *)
From Coq Require Import ZArith List Bool String.
From Verif Require Import Base.Harness Base.Dec.
Import ListNotations.
Open Scope Z_scope.

Inductive snap :=
| Snap (supply balsum
        oracle oracle_owed
        tips tips_floor tips_scaled tips_entries
        dispute bridge tbr feecoll
        bonded bonded_ledger notbonded notbonded_ledger : Z)
       (shares_pos tokens_nonneg credits_nonneg records_sum : bool).

Definition sp_supply s := let 'Snap x _ _ _ _ _ _ _ _ _ _ _ _ _ _ _ _ _ _ _ := s in x.
Definition sp_balsum s := let 'Snap _ x _ _ _ _ _ _ _ _ _ _ _ _ _ _ _ _ _ _ := s in x.
Definition sp_oracle s := let 'Snap _ _ x _ _ _ _ _ _ _ _ _ _ _ _ _ _ _ _ _ := s in x.
Definition sp_oracle_owed s := let 'Snap _ _ _ x _ _ _ _ _ _ _ _ _ _ _ _ _ _ _ _ := s in x.
Definition sp_tips s := let 'Snap _ _ _ _ x _ _ _ _ _ _ _ _ _ _ _ _ _ _ _ := s in x.
Definition sp_tips_floor s := let 'Snap _ _ _ _ _ x _ _ _ _ _ _ _ _ _ _ _ _ _ _ := s in x.
Definition sp_tips_scaled s := let 'Snap _ _ _ _ _ _ x _ _ _ _ _ _ _ _ _ _ _ _ _ := s in x.
Definition sp_tips_entries s := let 'Snap _ _ _ _ _ _ _ x _ _ _ _ _ _ _ _ _ _ _ _ := s in x.
Definition sp_dispute s := let 'Snap _ _ _ _ _ _ _ _ x _ _ _ _ _ _ _ _ _ _ _ := s in x.
Definition sp_bridge s := let 'Snap _ _ _ _ _ _ _ _ _ x _ _ _ _ _ _ _ _ _ _ := s in x.
Definition sp_tbr s := let 'Snap _ _ _ _ _ _ _ _ _ _ x _ _ _ _ _ _ _ _ _ := s in x.
Definition sp_feecoll s := let 'Snap _ _ _ _ _ _ _ _ _ _ _ x _ _ _ _ _ _ _ _ := s in x.
Definition sp_bonded s := let 'Snap _ _ _ _ _ _ _ _ _ _ _ _ x _ _ _ _ _ _ _ := s in x.
Definition sp_bonded_ledger s := let 'Snap _ _ _ _ _ _ _ _ _ _ _ _ _ x _ _ _ _ _ _ := s in x.
Definition sp_notbonded s := let 'Snap _ _ _ _ _ _ _ _ _ _ _ _ _ _ x _ _ _ _ _ := s in x.
Definition sp_notbonded_ledger s := let 'Snap _ _ _ _ _ _ _ _ _ _ _ _ _ _ _ x _ _ _ _ := s in x.
Definition sp_shares_pos s := let 'Snap _ _ _ _ _ _ _ _ _ _ _ _ _ _ _ _ x _ _ _ := s in x.
Definition sp_tokens_nonneg s := let 'Snap _ _ _ _ _ _ _ _ _ _ _ _ _ _ _ _ _ x _ _ := s in x.
Definition sp_credits_nonneg s := let 'Snap _ _ _ _ _ _ _ _ _ _ _ _ _ _ _ _ _ _ x _ := s in x.
Definition sp_records_sum s := let 'Snap _ _ _ _ _ _ _ _ _ _ _ _ _ _ _ _ _ _ _ x := s in x.

Inductive hstep :=
| Step (op : string) (signer result : Z) (params : list Z) (after : snap) (decreased : list (Z * string * string)).

Definition st_op s := let 'Step x _ _ _ _ _ := s in x.
Definition st_signer s := let 'Step _ x _ _ _ _ := s in x.
Definition st_result s := let 'Step _ _ x _ _ _ := s in x.
Definition st_params s := let 'Step _ _ _ x _ _ := s in x.
Definition st_after s := let 'Step _ _ _ _ x _ := s in x.
Definition st_decreased s := let 'Step _ _ _ _ _ x := s in x.

Inductive hist_case := Hist (init : snap) (steps : list hstep).

(* fold over consecutive (before, step) pairs *)
Fixpoint walk {A} (f : snap -> hstep -> list A) (before : snap) (steps : list hstep) : list A :=
  match steps with
  | [] => []
  | s :: t => f before s ++ walk f (st_after s) t
  end.

(* ---- C02: block processing never fails ---------------------------------------------------- *)
Definition c02_step (_ : snap) (s : hstep) : issues :=
  spec_if (negb (st_result s =? 2)) ("block processing failed in " ++ st_op s).

Definition c02_hist_check (c : hist_case) : issues :=
  let 'Hist init steps := c in walk c02_step init steps.

(* ---- C03: supply changes only by the documented events ------------------------------------- *)
(* mint: provision for a gap, int64 arithmetic (Go: DailyMintRate * ms / MillisecondsInDay) *)
Definition wrap_s64 (x : Z) : Z := (x + 2^63) mod 2^64 - 2^63.
Definition provision (prev_ns now_ns : Z) : Z :=
  let ms := Z.quot (now_ns - prev_ns) 1000000 in
  Z.quot (wrap_s64 (146940000 * ms)) 86400000.

(* the supply delta the documented events allow for one step; None = not pinned by this model
   (dispute execution inside BeginBlock burns; those are bounded separately) *)
Definition expected_supply_delta (s : hstep) : option Z :=
  if negb (st_result s =? 0) && negb (st_op s =? "BeginBlock")%string && negb (st_op s =? "EndBlock")%string
  then Some 0                                            (* rejected transaction: atomic *)
  else if (st_op s =? "Tip")%string then
         match st_params s with [a] => Some (- Z.quot (a * 2) 100) | _ => None end
  else if (st_op s =? "WithdrawTokens")%string then
         match st_params s with [a] => Some (- a) | _ => None end
  else if (st_op s =? "BeginBlock")%string then None     (* mint provision minus dispute burns: see below *)
  else if (st_op s =? "ClaimDeposits")%string then
         (* the driver passes the sum of the reported amounts (already divided by 10^12) of the claimed deposits *)
         match st_params s with [a] => Some a | _ => None end
  else if (st_op s =? "WithdrawFeeRefund")%string then None   (* may burn accumulated dust *)
  else if (st_op s =? "ValidatorSlash")%string then None      (* SDK-internal burn: out of scope *)
  else Some 0.

Definition begin_block_mint (s : hstep) : Z :=
  match st_params s with
  | ini :: prev :: now :: _ => if (ini =? 1) && negb (prev =? -1) then provision prev now else 0
  | _ => 0
  end.

(* the disputes a begin blocker executed, as the driver reads them from the store afterwards:
   (dispute id, BurnAmount of the record, flags: bit 0 = no voting power was cast in any round,
   bit 1 = a later round of the same dispute exists) *)
Fixpoint executed_facts (l : list Z) : list (Z * Z * Z) :=
  match l with
  | id :: b :: f :: t => (id, b, f) :: executed_facts t
  | _ => []
  end.
Definition begin_block_executed (s : hstep) : list (Z * Z * Z) :=
  if (st_op s =? "BeginBlock")%string && (st_result s =? 0)
  then match st_params s with _ :: _ :: _ :: t => executed_facts t | _ => [] end
  else [].
(* the documented dispute burn: half of the burn amount (rounded down), all of it when nobody voted *)
Definition dispute_burn (e : Z * Z * Z) : Z :=
  let '(_, b, f) := e in if Z.testbit f 0 then b else Z.quot b 2.
Definition zsum (l : list Z) : Z := fold_right Z.add 0 l.

Definition c03_step (before : snap) (s : hstep) : issues :=
  let delta := sp_supply (st_after s) - sp_supply before in
  spec_if (sp_balsum (st_after s) =? sp_supply (st_after s)) "sum of all balances differs from the recorded supply"
  ++ match expected_supply_delta s with
     | Some d => spec_if (delta =? d) ("supply changed by an undocumented amount in " ++ st_op s)
     | None =>
         if (st_op s =? "BeginBlock")%string
         then (* minted exactly the provision; burns (dispute execution) only lower the supply *)
              spec_if (delta <=? begin_block_mint s) "BeginBlock raised the supply by more than the block provision"
              ++ (if st_result s =? 0
                  then spec_if (delta =? begin_block_mint s - zsum (map dispute_burn (begin_block_executed s)))
                               "BeginBlock changed the supply by something other than the block provision minus the burns of the disputes it executed"
                       ++ spec_if (forallb (fun e => negb (Z.testbit (snd e) 1)) (begin_block_executed s))
                                  "a superseded dispute round was executed (its burn is not a documented event)"
                  else [])
              ++ spec_if ((sp_tbr (st_after s) - sp_tbr before =? begin_block_mint s - Z.quot (begin_block_mint s) 4)
                          && (sp_feecoll (st_after s) - sp_feecoll before =? Z.quot (begin_block_mint s) 4))
                         "block provision not split 3/4 to time_based_rewards and 1/4 to the fee collector"
         else if (st_op s =? "WithdrawFeeRefund")%string then spec_if (delta <=? 0) "fee refund raised the supply"
         else []
     end.

Fixpoint nodupZ (l : list Z) : bool :=
  match l with
  | [] => true
  | x :: t => negb (existsb (Z.eqb x) t) && nodupZ t
  end.
Definition executed_ids (steps : list hstep) : list Z :=
  flat_map (fun s => map (fun e => fst (fst e)) (begin_block_executed s)) steps.

Definition c03_hist_check (c : hist_case) : issues :=
  let 'Hist init steps := c in
  spec_if (sp_balsum init =? sp_supply init) "sum of all balances differs from the recorded supply (initial state)"
  ++ walk c03_step init steps
  ++ spec_if (nodupZ (executed_ids steps)) "a dispute was executed, and its burn taken, twice".

(* ---- C04: escrow accounts cover what the chain owes (at block boundaries) -------------------- *)
Definition c04_boundary (s : snap) : issues :=
  spec_if (sp_oracle s =? sp_oracle_owed s) "oracle account differs from the sum of unpaid tips on open queries"
  ++ spec_if (sp_tips_floor s <=? sp_tips s) "tips escrow pool holds less than the whole-unit credits of the selectors"
  (* credits are written with 18 decimals and one rounding per credit entry: the pool may fall short of
     them by sub-unit dust only (10^-12 of a smallest unit allows 10^6 roundings) *)
  ++ spec_if (sp_tips_scaled s - sp_tips s * P <=? 1000000) "tips escrow pool holds less than the credited rewards"
  ++ spec_if (sp_bridge s =? 0) "bridge account holds tokens at a block boundary".

(* result 3 = a WithdrawTip, ClaimReward or WithdrawFeeRefund was refused with "insufficient funds": the
   ledger granted the amount (otherwise the message fails earlier) and the escrow account could not pay it *)
Definition c04_step (before : snap) (s : hstep) : issues :=
  (if (st_op s =? "EndBlock")%string && (st_result s =? 0) then c04_boundary (st_after s) else [])
  ++ spec_if (negb (st_result s =? 3)) ("a withdrawal or claim the ledger entitles to failed for lack of funds in its escrow account: " ++ st_op s)
  (* a tip moves amount - 2 % into the oracle account and books it on the query *)
  ++ (if (st_op s =? "Tip")%string && (st_result s =? 0) then
        match st_params s with
        | [a] => spec_if ((sp_oracle (st_after s) - sp_oracle before =? a - Z.quot (a * 2) 100)
                          && (sp_oracle_owed (st_after s) - sp_oracle_owed before =? a - Z.quot (a * 2) 100))
                         "a tip did not add amount minus the 2 % burn to the oracle account and to the query's unpaid tip"
        | _ => []
        end
      else [])
  (* the end blocker only moves coins oracle -> tips pool and reward pool -> tips pool *)
  ++ (if (st_op s =? "EndBlock")%string && (st_result s =? 0) then
        spec_if ((sp_oracle (st_after s) + sp_tips (st_after s) + sp_tbr (st_after s) =? sp_oracle before + sp_tips before + sp_tbr before)
                 && (sp_oracle (st_after s) <=? sp_oracle before) && (sp_tbr (st_after s) <=? sp_tbr before))
                "the end blocker did not move exactly the paid tips and the time based rewards into the tips escrow pool"
      else [])
  (* a deposit claim mints into the bridge account and pays all of it out in the same message *)
  ++ (if (st_op s =? "ClaimDeposits")%string
      then spec_if (sp_bridge (st_after s) =? sp_bridge before) "a deposit claim left part of the minted deposit in the bridge account"
      else [])
  (* a tip withdrawal moves whole units from the tips pool into the staking pools *)
  ++ (if (st_op s =? "WithdrawTip")%string && (st_result s =? 0) then
        spec_if ((sp_tips before - sp_tips (st_after s) =?
                  (sp_bonded (st_after s) + sp_notbonded (st_after s)) - (sp_bonded before + sp_notbonded before))
                 && (sp_tips (st_after s) <? sp_tips before))
                "a tip withdrawal did not move the withdrawn amount from the tips escrow pool into the staking pools"
      else []).

(* the successful voter-reward claims of a history as (account, dispute id) *)
Definition reward_claims (steps : list hstep) : list (Z * Z) :=
  flat_map (fun s => if (st_op s =? "ClaimReward")%string && (st_result s =? 0)
                     then match st_params s with id :: _ => [(st_signer s, id)] | _ => [] end else []) steps.

(* what the successful voter-reward claims of a history took out of the dispute account, per claim:
   (dispute id, the pot VoterReward of that dispute's record, amount paid) *)
Fixpoint reward_payments (before : snap) (steps : list hstep) : list (Z * Z * Z) :=
  match steps with
  | [] => []
  | s :: t =>
      (if (st_op s =? "ClaimReward")%string && (st_result s =? 0)
       then match st_params s with
            | [id; pot] => [(id, pot, sp_dispute before - sp_dispute (st_after s))]
            | _ => []
            end
       else []) ++ reward_payments (st_after s) t
  end.
Definition paid_for (id : Z) (l : list (Z * Z * Z)) : Z :=
  zsum (map (fun e => if fst (fst e) =? id then snd e else 0) l).
Definition pots_respected (l : list (Z * Z * Z)) : bool :=
  forallb (fun e => paid_for (fst (fst e)) l <=? snd (fst e)) l.
Fixpoint nodup_pairs (l : list (Z * Z)) : bool :=
  match l with
  | [] => true
  | x :: t => negb (existsb (fun y => (fst x =? fst y) && (snd x =? snd y)) t) && nodup_pairs t
  end.

Definition c04_hist_check (c : hist_case) : issues :=
  let 'Hist init steps := c in
  walk c04_step init steps
  ++ spec_if (pots_respected (reward_payments init steps))
             "the voter rewards paid for a dispute exceed the pot its execution set aside (paid from other disputes' escrow)"
  ++ spec_if (nodup_pairs (reward_claims steps))
             "the dispute account paid the voter reward of one dispute twice to the same account (credits exceed what was paid in)".

(* ---- C09 on histories: time based rewards are used up whenever an eligible aggregate is made ------------ *)
(* EndBlock carries [number of bridge-deposit aggregates made in the block; number of all aggregates made] *)
Definition c09_hist_step (before : snap) (s : hstep) : issues :=
  if (st_op s =? "EndBlock")%string && (st_result s =? 0) then
    match st_params s with
    | [n_deposit; n_all] =>
        spec_if ((n_deposit =? 0) || (sp_tbr (st_after s) =? 0))
                "a bridge-deposit aggregate was made but the time based rewards pool was not paid out in that block"
        ++ spec_if ((0 <? n_all) || (sp_tbr (st_after s) =? sp_tbr before))
                   "time based rewards left the reward pool in a block that made no aggregate"
    | _ => []
    end
  else [].

Definition c09_hist_check (c : hist_case) : issues :=
  let 'Hist init steps := c in walk c09_hist_step init steps.

(* ---- C05: staking pools back the staking ledger (after every operation) ---------------------- *)
Definition c05_inv (s : snap) : issues :=
  spec_if (sp_bonded_ledger s <=? sp_bonded s) "bonded pool holds less than the bonded validators' tokens"
  ++ spec_if (sp_notbonded_ledger s <=? sp_notbonded s) "not-bonded pool holds less than unbonding entries and not-bonded validators' tokens"
  ++ spec_if (sp_shares_pos s) "a delegation without positive shares exists"
  ++ spec_if (sp_tokens_nonneg s) "a validator has negative tokens"
  ++ spec_if (sp_records_sum s) "the per-backer record of stake taken for a dispute fee does not sum to the recorded total".

(* what the pools hold beyond the ledger *)
Definition pool_slack (s : snap) : Z := (sp_bonded s - sp_bonded_ledger s) + (sp_notbonded s - sp_notbonded_ledger s).

(* stake taken leaves ledger and pools by the same amount; stake put back enters both by the same
   amount except for at most one smallest unit per returned entry, which stays in the pool *)
Definition c05_step (before : snap) (s : hstep) : issues :=
  c05_inv (st_after s)
  ++ spec_if (pool_slack before <=? pool_slack (st_after s))
             ("the staking ledger grew by more than the pools, or the pools lost more than the ledger, in " ++ st_op s)
  ++ spec_if (pool_slack (st_after s) - pool_slack before <=? 64)
             ("the pools received more than the ledger records (beyond one unit per returned entry) in " ++ st_op s).

Definition c05_hist_check (c : hist_case) : issues :=
  let 'Hist init steps := c in c05_inv init ++ walk c05_step init steps.

(* ---- C19: only the signer's assets go down, with the three stated exceptions ------------------- *)
Definition str_in (s : string) (l : list string) : bool := existsb (String.eqb s) l.

Definition privileged_ops : list string :=
  ["Priv:oracle.UpdateParams"; "Priv:UpdateCyclelist"; "Priv:UpdateDataSpec"; "Priv:reporter.UpdateParams";
   "Priv:mint.Init"; "Priv:UpdateSnapshotLimit"]%string.

(* which (operation, role, component) combinations the property allows for a non-signer *)
(* dispute messages carry [fee paid from stake?; is the dispute fully funded after the message?; what the message added
   to the dispute's fee total; the stake the same message escrowed (the slash amount when it completed the fee)] *)
Definition funded_after (params : list Z) : bool := match params with _ :: 1 :: _ => true | _ => false end.
Definition from_stake (params : list Z) : bool := match params with 1 :: _ => true | _ => false end.

Definition exception_ok (op : string) (params : list Z) (role comp : string) : bool :=
  (* a funded dispute's consequences for the disputed reporter and its backers *)
  ((str_in op ["ProposeDispute"; "AddFeeToDispute"]%string) && funded_after params
     && str_in role ["disputed_reporter"; "backer_of_disputed"]%string && str_in comp ["staked"]%string)
  (* a reporter paying a dispute fee from the stake selected to it *)
  || ((str_in op ["ProposeDispute"; "AddFeeToDispute"]%string) && from_stake params
        && (role =? "selector_of_signer")%string && (comp =? "staked")%string)
  (* removal of a selector that fell below the reporter's minimum *)
  || ((op =? "RemoveSelector")%string && (role =? "removed_selector")%string && (comp =? "selection")%string).

Definition c19_step (_ : snap) (s : hstep) : issues :=
  (* privileged messages from anybody but the authority are rejected *)
  (if str_in (st_op s) privileged_ops
   then match st_params s with
        | [by_auth] => spec_if ((by_auth =? 1) || negb (st_result s =? 0)) ("privileged message accepted from a non-authority signer: " ++ st_op s)
        | _ => []
        end
   else [])
  ++ (if (st_result s =? 0) && negb (st_signer s <? 0)
      then flat_map (fun d => let '(acct, comp, role) := d in
                              spec_if ((role =? "signer")%string || exception_ok (st_op s) (st_params s) role comp)
                                      ("a message reduced the holdings of an account other than its signer: " ++ st_op s ++ " / " ++ comp))
                    (st_decreased s)
      else if negb (st_result s =? 0)
      then spec_if (match st_decreased s with [] => true | _ => false end) ("a rejected message changed holdings: " ++ st_op s)
      else []).

Definition c19_hist_check (c : hist_case) : issues :=
  let 'Hist init steps := c in walk c19_step init steps.

(* does some consecutive (state before, step) pair satisfy [f]? *)
Fixpoint existsb_pair (f : snap -> hstep -> bool) (before : snap) (steps : list hstep) : bool :=
  match steps with
  | [] => false
  | s :: t => f before s || existsb_pair f (st_after s) t
  end.

(* finding F06 (C09): a commission rate outside [0,1] is accepted and makes a selector's credit negative;
   the other selectors are then credited more than was paid in *)
Definition hist_classes (c : hist_case) : list string :=
  let 'Hist init steps := c in
  (if forallb (fun s => sp_credits_nonneg (st_after s)) steps then [] else ["F06"%string])
  (* finding C13b (C13): a dispute fee paid from stake is credited in full but escrowed with truncation *)
  ++ (if existsb (fun s => ((st_op s =? "ProposeDispute") || (st_op s =? "AddFeeToDispute"))%string && (st_result s =? 0)
                          && match st_params s with 1 :: _ => true | _ => false end) steps
      then ["C13b"%string] else [])
  (* ... narrowed for the chain-halt consequence (C02): a payment from stake after which the dispute account holds less
     than the fee credited (plus the stake escrowed by the same message) *)
  ++ (if existsb_pair (fun before s =>
           ((st_op s =? "ProposeDispute") || (st_op s =? "AddFeeToDispute"))%string && (st_result s =? 0)
           && match st_params s with
              | [1; _; credited; slash_now] => sp_dispute (st_after s) - sp_dispute before <? credited + slash_now
              | _ => false
              end) init steps
      then ["C13b-short"%string] else []).
