(* C14 — model of the token bridge of x/bridge:

     x/bridge/keeper/claim_deposit.go            ClaimDeposit, DecodeDepositReportValue
     x/bridge/keeper/msg_server_claim_deposits.go ClaimDeposits (batch, atomic inside a transaction)
     x/bridge/keeper/withdraw_tokens.go           WithdrawTokens, IncrementWithdrawalId,
                                                  CreateWithdrawalAggregate, GetWithdrawalReportValue
     x/bridge/keeper/msg_server_withdraw_tokens.go
     x/bridge/keeper/keeper.go                    GetValidatorSetTimestampBefore (+ params lookup)
     x/oracle/keeper/aggregate.go                 GetAggregateByIndex, SetAggregate (as far as the bridge uses them)
     x/oracle/keeper/token_bridge_withdrawal_blocker.go  PreventBridgeWithdrawalReport

   Conventions.  All numbers are Z.  Bytes are lists of Z in [0,256).  Aggregate values and the
   withdrawal recipient are the strings of the code (hex text); the model hex-decodes them itself
   (encoding/hex: even length, 0-9a-fA-F).  ABI decoding follows go-ethereum v1.10.22
   accounts/abi (Arguments.Unpack -> toGoType, lengthPrefixPointsTo): head words at 32*i, a
   dynamic head is an offset `off` with `off+32 <= len`, the length word sits at `off`, the
   content at `off+32 .. off+32+len <= len(data)`; no alignment or canonicity requirement,
   trailing bytes are ignored, non-zero address padding is ignored.
   Time: block time in unix nanoseconds; aggregate / checkpoint timestamps in unix milliseconds
   (the store keys).  Bech32 is not modelled: a case carries the table `string -> SDK verdict`
   ([c_tbl]: the account number, or invalid) for every string the decoder can extract; accounts
   are small numbers, [c_addrs] gives the bech32 text of an account (used by withdrawals).
   A transaction that panics is rolled back by baseapp, so panics (negative coin amount in
   NewInt64Coin / Coins.Sub, Int.Uint64 out of range) are rejections: [None].

   Variant flags ([variant], DESIGN 2.3; true = repaired behaviour):
     v_wide   = false : amount/10^12 and tip/10^12 pass through big.Int.Int64() (low 64 bits,
                        two's complement) — finding F26;
              = true  : converted with math.NewIntFromBigInt (no truncation).
     v_rcpt20 = false : any hex string is accepted as withdrawal recipient and
                        common.BytesToAddress crops it to its last 20 bytes / left-pads it — finding F45;
              = true  : the recipient must be exactly 20 bytes.
   Definitions only; proofs are in Proofs/BridgeTokensProofs.v. *)
From Coq Require Import ZArith List Bool String Ascii.
From Verif Require Import Base.Harness.
Import ListNotations.
Open Scope Z_scope.

(* ---- bytes ------------------------------------------------------------------------------- *)
Definition bytes := list Z.

Fixpoint be (n : nat) (x : Z) : bytes :=
  match n with O => [] | S k => be k (x / 256) ++ [x mod 256] end.
Definition of_be (l : bytes) : Z := fold_left (fun acc b => acc * 256 + b) l 0.
Definition word (x : Z) : bytes := be 32 x.
Definition blen (d : bytes) : Z := Z.of_nat (List.length d).
Definition slice (off len : Z) (d : bytes) : bytes := firstn (Z.to_nat len) (skipn (Z.to_nat off) d).
Definition word_at (off : Z) (d : bytes) : Z := of_be (slice off 32 d).
Definition zeros (n : nat) : bytes := repeat 0 n.
Definition pad32 (b : bytes) : bytes := b ++ zeros ((32 - List.length b mod 32) mod 32).
Definition bytes_eqb (a b : bytes) : bool := list_eqb Z.eqb a b.

Definition codes (s : string) : list Z := map (fun a => Z.of_N (N_of_ascii a)) (list_ascii_of_string s).

(* ---- encoding/hex ------------------------------------------------------------------------ *)
Definition hex_val (c : Z) : option Z :=
  if (48 <=? c) && (c <=? 57) then Some (c - 48)
  else if (97 <=? c) && (c <=? 102) then Some (c - 87)
  else if (65 <=? c) && (c <=? 70) then Some (c - 55)
  else None.

Fixpoint hex_decode (l : list Z) : option bytes :=
  match l with
  | [] => Some []
  | a :: b :: r =>
      match hex_val a, hex_val b, hex_decode r with
      | Some x, Some y, Some t => Some (16 * x + y :: t)
      | _, _, _ => None
      end
  | [_] => None
  end.

Definition hex_digit (x : Z) : Z := if x <? 10 then 48 + x else 87 + x.
Fixpoint hex_encode (b : bytes) : list Z :=
  match b with [] => [] | x :: r => hex_digit (x / 16) :: hex_digit (x mod 16) :: hex_encode r end.

(* ---- go-ethereum abi: the fragments used here ---------------------------------------------- *)
(* a dynamic argument (string / bytes) whose head word is at [idx] *)
Definition abi_dyn_at (idx : Z) (d : bytes) : option bytes :=
  let L := blen d in
  if L <? idx + 32 then None else
  let e := word_at idx d + 32 in
  if L <? e then None else
  let n := word_at (e - 32) d in
  if L <? e + n then None else Some (slice e n d).

Definition abi_word_at (idx : Z) (d : bytes) : option Z :=
  if blen d <? idx + 32 then None else Some (word_at idx d).

(* (address, string, uint256, uint256): the deposit report value and the withdrawal value *)
Definition abi_decode4 (d : bytes) : option (Z * bytes * Z * Z) :=
  match abi_word_at 0 d, abi_dyn_at 32 d, abi_word_at 64 d, abi_word_at 96 d with
  | Some a, Some s, Some x, Some y => Some (a mod 2 ^ 160, s, x, y)
  | _, _, _, _ => None
  end.

Definition abi_encode4 (addr : Z) (s : bytes) (x y : Z) : bytes :=
  word addr ++ word 128 ++ word x ++ word y ++ word (blen s) ++ pad32 s.

(* abi.encode(string name, bytes args) with args = abi.encode(bool b, uint256 id) *)
Definition TRBBridge : bytes := [84; 82; 66; 66; 114; 105; 100; 103; 101].
Definition bridge_qdata (to_layer : bool) (id : Z) : bytes :=
  word 64 ++ word 128 ++ word 9 ++ pad32 TRBBridge ++ word 64 ++ word (if to_layer then 1 else 0) ++ word id.

(* readBool: 31 zero bytes and a last byte 0 / 1 *)
Definition abi_bool_at (idx : Z) (d : bytes) : option bool :=
  match abi_word_at idx d with
  | Some 0 => Some false
  | Some 1 => Some true
  | _ => None
  end.

(* PreventBridgeWithdrawalReport *)
Inductive blocker_result := BNotBridge | BDeposit | BReject.
Definition blocker (qd : bytes) : blocker_result :=
  match abi_dyn_at 0 qd, abi_dyn_at 32 qd with
  | Some name, Some args =>
      if negb (bytes_eqb name TRBBridge) then BNotBridge else
      match abi_bool_at 0 args, abi_word_at 32 args with
      | Some true, Some _ => BDeposit
      | _, _ => BReject
      end
  | _, _ => BReject
  end.
Definition blocker_code (b : blocker_result) : Z :=
  match b with BNotBridge => 0 | BDeposit => 1 | BReject => 2 end.

(* ---- the deposit report value ----------------------------------------------------------------- *)
Record variant := { v_wide : bool; v_rcpt20 : bool }.
Definition repaired : variant := {| v_wide := true; v_rcpt20 := true |}.
Definition as_found : variant := {| v_wide := false; v_rcpt20 := false |}.

Definition E12 : Z := 1000000000000.
Definition swrap64 (x : Z) : Z := (x + 2 ^ 63) mod 2 ^ 64 - 2 ^ 63.

(* wei -> loya; None = NewInt64Coin panics on a negative amount *)
Definition conv (v : variant) (x : Z) : option Z :=
  if v_wide v then Some (x / E12)
  else let y := swrap64 (x / E12) in if y <? 0 then None else Some y.

Record cfg := {
  c_tbl : list (bytes * option Z);   (* bech32 text -> account (None: AccAddressFromBech32 fails) *)
  c_addrs : list bytes;              (* account number -> its bech32 text *)
  c_deps : list Z                    (* the deposit ids whose claimed flag is observed *)
}.

Fixpoint tbl_lookup (t : list (bytes * option Z)) (s : bytes) : option (option Z) :=
  match t with
  | [] => None
  | (k, r) :: t' => if bytes_eqb k s then Some r else tbl_lookup t' s
  end.

Inductive dres := DErr | DMiss | DOk (rcpt amount tip : Z).

Definition decode_deposit (v : variant) (cf : cfg) (value : string) : dres :=
  match hex_decode (codes value) with
  | None => DErr
  | Some d =>
      match abi_decode4 d with
      | None => DErr
      | Some (_, s, a, t) =>
          match tbl_lookup (c_tbl cf) s with
          | None => DMiss
          | Some None => DErr
          | Some (Some r) =>
              match conv v a, conv v t with
              | Some am, Some tp => DOk r am tp
              | _, _ => DErr
              end
          end
      end
  end.

(* ---- state ------------------------------------------------------------------------------------- *)
Record agg := { a_ts : Z; a_value : string; a_power : Z; a_flagged : bool }.
Record wagg := { w_id : Z; w_value : bytes; w_power : Z; w_ts : Z }.

Record state := {
  s_now : Z;                        (* block time, unix ns *)
  s_aggs : list (Z * list agg);     (* deposit id -> aggregates of its query, ascending timestamp *)
  s_ckpts : list (Z * Z);           (* ValidatorCheckpointParamsMap: timestamp (ms) -> power threshold *)
  s_claimed : list Z;               (* DepositIdClaimedMap *)
  s_bal : list (Z * Z);             (* loya balances of the accounts *)
  s_supply : Z;
  s_bridge : Z;                     (* balance of the bridge module account *)
  s_bonded : Z;                     (* staking TotalBondedTokens *)
  s_wid : Z;                        (* WithdrawalId (0 = never set) *)
  s_wpub : list wagg                (* aggregates stored under withdrawal queries, newest first *)
}.

(* list access by a uint64 index (never builds a huge unary number) *)
Definition nth_z {A} (l : list A) (i : Z) : option A :=
  if (0 <=? i) && (i <? Z.of_nat (List.length l)) then nth_error l (Z.to_nat i) else None.

Definition zmem (x : Z) (l : list Z) : bool := existsb (Z.eqb x) l.

Fixpoint assoc {A} (k : Z) (l : list (Z * A)) : option A :=
  match l with [] => None | (k', x) :: r => if k' =? k then Some x else assoc k r end.
Fixpoint set_assoc {A} (k : Z) (x : A) (l : list (Z * A)) : list (Z * A) :=
  match l with
  | [] => [(k, x)]
  | (k', y) :: r => if k' =? k then (k, x) :: r else (k', y) :: set_assoc k x r
  end.

Definition bal_get (b : list (Z * Z)) (a : Z) : Z := match assoc a b with Some x => x | None => 0 end.
Definition bal_add (b : list (Z * Z)) (a x : Z) : list (Z * Z) := set_assoc a (bal_get b a + x) b.

Definition aggs_of (s : state) (dep : Z) : list agg := match assoc dep (s_aggs s) with Some l => l | None => [] end.

(* Aggregates.Set under (queryId, timestamp): ascending key order, an equal key is overwritten *)
Fixpoint insert_agg (a : agg) (l : list agg) : list agg :=
  match l with
  | [] => [a]
  | b :: r => if a_ts a <? a_ts b then a :: l
              else if a_ts a =? a_ts b then a :: r
              else b :: insert_agg a r
  end.

Fixpoint flag_nth (n : nat) (l : list agg) : list agg :=
  match l, n with
  | [], _ => []
  | a :: r, O => {| a_ts := a_ts a; a_value := a_value a; a_power := a_power a; a_flagged := true |} :: r
  | a :: r, S k => a :: flag_nth k r
  end.

(* GetValidatorSetTimestampBefore + GetValidatorCheckpointParamsFromStorage: the greatest key
   strictly below [ts]; a result of 0 is read as "nothing found" *)
Definition ckpt_best (cs : list (Z * Z)) (ts : Z) : Z :=
  fold_left (fun acc kv => if (fst kv <? ts) && (acc <? fst kv) then fst kv else acc) cs 0.
Definition ckpt_before (cs : list (Z * Z)) (ts : Z) : option Z :=
  let best := ckpt_best cs ts in if best =? 0 then None else assoc best cs.

Definition TWELVE_H : Z := 12 * 3600 * 1000000000.
Definition MS : Z := 1000000.

Definition upd_bank (s : state) (claimed : list Z) (bal : list (Z * Z)) (supply : Z) : state :=
  {| s_now := s_now s; s_aggs := s_aggs s; s_ckpts := s_ckpts s; s_claimed := claimed; s_bal := bal;
     s_supply := supply; s_bridge := s_bridge s; s_bonded := s_bonded s; s_wid := s_wid s; s_wpub := s_wpub s |}.

(* ---- ClaimDeposit -------------------------------------------------------------------------------- *)
Definition claim_deposit (v : variant) (cf : cfg) (s : state) (claimer dep idx : Z) : option state :=
  match nth_z (aggs_of s dep) idx with
  | None => None                                                     (* no aggregate at that index *)
  | Some a =>
      if a_flagged a then None else
      if zmem dep (s_claimed s) then None else
      match ckpt_before (s_ckpts s) (a_ts a) with
      | None => None
      | Some thr =>
          if a_power a <? thr then None else
          if s_now s - a_ts a * MS <? TWELVE_H then None else
          match decode_deposit v cf (a_value a) with
          | DOk r am tp =>
              if 0 <? tp
              then (if am <? tp then None                              (* Coins.Sub panics *)
                    else Some (upd_bank s (dep :: s_claimed s)
                                        (bal_add (bal_add (s_bal s) claimer tp) r (am - tp)) (s_supply s + am)))
              else Some (upd_bank s (dep :: s_claimed s) (bal_add (s_bal s) r am) (s_supply s + am))
          | _ => None
          end
      end
  end.

(* msgServer.ClaimDeposits: all or nothing *)
Fixpoint claim_loop (v : variant) (cf : cfg) (s : state) (claimer : Z) (deps idxs : list Z) : option state :=
  match deps, idxs with
  | [], _ => Some s
  | d :: ds, i :: is_ =>
      match claim_deposit v cf s claimer d i with
      | Some s' => claim_loop v cf s' claimer ds is_
      | None => None
      end
  | _ :: _, [] => None
  end.
Definition claim_deposits (v : variant) (cf : cfg) (s : state) (claimer : Z) (deps idxs : list Z) : option state :=
  if negb (Nat.eqb (List.length deps) (List.length idxs)) then None else claim_loop v cf s claimer deps idxs.

(* ---- WithdrawTokens ------------------------------------------------------------------------------- *)
(* common.BytesToAddress: the last 20 bytes, as a number *)
Definition addr_of (rb : bytes) : Z := of_be rb mod 2 ^ 160.
Definition withdraw_value (rb sender_text : bytes) (amount : Z) : bytes :=
  abi_encode4 (addr_of rb) sender_text amount 0.

Definition withdraw (v : variant) (cf : cfg) (s : state) (sender : Z) (denom_ok : bool) (amount : Z) (rcpt : string)
  : option state :=
  if negb denom_ok || (amount <=? 0) then None else
  match hex_decode (codes rcpt) with
  | None => None
  | Some rb =>
      if v_rcpt20 v && negb (blen rb =? 20) then None else
      if bal_get (s_bal s) sender <? amount then None else           (* insufficient funds *)
      if 2 ^ 64 <=? amount then None else                              (* Int.Uint64 panics *)
      if 2 ^ 64 <=? s_bonded s then None else
      match nth_z (c_addrs cf) sender with
      | None => None
      | Some text =>
          let id := s_wid s + 1 in
          Some {| s_now := s_now s; s_aggs := s_aggs s; s_ckpts := s_ckpts s; s_claimed := s_claimed s;
                  s_bal := bal_add (s_bal s) sender (- amount); s_supply := s_supply s - amount;
                  s_bridge := s_bridge s; s_bonded := s_bonded s; s_wid := id;
                  s_wpub := {| w_id := id; w_value := withdraw_value rb text amount; w_power := s_bonded s;
                               w_ts := s_now s / MS |} :: s_wpub s |}
      end
  end.

(* ---- histories ---------------------------------------------------------------------------------------- *)
Inductive op :=
| OTime (now : Z)                                              (* a later block *)
| OAgg (dep ts : Z) (value : string) (power : Z) (flagged : bool)  (* the oracle stores an aggregate of a deposit query *)
| OFlag (dep idx : Z)                                          (* a dispute flags an aggregate *)
| OCkpt (ts thr : Z)                                           (* the bridge stores a validator checkpoint *)
| OClaim (claimer : Z) (deps idxs : list Z)
| OWithdraw (sender : Z) (denom_ok : bool) (amount : Z) (rcpt : string)
| OSubmit (qdata : bytes).                                     (* a reporter submits a value for this query data *)

Definition set_env (s : state) (now : Z) (aggs : list (Z * list agg)) (ckpts : list (Z * Z)) : state :=
  {| s_now := now; s_aggs := aggs; s_ckpts := ckpts; s_claimed := s_claimed s; s_bal := s_bal s;
     s_supply := s_supply s; s_bridge := s_bridge s; s_bonded := s_bonded s; s_wid := s_wid s; s_wpub := s_wpub s |}.

(* a rejected transaction leaves the state as it was *)
Definition or_same (s : state) (r : option state) : state := match r with Some s' => s' | None => s end.

Definition step_env (s : state) (o : op) : state :=
  match o with
  | OTime now => set_env s now (s_aggs s) (s_ckpts s)
  | OAgg dep ts value power fl =>
      set_env s (s_now s)
              (set_assoc dep (insert_agg {| a_ts := ts; a_value := value; a_power := power; a_flagged := fl |} (aggs_of s dep)) (s_aggs s))
              (s_ckpts s)
  | OFlag dep idx =>
      if (0 <=? idx) && (idx <? Z.of_nat (List.length (aggs_of s dep)))
      then set_env s (s_now s) (set_assoc dep (flag_nth (Z.to_nat idx) (aggs_of s dep)) (s_aggs s)) (s_ckpts s)
      else s
  | OCkpt ts thr => set_env s (s_now s) (s_aggs s) (set_assoc ts thr (s_ckpts s))
  | _ => s
  end.

(* reports accepted by the oracle for bridge query data are not part of this state: the only
   thing C14 needs from SubmitValue is that the blocker rejects withdrawal query data, so a
   submission never changes the bridge-token state *)
Definition hstep (v : variant) (cf : cfg) (s : state) (o : op) : state :=
  match o with
  | OClaim c ds is_ => or_same s (claim_deposits v cf s c ds is_)
  | OWithdraw a dn amt r => or_same s (withdraw v cf s a dn amt r)
  | OSubmit _ => s
  | _ => step_env s o
  end.

(* ---- the executable specification (evaluated on the implementation's answers) ---------------------- *)
(* one claimed (deposit, index) pair, read off the environment part of the state: what the
   property allows to be minted for it *)
Record grant := { g_rcpt : Z; g_amount : Z; g_tip : Z }.

Definition in_force_ok (s : state) (a : agg) : bool :=
  match ckpt_before (s_ckpts s) (a_ts a) with Some thr => thr <=? a_power a | None => false end.

Definition claim_grant (cf : cfg) (s : state) (dep idx : Z) : option grant :=
  match nth_z (aggs_of s dep) idx with
  | None => None
  | Some a =>
      if negb (a_flagged a) && in_force_ok s a && (TWELVE_H <=? s_now s - a_ts a * MS)
      then match decode_deposit repaired cf (a_value a) with       (* exact division, no truncation *)
           | DOk r am tp => if tp <=? am then Some {| g_rcpt := r; g_amount := am; g_tip := tp |} else None
           | _ => None
           end
      else None
  end.

Fixpoint grants (cf : cfg) (s : state) (deps idxs : list Z) : option (list grant) :=
  match deps, idxs with
  | [], [] => Some []
  | d :: ds, i :: is_ =>
      match claim_grant cf s d i, grants cf s ds is_ with
      | Some g, Some gs => Some (g :: gs)
      | _, _ => None
      end
  | _, _ => None
  end.

Definition sum_amount (gs : list grant) : Z := fold_right (fun g acc => g_amount g + acc) 0 gs.
(* what account [a] must receive when [claimer] claims the grants *)
Definition credit (claimer a : Z) (gs : list grant) : Z :=
  fold_right (fun g acc => (if a =? claimer then g_tip g else 0) + (if a =? g_rcpt g then g_amount g - g_tip g else 0) + acc) 0 gs.

Fixpoint nodup_z (l : list Z) : bool :=
  match l with [] => true | x :: r => negb (zmem x r) && nodup_z r end.

(* ---- correspondence cases ----------------------------------------------------------------------------- *)
Inductive wobs :=
| WNone                                                        (* nothing stored under the withdrawal query of the id *)
| WPub (id : Z) (value : string) (power ts : Z) (flagged : bool) (nrep : Z).

(* what the harness reads from the real keepers after a transaction *)
Record obs := {
  o_ok : bool;                 (* the message server returned no error (and did not panic) *)
  o_bals : list Z;             (* loya balance of account 0, 1, ... *)
  o_supply : Z;
  o_bridge : Z;
  o_claimed : list bool;       (* DepositIdClaimedMap for the ids of c_deps *)
  o_wid : Z;                   (* WithdrawalId store *)
  o_naggs : Z;                 (* number of entries of the oracle's Aggregates store outside the queries of c_deps *)
  o_nreports : Z;              (* number of entries of the oracle's Reports store *)
  o_w : wobs
}.

Inductive step :=
| SEnv (o : op)                                                (* OTime / OAgg / OFlag / OCkpt, written by the harness *)
| SClaim (claimer : Z) (deps idxs : list Z) (o : obs)
| SWithdraw (sender : Z) (denom_ok : bool) (amount : Z) (rcpt : string) (o : obs)
| SSubmit (wd : bool) (id : Z) (o : obs).    (* real SubmitValue by a bonded reporter for the registry-encoded query data of
                                                TRBBridge(to_layer = not wd, id); TestC14Blocker ties that encoding to bridge_qdata *)

(* byte strings travel in the case terms as hex text (a string literal elaborates much faster than
   a list of numbers) *)
Definition unhex (s : string) : bytes := match hex_decode (codes s) with Some b => b | None => [] end.
Record rcfg := { r_tbl : list (string * option Z); r_addrs : list string; r_deps : list Z }.
Definition cfg_of (r : rcfg) : cfg :=
  {| c_tbl := map (fun p => (unhex (fst p), snd p)) (r_tbl r); c_addrs := map unhex (r_addrs r); c_deps := r_deps r |}.

Inductive c14_case :=
| HistCase (rc : rcfg) (now bonded : Z) (init : obs) (steps : list step)
| DecodeCase (rc : rcfg) (value : string) (impl : option (Z * Z * Z))     (* real DecodeDepositReportValue *)
| BlockerCase (qdata : string) (impl : Z)                                  (* real PreventBridgeWithdrawalReport *)
| QDataCase (to_layer : bool) (id : Z) (qdata : string) (impl : Z).        (* registry-encoded bridge query data *)

Fixpoint bals_of (n : nat) (l : list Z) : list (Z * Z) :=
  match l with [] => [] | x :: r => (Z.of_nat n, x) :: bals_of (S n) r end.
Fixpoint claimed_of (deps : list Z) (fl : list bool) : list Z :=
  match deps, fl with
  | d :: ds, f :: fs => if f then d :: claimed_of ds fs else claimed_of ds fs
  | _, _ => []
  end.

(* the state the implementation is in, as far as observed: environment part from [env] *)
Definition sync (cf : cfg) (env : state) (o : obs) : state :=
  {| s_now := s_now env; s_aggs := s_aggs env; s_ckpts := s_ckpts env;
     s_claimed := claimed_of (c_deps cf) (o_claimed o); s_bal := bals_of 0 (o_bals o);
     s_supply := o_supply o; s_bridge := o_bridge o; s_bonded := s_bonded env; s_wid := o_wid o;
     s_wpub := s_wpub env |}.

Definition accounts (o : obs) : list Z := map fst (bals_of 0 (o_bals o)).

Definition bank_eqb (s : state) (o : obs) : bool :=
  forallb (fun a => bal_get (s_bal s) a =? bal_get (bals_of 0 (o_bals o)) a) (accounts o)
  && (s_supply s =? o_supply o) && (s_bridge s =? o_bridge o).

Definition same_bank (pre : state) (o : obs) : bool := bank_eqb pre o.
Definition flags_eqb (cf : cfg) (s : state) (o : obs) : bool :=
  list_eqb Bool.eqb (map (fun d => zmem d (s_claimed s)) (c_deps cf)) (o_claimed o).

Definition unchanged (cf : cfg) (pre : state) (pre_o o : obs) : bool :=
  same_bank pre o && flags_eqb cf pre o && (o_wid o =? s_wid pre)
  && (o_naggs o =? o_naggs pre_o) && (o_nreports o =? o_nreports pre_o).

(* specification of one accepted ClaimDeposits message *)
Definition claim_spec (cf : cfg) (pre : state) (minted : list Z) (claimer : Z) (deps idxs : list Z) (o : obs) : issues :=
  spec_if (nodup_z deps && forallb (fun d => negb (zmem d minted)) deps)
          "a deposit id is turned into tokens more than once"
  ++ match grants cf pre deps idxs with
     | None => [Spec "tokens minted without an unflagged, 12 h old aggregate of the deposit query with two-thirds power and a well-formed value whose tip does not exceed the amount"]
     | Some gs =>
         spec_if (o_supply o =? s_supply pre + sum_amount gs) "minted amount is not the reported amount divided by 10^12"
         ++ spec_if (forallb (fun a => bal_get (bals_of 0 (o_bals o)) a =? bal_get (s_bal pre) a + credit claimer a gs) (accounts o))
                    "tip does not go to the claimer and the rest to the reported recipient"
         ++ spec_if (o_bridge o =? s_bridge pre) "bridge module account keeps or loses tokens in a claim"
     end.

Definition withdraw_spec (cf : cfg) (pre : state) (pre_o : obs) (maxid : Z) (sender : Z) (denom_ok : bool) (amount : Z) (rcpt : string) (o : obs) : issues :=
  spec_if (denom_ok && (0 <? amount)) "withdrawal of a non-positive amount or foreign denomination accepted"
  ++ spec_if (forallb (fun a => bal_get (bals_of 0 (o_bals o)) a =? bal_get (s_bal pre) a - (if a =? sender then amount else 0)) (accounts o)
              && (o_supply o =? s_supply pre - amount) && (o_bridge o =? s_bridge pre))
             "withdrawal does not burn exactly the requested amount from the sender"
  ++ match o_w o with
     | WNone => [Spec "withdrawal publishes no aggregate under the withdrawal query of its id"]
     | WPub id value power ts fl nrep =>
         spec_if ((maxid <? id) && (o_wid o =? id)) "withdrawal id is not fresh and strictly increasing"
         ++ spec_if ((o_naggs o =? o_naggs pre_o + 1) && negb fl) "withdrawal does not publish exactly one unflagged aggregate"
         ++ match hex_decode (codes rcpt), hex_decode (codes value), nth_z (c_addrs cf) sender with
            | Some rb, Some d, Some text =>
                match abi_decode4 d with
                | Some (a, s, x, y) =>
                    spec_if (a =? of_be rb) "withdrawal aggregate encodes a different recipient"
                    ++ spec_if (bytes_eqb s text) "withdrawal aggregate encodes a different sender"
                    ++ spec_if ((x =? amount) && (y =? 0)) "withdrawal aggregate encodes a different amount"
                | None => [Spec "withdrawal aggregate value does not decode as (address,string,uint256,uint256)"]
                end
            | _, _, _ => [Spec "withdrawal aggregate value does not decode as (address,string,uint256,uint256)"]
            end
     end.

Definition wpub_eqb (s : state) (o : obs) : bool :=
  match s_wpub s, o_w o with
  | w :: _, WPub id value power ts _ nrep =>
      (w_id w =? id) && (match hex_decode (codes value) with Some d => bytes_eqb d (w_value w) | None => false end)
      && (w_power w =? power) && (w_ts w =? ts) && (nrep =? 0)
  | _, _ => false
  end.

Definition is_env (o : op) : bool :=
  match o with OTime _ | OAgg _ _ _ _ _ | OFlag _ _ | OCkpt _ _ => true | _ => false end.

(* fold over the steps.  [pre] = implementation state before the step (bank part from the last
   observation, environment part from the environment steps); [minted] = the deposit ids the
   implementation has minted for; [maxid] = the largest withdrawal id it has handed out *)
Fixpoint check_steps (v : variant) (cf : cfg) (pre : state) (pre_o : obs) (minted : list Z) (maxid : Z) (l : list step) : issues :=
  match l with
  | [] => []
  | SEnv e :: r =>
      diff_if (is_env e) "environment step" ++ check_steps v cf (step_env pre e) pre_o minted maxid r
  | SClaim c ds is_ o :: r =>
      let m := claim_deposits v cf pre c ds is_ in
      (if o_ok o then claim_spec cf pre minted c ds is_ o
       else spec_if (unchanged cf pre pre_o o) "a rejected claim changes state")
      ++ (match m with
          | Some s' => diff_if (o_ok o) "claim accepted by the model only"
                       ++ (if o_ok o then diff_if (bank_eqb s' o) "claim: balances / supply"
                                          ++ diff_if (flags_eqb cf s' o) "claim: claimed flags" else [])
          | None => diff_if (negb (o_ok o)) "claim rejected by the model only"
          end)
      ++ diff_if ((o_wid o =? s_wid pre) && (o_naggs o =? o_naggs pre_o) && (o_nreports o =? o_nreports pre_o)) "claim: unrelated state"
      ++ check_steps v cf (sync cf pre o) o (if o_ok o then ds ++ minted else minted) maxid r
  | SWithdraw a dn amt rc o :: r =>
      let m := withdraw v cf pre a dn amt rc in
      (if o_ok o then withdraw_spec cf pre pre_o maxid a dn amt rc o
       else spec_if (unchanged cf pre pre_o o) "a rejected withdrawal changes state")
      ++ (match m with
          | Some s' => diff_if (o_ok o) "withdrawal accepted by the model only"
                       ++ (if o_ok o then diff_if (bank_eqb s' o) "withdrawal: balances / supply"
                                          ++ diff_if (wpub_eqb s' o) "withdrawal: published aggregate"
                                          ++ diff_if (o_wid o =? s_wid s') "withdrawal: id counter" else [])
          | None => diff_if (negb (o_ok o)) "withdrawal rejected by the model only"
          end)
      ++ diff_if (flags_eqb cf pre o && (o_nreports o =? o_nreports pre_o)) "withdrawal: unrelated state"
      ++ check_steps v cf (sync cf (or_same pre m) o) o minted
                     (if o_ok o then match o_w o with WPub id _ _ _ _ _ => Z.max maxid id | WNone => maxid end else maxid) r
  | SSubmit wd id o :: r =>
      let qd := bridge_qdata (negb wd) id in
      (if wd
          then spec_if (negb (o_ok o)) "a report for a withdrawal query is accepted"
               ++ spec_if (unchanged cf pre pre_o o) "a rejected report for a withdrawal query changes state"
               ++ diff_if (blocker_code (blocker qd) =? 2) "blocker on withdrawal query data"
          else diff_if (blocker_code (blocker qd) =? 1) "blocker on deposit query data"
               ++ diff_if (same_bank pre o && flags_eqb cf pre o && (o_wid o =? s_wid pre) && (o_naggs o =? o_naggs pre_o)) "deposit report: unrelated state")
      ++ check_steps v cf (sync cf pre o) o minted maxid r
  end.

Definition init_state (now bonded : Z) : state :=
  {| s_now := now; s_aggs := []; s_ckpts := []; s_claimed := []; s_bal := []; s_supply := 0; s_bridge := 0;
     s_bonded := bonded; s_wid := 0; s_wpub := [] |}.

Definition dres_eqb (d : dres) (impl : option (Z * Z * Z)) : bool :=
  match d, impl with
  | DOk r a t, Some (r', a', t') => (r =? r') && (a =? a') && (t =? t')
  | DErr, None => true
  | _, _ => false
  end.

Definition the_variant : variant := repaired.

Definition c14_check (c : c14_case) : issues :=
  match c with
  | HistCase rc now bonded init steps =>
      let cf := cfg_of rc in
      check_steps the_variant cf (sync cf (init_state now bonded) init) init [] (o_wid init) steps
  | DecodeCase rc value impl =>
      let cf := cfg_of rc in
      (* spec: a decoded amount is the reported amount / 10^12, for every uint256 *)
      (match impl, hex_decode (codes value) with
       | Some (_, a, t), Some d =>
           match abi_decode4 d with
           | Some (_, _, x, y) => spec_if ((a =? x / E12) && (t =? y / E12)) "decoded amount is not the reported amount divided by 10^12"
           | None => []
           end
       | _, _ => []
       end)
      ++ diff_if (dres_eqb (decode_deposit the_variant cf value) impl) "DecodeDepositReportValue"
  | BlockerCase qds impl => diff_if (blocker_code (blocker (unhex qds)) =? impl) "PreventBridgeWithdrawalReport"
  | QDataCase tl id qds impl =>
      let qd := unhex qds in
      diff_if (bytes_eqb qd (bridge_qdata tl id)) "bridge query data encoding"
      ++ spec_if (tl || (impl =? 2)) "the blocker lets withdrawal query data through"
      ++ diff_if (blocker_code (blocker qd) =? impl) "PreventBridgeWithdrawalReport"
  end.

(* ---- known-finding classes (signature predicates) -------------------------------------------------------- *)
(* F26: a claimed aggregate whose amount or tip, divided by 10^12, does not fit int64 *)
Definition agg_huge (a : agg) : bool :=
  match hex_decode (codes (a_value a)) with
  | Some d => match abi_decode4 d with
              | Some (_, _, x, y) => (2 ^ 63 <=? x / E12) || (2 ^ 63 <=? y / E12)
              | None => false end
  | None => false
  end.
(* F45: an accepted withdrawal whose recipient is not 20 bytes long *)
Definition rcpt_not20 (rc : string) : bool :=
  match hex_decode (codes rc) with Some rb => negb (blen rb =? 20) | None => false end.

Fixpoint hist_classes (env : state) (l : list step) : list string :=
  match l with
  | [] => []
  | SEnv e :: r => hist_classes (step_env env e) r
  | SClaim _ ds is_ o :: r =>
      (if o_ok o && existsb (fun di => match nth_z (aggs_of env (fst di)) (snd di) with
                                       | Some a => agg_huge a | None => false end) (combine ds is_)
       then ["F26"%string] else []) ++ hist_classes env r
  | SWithdraw _ _ _ rc o :: r => (if o_ok o && rcpt_not20 rc then ["F45"%string] else []) ++ hist_classes env r
  | SSubmit _ _ _ :: r => hist_classes env r
  end.

Definition c14_classes (c : c14_case) : list string :=
  match c with
  | HistCase _ now bonded init steps => hist_classes (init_state now bonded) steps
  | DecodeCase _ value impl =>
      if agg_huge {| a_ts := 0; a_value := value; a_power := 0; a_flagged := false |} then ["F26"%string] else []
  | _ => []
  end.
