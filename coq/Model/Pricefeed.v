(* C20 — model of the price daemon's served price.

   lib/math.go                                   Median[V uint64|uint32|int64|int32]
   daemons/pricefeed/types/price_timestamp.go    PriceTimestamp.UpdatePrice / GetValidPrice
   daemons/server/types/pricefeed/exchange_to_price.go          ExchangeToPrice
   daemons/server/types/pricefeed/market_to_exchange_prices.go  MarketToExchangePrices

   Numbers are Z.  In [median] every intermediate Go expression of the even case carries its
   fixed-width wrap ([wrap ty]); the theorems show that the wraps are identities.  time.Time is
   the number of nanoseconds since the Unix epoch (wall clock only: the harness and the gRPC
   path build times without monotonic reading); Go's zero Time is [time_zero].  Exchange ids
   (Go strings) are numbered by the harness.  Go maps are association lists in insertion order;
   the order of a Go map range only decides the order of the valid-price slice, which Median
   sorts (order independence: [median_perm]).  Definitions only; proofs: Proofs/PricefeedProofs.v *)
From Coq Require Import ZArith List Bool String Permutation.
From Verif Require Import Base.Harness Model.LockedObject.
Import ListNotations.
Open Scope Z_scope.

(* ====================================================================================== *)
(* lib.Median                                                                              *)
(* ====================================================================================== *)
Inductive ity := U64 | U32 | I64 | I32.

Definition bits (ty : ity) : Z := match ty with U64 | I64 => 64 | U32 | I32 => 32 end.
Definition signed (ty : ity) : bool := match ty with I64 | I32 => true | U64 | U32 => false end.
Definition lo (ty : ity) : Z := if signed ty then - 2 ^ (bits ty - 1) else 0.
Definition hi (ty : ity) : Z := if signed ty then 2 ^ (bits ty - 1) - 1 else 2 ^ bits ty - 1.
Definition in_range (ty : ity) (x : Z) : Prop := lo ty <= x <= hi ty.
Definition in_rangeb (ty : ity) (x : Z) : bool := (lo ty <=? x) && (x <=? hi ty).

(* the value a Go expression of type [ty] takes when its mathematical value is [x] *)
Definition wrap (ty : ity) (x : Z) : Z :=
  if signed ty then (x + 2 ^ (bits ty - 1)) mod 2 ^ bits ty - 2 ^ (bits ty - 1)
  else x mod 2 ^ bits ty.

(* sort.Slice(inputCopy, <) on plain numbers: the sorted sequence is unique *)
Fixpoint insertZ (x : Z) (l : list Z) : list Z :=
  match l with
  | [] => [x]
  | y :: t => if x <=? y then x :: l else y :: insertZ x t
  end.
Definition sortZ (l : list Z) : list Z := fold_right insertZ [] l.

(* the even case, x = inputCopy[midIdx-1], y = inputCopy[midIdx]; Go `/` and `%` truncate *)
Definition med2 (ty : ity) (x y : Z) : Z :=
  if (x <=? 0) && (0 <=? y) then
    let sum := wrap ty (x + y) in
    wrap ty (wrap ty (Z.quot sum 2) + wrap ty (Z.rem sum 2))
  else if 0 <? y then
    wrap ty (y - wrap ty (Z.quot (wrap ty (y - x)) 2))
  else
    wrap ty (x + wrap ty (Z.quot (wrap ty (y - x)) 2)).

Definition median (ty : ity) (input : list Z) : option Z :=
  let l := List.length input in
  match l with
  | O => None                                             (* "input cannot be empty" *)
  | _ =>
    let s := sortZ input in
    let mid := (l / 2)%nat in
    if Nat.odd l then Some (nth mid s 0)
    else Some (med2 ty (nth (mid - 1) s 0) (nth mid s 0))
  end.

(* ---- what the property says ------------------------------------------------------------ *)
(* mean of two numbers rounded away from zero, in unbounded arithmetic *)
Definition mean_away (x y : Z) : Z :=
  let s := x + y in if 0 <=? s then (s + 1) / 2 else - ((- s + 1) / 2).

(* the mathematical values of the intermediate expressions of the branch taken *)
Definition med2_steps (x y : Z) : list Z :=
  if (x <=? 0) && (0 <=? y) then
    [x + y; Z.quot (x + y) 2; Z.rem (x + y) 2; Z.quot (x + y) 2 + Z.rem (x + y) 2]
  else if 0 <? y then [y - x; Z.quot (y - x) 2; y - Z.quot (y - x) 2]
  else [y - x; Z.quot (y - x) 2; x + Z.quot (y - x) 2].

(* median of a sorted sequence *)
Definition median_sorted (s : list Z) : Z :=
  let l := List.length s in
  let mid := (l / 2)%nat in
  if Nat.odd l then nth mid s 0 else mean_away (nth (mid - 1) s 0) (nth mid s 0).

(* executable specification: no fixed width anywhere *)
Definition median_spec (input : list Z) : option Z :=
  match input with [] => None | _ => Some (median_sorted (sortZ input)) end.

(* rank characterisation, independent of any sorting *)
Definition count_lt (v : Z) (l : list Z) : Z := Z.of_nat (List.length (filter (fun x => x <? v) l)).
Definition count_le (v : Z) (l : list Z) : Z := Z.of_nat (List.length (filter (fun x => x <=? v) l)).
Definition has_rank (l : list Z) (k : Z) (v : Z) : Prop := In v l /\ count_lt v l <= k < count_le v l.
Definition has_rankb (l : list Z) (k : Z) (v : Z) : bool :=
  existsb (Z.eqb v) l && (count_lt v l <=? k) && (k <? count_le v l).

(* rank-based executable check of an answer [m] for input [l] (used on the real outputs) *)
Definition is_median_of (l : list Z) (m : Z) : bool :=
  let n := List.length l in
  let mid := Z.of_nat (n / 2) in
  if Nat.odd n then has_rankb l mid m
  else existsb (fun a => existsb (fun b => has_rankb l (mid - 1) a && has_rankb l mid b
                                             && (m =? mean_away a b)) l) l.

(* ====================================================================================== *)
(* the price store                                                                          *)
(* ====================================================================================== *)
Definition time_zero : Z := -62135596800 * 1000000000.      (* time.Time{} = 0001-01-01 UTC *)

Record pts := PT { p_time : Z; p_price : Z }.                 (* PriceTimestamp *)
Definition pts_new : pts := PT time_zero 0.                   (* NewPriceTimestamp() *)

(* UpdatePrice: newUpdateTime.After(pt.LastUpdateTime) *)
Definition pts_update (pt : pts) (price t : Z) : pts * bool :=
  if p_time pt <? t then (PT t price, true) else (pt, false).

(* GetValidPrice: pt.LastUpdateTime.Before(cutoff) => (0,false) *)
Definition pts_valid (pt : pts) (cutoff : Z) : option Z :=
  if p_time pt <? cutoff then None else Some (p_price pt).

(* Go map with numeric keys: association list, new keys appended *)
Fixpoint aget {V} (l : list (Z * V)) (k : Z) : option V :=
  match l with
  | [] => None
  | (k', v) :: t => if k' =? k then Some v else aget t k
  end.
Fixpoint aset {V} (l : list (Z * V)) (k : Z) (v : V) : list (Z * V) :=
  match l with
  | [] => [(k, v)]
  | (k', v') :: t => if k' =? k then (k, v) :: t else (k', v') :: aset t k v
  end.

Record xprice := XP { x_id : Z; x_price : Z; x_time : Z }.          (* servertypes.ExchangePrice *)
Record mupdate := MU { m_id : Z; m_prices : list xprice }.          (* servertypes.MarketPriceUpdate *)
Record mparam := MP { mp_id : Z; mp_min : Z }.                      (* MarketParam{Id, MinExchanges} *)

Definition etp := list (Z * pts).            (* ExchangeToPrice.exchangeToPriceTimestamp *)
Definition store := list (Z * etp).          (* MarketToExchangePrices.marketToExchangePrices *)

(* one iteration of ExchangeToPrice.UpdatePrices *)
Definition etp_update1 (e : etp) (u : xprice) : etp :=
  let pt := match aget e (x_id u) with Some pt => pt | None => pts_new end in
  aset e (x_id u) (fst (pts_update pt (x_price u) (x_time u))).
Definition etp_update (e : etp) (ups : list xprice) : etp := fold_left etp_update1 ups e.

(* one iteration of MarketToExchangePrices.UpdatePrices *)
Definition mte_update1 (s : store) (mu : mupdate) : store :=
  let e := match aget s (m_id mu) with Some e => e | None => [] end in
  aset s (m_id mu) (etp_update e (m_prices mu)).
Definition mte_update (s : store) (ups : list mupdate) : store := fold_left mte_update1 ups s.

(* ExchangeToPrice.GetValidPrices *)
Definition etp_valid (e : etp) (cutoff : Z) : list Z :=
  flat_map (fun kv => match pts_valid (snd kv) cutoff with Some p => [p] | None => [] end) e.

(* one iteration of GetValidMedianPrices; [acc] is marketIdToMedianPrice *)
Definition read_step (s : store) (cutoff : Z) (acc : list (Z * Z)) (p : mparam) : list (Z * Z) :=
  match aget s (mp_id p) with
  | None => acc
  | Some e =>
      let vp := etp_valid e cutoff in
      if mp_min p <=? Z.of_nat (List.length vp) then
        match median U64 vp with Some m => aset acc (mp_id p) m | None => acc end
      else acc
  end.

(* cutoffTime := readTime.Add(-maxPriceAge) *)
Definition mte_read (maxAge : Z) (s : store) (ps : list mparam) (readT : Z) : list (Z * Z) :=
  fold_left (read_step s (readT - maxAge)) ps [].

Definition cell (s : store) (m x : Z) : option pts :=
  match aget s m with Some e => aget e x | None => None end.

Definition fresh_prices (s : store) (m cutoff : Z) : list Z :=
  match aget s m with Some e => etp_valid e cutoff | None => [] end.

Definition prices_in_range (s : store) : Prop :=
  forall m e, In (m, e) s -> forall x pt, In (x, pt) e -> in_range U64 (p_price pt).

(* ---- the same at the level of the history of submitted updates ------------------------- *)
Definition flat_updates (ups : list mupdate) : list (Z * xprice) :=
  flat_map (fun mu => map (pair (m_id mu)) (m_prices mu)) ups.

(* (time, price) of the updates of exchange x of market m, in submission order *)
Definition hist_of (h : list (Z * xprice)) (m x : Z) : list (Z * Z) :=
  map (fun mx => (x_time (snd mx), x_price (snd mx)))
      (filter (fun mx => (fst mx =? m) && (x_id (snd mx) =? x)) h).

(* latest price of an exchange: greatest update time, the first one among equal times *)
Fixpoint latest_from (best : option (Z * Z)) (l : list (Z * Z)) : option (Z * Z) :=
  match l with
  | [] => best
  | u :: r => latest_from (match best with
                           | None => Some u
                           | Some b => if fst b <? fst u then Some u else Some b
                           end) r
  end.
Definition latest_of : list (Z * Z) -> option (Z * Z) := latest_from None.

Definition is_latest (l : list (Z * Z)) (u : Z * Z) : Prop :=
  exists l1 l2, l = l1 ++ u :: l2 /\ (forall w, In w l1 -> fst w < fst u) /\ (forall w, In w l2 -> fst w <= fst u).

Fixpoint dedup (seen l : list Z) : list Z :=
  match l with
  | [] => []
  | x :: t => if existsb (Z.eqb x) seen then dedup seen t else x :: dedup (x :: seen) t
  end.

Definition exchanges_of (h : list (Z * xprice)) (m : Z) : list Z :=
  dedup [] (map (fun mx => x_id (snd mx)) (filter (fun mx => fst mx =? m) h)).

Definition fresh_of_history (h : list (Z * xprice)) (m cutoff : Z) : list Z :=
  flat_map (fun x => match latest_of (hist_of h m x) with
                     | Some (t, p) => if cutoff <=? t then [p] else []
                     | None => []
                     end) (exchanges_of h m).

(* served price of market m for a read with parameters ps *)
Definition served_spec (fresh : list Z) (ps : list mparam) (m : Z) : option Z :=
  let n := Z.of_nat (List.length fresh) in
  if existsb (fun p => (mp_id p =? m) && (mp_min p <=? n)) ps && (1 <=? n) then median_spec fresh else None.

(* ====================================================================================== *)
(* the store as a lock-protected object                                                     *)
(* ====================================================================================== *)
Inductive cop := CUpdate (ups : list mupdate) | CRead (ps : list mparam) (readT : Z).

Definition apply_op (maxAge : Z) (s : store) (o : cop) : store * list (Z * Z) :=
  match o with
  | CUpdate ups => (mte_update s ups, [])
  | CRead ps t => (s, mte_read maxAge s ps t)
  end.

Fixpoint run_ops (maxAge : Z) (s : store) (os : list cop) : list (list (Z * Z)) * store :=
  match os with
  | [] => ([], s)
  | o :: r => let '(s', out) := apply_op maxAge s o in
              let '(outs, s'') := run_ops maxAge s' r in (out :: outs, s'')
  end.

(* local state of a running call: the rest of the loop and the result map built so far *)
Inductive plocal := LUpd (rest : list mupdate) | LRead (rest : list mparam) (acc : list (Z * Z)).

Definition p_l0 (o : cop) : plocal :=
  match o with CUpdate ups => LUpd ups | CRead ps _ => LRead ps [] end.

(* one loop iteration of the respective method, executed while holding the mutex *)
Definition p_bstep (maxAge : Z) (o : cop) (l : plocal) (s : store) : (plocal * store) + list (Z * Z) :=
  match o, l with
  | CUpdate _, LUpd [] => inr []
  | CUpdate _, LUpd (mu :: r) => inl (LUpd r, mte_update1 s mu)
  | CRead _ t, LRead [] acc => inr acc
  | CRead _ t, LRead (p :: r) acc => inl (LRead r (read_step s (t - maxAge) acc p), s)
  | CUpdate _, LRead _ _ => inr []          (* not reachable from [p_l0] *)
  | CRead _ _, LUpd _ => inr []             (* not reachable from [p_l0] *)
  end.

(* ====================================================================================== *)
(* correspondence cases                                                                     *)
(* ====================================================================================== *)
Record cellrec := Cell { c_m : Z; c_x : Z; c_t : Z; c_p : Z }.      (* dump of one stored price *)

Inductive sop :=
| SUpdate (ups : list mupdate)
| SRead (ps : list mparam) (readT : Z) (impl : list (Z * Z))         (* result map, sorted by key *)
| SDump (cells : list cellrec).                                      (* the real store, read by reflection *)

Record call := Call { k_inv : Z; k_res : Z; k_op : cop; k_out : list (Z * Z) }.

Record lockfact := LockFact {
  lf_name : string;        (* function or method that mentions the map field *)
  lf_guarded : bool;       (* recv.Lock(); defer recv.Unlock() precede the first mention, no other Unlock *)
  lf_escapes : bool }.     (* a result type mentions the map or *ExchangeToPrice *)

Inductive c20_case :=
| MedianCase (ty : ity) (input : list Z) (impl : option Z)
| SeqCase (maxAge : Z) (ops : list sop)
| ConcCase (maxAge : Z) (calls : list call) (final : list cellrec)
| LockCase (facts : list lockfact)
(* the gRPC median server (daemons/server/median): after the updates [ups], GetAllMedianValues = [all] (sorted by
   market) and, per market parameter of [ps] (distinct ids, distinct query data), GetMedianValue with that
   parameter's query data = price or error; [readT] = wall-clock time of the calls (the update times keep clear of
   the cut-off by seconds) *)
| ServerCase (maxAge : Z) (ups : list mupdate) (ps : list mparam) (readT : Z) (all : list (Z * Z)) (singles : list (Z * option Z)).

Definition pair_eqb (a b : Z * Z) : bool := (fst a =? fst b) && (snd a =? snd b).

(* equality of two finite maps given as association lists with unique keys *)
Definition map_eqb (a b : list (Z * Z)) : bool :=
  (Z.of_nat (List.length a) =? Z.of_nat (List.length b))
  && forallb (fun kv => Zeqb_opt (aget b (fst kv)) (Some (snd kv))) a.

Definition store_cells (s : store) : list cellrec :=
  flat_map (fun me => map (fun xp => Cell (fst me) (fst xp) (p_time (snd xp)) (p_price (snd xp))) (snd me)) s.

Definition find_cell (cs : list cellrec) (m x : Z) : option cellrec :=
  find (fun c => (c_m c =? m) && (c_x c =? x)) cs.

Definition cells_eqb (a b : list cellrec) : bool :=
  (Z.of_nat (List.length a) =? Z.of_nat (List.length b))
  && forallb (fun c => match find_cell b (c_m c) (c_x c) with
                       | Some d => (c_t c =? c_t d) && (c_p c =? c_p d)
                       | None => false end) a.

(* ---- lib.Median ------------------------------------------------------------------------- *)
Definition check_median (ty : ity) (input : list Z) (impl : option Z) : issues :=
  (match input, impl with
   | [], None => []
   | [], Some _ => [Spec "median of an empty input"]
   | _ :: _, None => [Spec "no median for a non-empty input"]
   | _ :: _, Some m =>
       spec_if (is_median_of input m)
               "median is not the middle element / the mean of the two middle elements rounded away from zero"
   end)
  ++ diff_if (forallb (in_rangeb ty) input) "median input outside the type's range"
  ++ diff_if (Zeqb_opt (median ty input) impl) "median".

(* ---- sequential runs -------------------------------------------------------------------- *)
Definition keys_of (ps : list mparam) (impl : list (Z * Z)) : list Z :=
  dedup [] (map mp_id ps ++ map fst impl).

(* the read clause of the property on the implementation's answer; [h] = all updates so far *)
Definition spec_read (h : list (Z * xprice)) (cutoff : Z) (ps : list mparam) (impl : list (Z * Z)) : issues :=
  flat_map (fun m =>
    let fresh := fresh_of_history h m cutoff in
    let n := Z.of_nat (List.length fresh) in
    let enough := existsb (fun p => (mp_id p =? m) && (mp_min p <=? n)) ps && (1 <=? n) in
    match aget impl m with
    | Some v =>
        spec_if enough "price served although fewer than MinExchanges (or no) exchanges are fresh"
        ++ (if enough then spec_if (Zeqb_opt (median_spec fresh) (Some v))
                                   "served price is not the median of the fresh latest prices" else [])
    | None => spec_if (negb enough) "no price served although enough exchanges are fresh"
    end) (keys_of ps impl).

(* stored prices only move forward in update time (between two consecutive dumps) *)
Definition spec_monotone (prev cur : list cellrec) : issues :=
  flat_map (fun c =>
    match find_cell cur (c_m c) (c_x c) with
    | None => [Spec "a stored exchange price disappeared"]
    | Some d => spec_if (c_t c <=? c_t d) "stored price moved backwards in update time"
                ++ spec_if ((c_t c <? c_t d) || (c_p c =? c_p d)) "stored price changed without a newer update time"
    end) prev.

(* every stored price is the latest submitted one (for histories after Go's zero time) *)
Definition spec_latest (h : list (Z * xprice)) (cur : list cellrec) : issues :=
  flat_map (fun c =>
    let l := hist_of h (c_m c) (c_x c) in
    if forallb (fun u => time_zero <? fst u) l then
      spec_if (match latest_of l with Some (t, p) => (t =? c_t c) && (p =? c_p c) | None => false end)
              "stored price is not the exchange's latest submitted price"
    else []) cur.

Record seq_state := SS { ss_store : store; ss_hist : list (Z * xprice); ss_prev : list cellrec }.

Definition seq_step (maxAge : Z) (st : seq_state * issues) (o : sop) : seq_state * issues :=
  let '(s, iss) := st in
  match o with
  | SUpdate ups => (SS (mte_update (ss_store s) ups) (ss_hist s ++ flat_updates ups) (ss_prev s), iss)
  | SRead ps t impl =>
      (s, iss
          ++ (if time_zero <? t - maxAge then spec_read (ss_hist s) (t - maxAge) ps impl else [])
          ++ diff_if (map_eqb (mte_read maxAge (ss_store s) ps t) impl) "median prices")
  | SDump cells =>
      (SS (ss_store s) (ss_hist s) cells,
       iss ++ spec_monotone (ss_prev s) cells ++ spec_latest (ss_hist s) cells
           ++ diff_if (cells_eqb (store_cells (ss_store s)) cells) "stored prices")
  end.

Definition check_seq (maxAge : Z) (ops : list sop) : issues :=
  snd (fold_left (seq_step maxAge) ops (SS [] [] [], [])).

(* all updates submitted by the operations [ops], flattened, in order *)
Definition updates_of (ops : list sop) : list (Z * xprice) :=
  flat_map (fun o => match o with SUpdate ups => flat_updates ups | _ => [] end) ops.

(* ---- concurrent histories ---------------------------------------------------------------- *)
(* all ways of taking one element out of a list *)
Fixpoint picks {A} (pre l : list A) : list (A * list A) :=
  match l with
  | [] => []
  | x :: t => (x, rev_append pre t) :: picks (x :: pre) t
  end.

(* [c] may be linearized first: no pending call responded before [c] was invoked *)
Definition minimal (c : call) (pending : list call) : bool :=
  forallb (fun d => negb (k_res d <? k_inv c)) pending.

(* [existsb] whose evaluation stops at the first hit also under call-by-value (vm_compute
   evaluates both arguments of [orb] / [andb]; [if] evaluates one branch only) *)
Fixpoint lazy_existsb {A} (f : A -> bool) (l : list A) : bool :=
  match l with
  | [] => false
  | x :: t => if f x then true else lazy_existsb f t
  end.

(* Wing-Gong search; [fuel] >= number of pending calls makes it exhaustive *)
Fixpoint lin_search (fuel : nat) (maxAge : Z) (final : list cellrec) (s : store) (pending : list call) : bool :=
  match pending with
  | [] => cells_eqb (store_cells s) final
  | _ :: _ =>
    match fuel with
    | O => false
    | S f =>
      lazy_existsb (fun cr =>
        let '(c, rest) := cr in
        if minimal c pending then
          let '(s', out) := apply_op maxAge s (k_op c) in
          if map_eqb out (k_out c) then lin_search f maxAge final s' rest else false
        else false)
        (picks [] pending)
    end
  end.

(* what a successful search establishes: an order of all calls that respects real time (no call
   is placed before one that had responded before it was invoked), along which the sequential
   model returns every recorded result and ends in the recorded final store *)
Inductive lin_witness (maxAge : Z) (final : list cellrec) : store -> list call -> Prop :=
| lw_nil s : cells_eqb (store_cells s) final = true -> lin_witness maxAge final s []
| lw_cons s pending c rest :
    Permutation (c :: rest) pending ->
    (forall d, In d pending -> ~ k_res d < k_inv c) ->
    map_eqb (snd (apply_op maxAge s (k_op c))) (k_out c) = true ->
    lin_witness maxAge final (fst (apply_op maxAge s (k_op c))) rest ->
    lin_witness maxAge final s pending.

Definition stamps_ok (calls : list call) : bool := forallb (fun c => k_inv c <? k_res c) calls.

Definition check_conc (maxAge : Z) (calls : list call) (final : list cellrec) : issues :=
  diff_if (stamps_ok calls) "invocation/response stamps"
  ++ spec_if (lin_search (List.length calls) maxAge final [] calls) "history not linearizable".

(* ---- lock discipline (source scan) -------------------------------------------------------- *)
Definition check_lock (facts : list lockfact) : issues :=
  (* structural facts the linearizability theorem relies on: their absence breaks the tie between model and code (a
     correspondence failure); a concrete wrong answer is for the concurrent drivers to exhibit *)
  flat_map (fun f =>
    diff_if (lf_guarded f) (String.append "map field accessed without Lock(); defer Unlock() in " (lf_name f))
    ++ diff_if (negb (lf_escapes f)) (String.append "guarded map or *ExchangeToPrice escapes from " (lf_name f))) facts
  ++ diff_if (existsb (fun f => String.eqb (lf_name f) "UpdatePrices") facts
              && existsb (fun f => String.eqb (lf_name f) "GetValidMedianPrices") facts)
             "lock scan did not find UpdatePrices and GetValidMedianPrices".

(* ---- the median server's two endpoints ----------------------------------------------------- *)
Definition single_answer (m : Z) (r : option Z) : list (Z * Z) := match r with Some v => [(m, v)] | None => [] end.
Definition check_server (maxAge : Z) (ups : list mupdate) (ps : list mparam) (readT : Z)
                        (all : list (Z * Z)) (singles : list (Z * option Z)) : issues :=
  let s := mte_update [] ups in
  let h := flat_updates ups in
  let cutoff := readT - maxAge in
  spec_read h cutoff ps all
  ++ diff_if (map_eqb (mte_read maxAge s ps readT) all) "GetAllMedianValues"
  ++ flat_map (fun mr =>
       let '(m, r) := mr in
       let psm := filter (fun p => mp_id p =? m) ps in
       spec_read h cutoff psm (single_answer m r)
       ++ diff_if (map_eqb (mte_read maxAge s psm readT) (single_answer m r)) "GetMedianValue") singles.

Definition c20_check (c : c20_case) : issues :=
  match c with
  | MedianCase ty input impl => check_median ty input impl
  | SeqCase maxAge ops => check_seq maxAge ops
  | ConcCase maxAge calls final => check_conc maxAge calls final
  | LockCase facts => check_lock facts
  | ServerCase maxAge ups ps readT all singles => check_server maxAge ups ps readT all singles
  end.

(* no open finding for C20: the code as found satisfies the property on every generated input *)
Definition c20_classes (c : c20_case) : list string := [].
