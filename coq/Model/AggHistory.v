(* C08 — the aggregate store and its lookups (x/oracle/keeper/aggregate.go getters,
   keeper.go FlagAggregateReport, x/bridge snapshot neighbours), over the store of
   Model/OracleRound.v: a list of aggregates sorted by (query id, timestamp ms). *)
From Coq Require Import ZArith List Bool String.
From Verif Require Import Base.Harness Model.OracleRound.
Import ListNotations.
Open Scope Z_scope.

(* the chronological list of one query's aggregates = the store restricted to that query *)
Definition hist (q : Z) (l : list aggr) : list aggr := filter (fun a => ag_qid a =? q) l.

Definition last_opt {A} (l : list A) : option A := match rev l with x :: _ => Some x | [] => None end.

(* GetTimestampBefore: Walk(prefix q, EndExclusive T, Descending), first key; 0 = none (error) *)
Definition ts_before (q t : Z) (l : list aggr) : option Z :=
  option_map ag_ts (last_opt (filter (fun a => ag_ts a <? t) (hist q l))).
(* GetTimestampAfter: Walk(prefix q, StartExclusive T), first key *)
Definition ts_after (q t : Z) (l : list aggr) : option Z :=
  option_map ag_ts (hd_error (filter (fun a => t <? ag_ts a) (hist q l))).
(* GetCurrentAggregateReport *)
Definition current (q : Z) (l : list aggr) : option aggr := last_opt (hist q l).
(* GetAggregateBefore: most recent unflagged strictly before T *)
Definition agg_before (q t : Z) (l : list aggr) : option aggr :=
  last_opt (filter (fun a => (ag_ts a <? t) && negb (ag_flagged a)) (hist q l)).
(* GetAggregateByTimestamp *)
Definition by_timestamp (q t : Z) (l : list aggr) : option aggr := find (fun a => ag_ts a =? t) (hist q l).
(* GetAggregateByIndex: 0-based position *)
Definition by_index (q i : Z) (l : list aggr) : option aggr := if i <? 0 then None else nth_error (hist q l) (Z.to_nat i).
(* GetAggregatedReportsByHeight (index order = key order within one height) *)
Definition by_height (h : Z) (l : list aggr) : list aggr := filter (fun a => ag_height a =? h) l.

(* FlagAggregateReport(report): among the aggregates with MicroHeight = report.BlockNumber and the
   report's query id, the first whose determining reporter is the report's reporter becomes flagged *)
Fixpoint flag (q reporter height : Z) (l : list aggr) : list aggr :=
  match l with
  | [] => []
  | a :: t =>
      if (ag_micro_height a =? height) && (ag_qid a =? q) && (ag_agg_reporter a =? reporter)
      then {| ag_qid := ag_qid a; ag_ts := ag_ts a; ag_height := ag_height a; ag_nonce := ag_nonce a; ag_meta := ag_meta a;
              ag_reporters := ag_reporters a; ag_power := ag_power a; ag_flagged := true;
              ag_agg_reporter := ag_agg_reporter a; ag_micro_height := ag_micro_height a |} :: t
      else a :: flag q reporter height t
  end.

(* ---- cases ------------------------------------------------------------------------------------------- *)
Definition agg_full_eqb (a b : aggr) : bool :=
  (ag_qid a =? ag_qid b) && (ag_ts a =? ag_ts b) && (ag_height a =? ag_height b) && (ag_nonce a =? ag_nonce b)
  && (ag_meta a =? ag_meta b) && list_eqb Z.eqb (ag_reporters a) (ag_reporters b) && (ag_power a =? ag_power b)
  && Bool.eqb (ag_flagged a) (ag_flagged b) && (ag_agg_reporter a =? ag_agg_reporter b) && (ag_micro_height a =? ag_micro_height b).

Definition opt_agg_key_eqb (a : option aggr) (b : option (Z * Z)) : bool :=       (* compare by (ts, nonce) *)
  match a, b with
  | Some x, Some (ts, nonce) => (ag_ts x =? ts) && (ag_nonce x =? nonce)
  | None, None => true
  | _, _ => false
  end.
Definition optz_eqb (a b : option Z) : bool :=
  match a, b with Some x, Some y => x =? y | None, None => true | _, _ => false end.

(* one probe of the getters on the real keeper: query, timestamp T, index i, and the answers
   (aggregates identified by (timestamp, nonce)) *)
Inductive probe :=
| Probe (q t i : Z) (r_ts_before r_ts_after : option Z)
        (r_current r_before r_by_ts r_by_index : option (Z * Z)).

Inductive c08_case :=
(* the store observed on the real keeper and the probes answered on that same state *)
| GetterCase (store : list aggr) (probes : list probe)
(* consecutive observed stores around one operation; flag_of = the (query, reporter, height) of the
   report named by a dispute / evidence message, if any; block = the operation was an end block *)
| AppendCase (op : string) (before after : list aggr) (flags : list (Z * Z * Z))
(* attestation snapshots written by the bridge in the state whose aggregate store is [store]:
   (query, report timestamp, PrevReportTimestamp, NextReportTimestamp); 0 = none *)
| SnapshotCase (store : list aggr) (snaps : list (Z * Z * Z * Z)).

Definition probe_check (l : list aggr) (p : probe) : issues :=
  let 'Probe q t i r1 r2 r3 r4 r5 r6 := p in
  (* the lookups of the model are characterised by the theorems of Properties/C08.v (greatest below / least above T,
     latest unflagged entry strictly before T, i-th entry, ...): another answer of the implementation on the observed
     store is a wrong retrieval, i.e. a failing input of the property *)
  spec_if (optz_eqb (ts_before q t l) r1) "retrieval: GetTimestampBefore is not the greatest timestamp below T"
  ++ spec_if (optz_eqb (ts_after q t l) r2) "retrieval: GetTimestampAfter is not the least timestamp above T"
  ++ spec_if (opt_agg_key_eqb (current q l) r3) "retrieval: GetCurrentAggregateReport is not the entry with the greatest timestamp"
  ++ spec_if (opt_agg_key_eqb (agg_before q t l) r4) "retrieval: data before T is not the latest unflagged entry strictly before T"
  ++ spec_if (opt_agg_key_eqb (by_timestamp q t l) r5) "retrieval: GetAggregateByTimestamp is not the entry with that timestamp"
  ++ spec_if (opt_agg_key_eqb (by_index q i l) r6) "retrieval: GetAggregateByIndex is not the i-th entry".

(* the property on the observed store: per query, timestamps strictly increase with the nonces,
   which count up by one from 1 *)
Fixpoint chrono_ok (prev_ts prev_nonce : Z) (l : list aggr) : bool :=
  match l with
  | [] => true
  | a :: t => (prev_ts <? ag_ts a) && (ag_nonce a =? prev_nonce + 1) && chrono_ok (ag_ts a) (ag_nonce a) t
  end.
Definition qids_of (l : list aggr) : list Z :=
  fold_right (fun a acc => if existsb (Z.eqb (ag_qid a)) acc then acc else ag_qid a :: acc) [] l.
Definition store_spec (l : list aggr) : issues :=
  spec_if (forallb (fun q => chrono_ok 0 0 (hist q l)) (qids_of l))
          "timestamps of a query's aggregates do not strictly increase with sequence numbers counting up by one".

(* append-only: every aggregate of [before] is still there, unchanged except that it may have become
   flagged, and then only if a dispute/evidence message of this operation named its determining report *)
Definition unflag (a : aggr) : aggr :=
  {| ag_qid := ag_qid a; ag_ts := ag_ts a; ag_height := ag_height a; ag_nonce := ag_nonce a; ag_meta := ag_meta a;
     ag_reporters := ag_reporters a; ag_power := ag_power a; ag_flagged := false;
     ag_agg_reporter := ag_agg_reporter a; ag_micro_height := ag_micro_height a |}.

Definition kept_ok (flags : list (Z * Z * Z)) (after : list aggr) (a : aggr) : bool :=
  match find (fun b => agg_key_eq a b) after with
  | None => false
  | Some b =>
      agg_full_eqb a b
      || (negb (ag_flagged a) && ag_flagged b && agg_full_eqb (unflag a) (unflag b)
          && existsb (fun f => let '(q, rep, h) := f in (ag_qid a =? q) && (ag_agg_reporter a =? rep) && (ag_micro_height a =? h)) flags)
  end.

Definition c08_check (c : c08_case) : issues :=
  match c with
  | GetterCase l probes => store_spec l ++ flat_map (probe_check l) probes
  | AppendCase op before after flags =>
      spec_if (forallb (kept_ok flags after) before) ("a stored aggregate was altered or removed by " ++ op)
      ++ spec_if (forallb (fun b => existsb (fun a => agg_key_eq a b) before || negb (ag_flagged b)) after)
                 "a new aggregate was created flagged"
      (* the model's flag function explains the flagged set *)
      ++ diff_if (let m := fold_left (fun l f => let '(q, rep, h) := f in flag q rep h l) flags before in
                  forallb (fun a => match find (fun b => agg_key_eq a b) after with
                                    | Some b => Bool.eqb (ag_flagged a) (ag_flagged b) | None => false end) m
                  || negb (match flags with [] => false | _ => true end))
                 "flagged set after dispute/evidence"
  | SnapshotCase l snaps =>
      flat_map (fun sn => let '(q, t, prev, next) := sn in
        spec_if (match by_timestamp q t l with Some _ => true | None => false end) "attestation snapshot of a report that is not in the aggregate history"
        ++ spec_if (prev =? match ts_before q t l with Some x => x | None => 0 end)
                   "PrevReportTimestamp of an attestation snapshot is not the previous aggregate's timestamp"
        ++ spec_if (next =? match ts_after q t l with Some x => x | None => 0 end)
                   "NextReportTimestamp of an attestation snapshot is not the next aggregate's timestamp") snaps
  end.

Definition c08_classes (c : c08_case) : list string := [].
