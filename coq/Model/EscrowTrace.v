(* C04 — a checked refinement between the real application and the escrow machine of Model/Escrow.v.

   The trace driver (harness/c04_trace_test.go, TestC04Trace) runs histories of blocks on the full
   application and OBSERVES, after every operation and after every Begin/EndBlock:
     total supply, the oracle module balance, the map query -> unpaid tip (Query.Amount of the stored
     query rounds), the tips escrow pool balance, the map selector -> credit (SelectorTips, the 18-decimal
     value as an integer), the time based rewards pool balance, the fee collector balance, the sum of the
     two staking pool balances.
   From two consecutive observations it DERIVES the abstract operation of the machine:
     MsgTip q a            -> ETip q a              (q, a are the message's own arguments)
     BeginBlock            -> EMint p               (p = supply after - supply before)
     MsgWithdrawTip sel    -> EWithdrawTip sel
     MsgSubmitValue        -> no operation (the machine must not move)
     EndBlock              -> TPayBlock qs tbr delta n
        qs    = the queries whose unpaid tip was positive before and changed (derived from the two owed maps)
        tbr   = the reward pool balance changed (derived)
        delta = credit after - credit before, per selector (derived; the credits of the single payouts
                inside one EndBlock cannot be observed from outside)
        n     = number of credit entries the payouts wrote (derived from the aggregates made in the block:
                token origins of every paid reporter + 1 per reporter with a commission rate <> 0)
   This file replays the operations with [estep] and compares EVERY projected field with the observation
   after EVERY step.  The block operation is DEFINED as a sequence of EPayTip / EPayTbr steps of the
   existing machine (one per paid query, then the time based rewards), whose credit lists are cut out of
   [delta] front to back: each payout but the last takes exactly its amount, the last takes the rest and
   is padded with zero credits up to n entries (n is the rounding allowance of the whole block). *)
From Coq Require Import ZArith List Bool String.
From Verif Require Import Base.Harness Base.Dec Model.Escrow.
Import ListNotations.
Open Scope Z_scope.

(* ---- maps as association lists: canonical form = zero entries dropped, sorted by key ---------------- *)
Fixpoint kv_insert (x : Z * Z) (l : list (Z * Z)) : list (Z * Z) :=
  match l with
  | [] => [x]
  | y :: t => if fst x <=? fst y then x :: l else y :: kv_insert x t
  end.
Definition kv_nonzero (x : Z * Z) : bool := negb (snd x =? 0).
Definition canon (l : list (Z * Z)) : list (Z * Z) := fold_right kv_insert [] (filter kv_nonzero l).
Definition kv_eqb (a b : list (Z * Z)) : bool :=
  list_eqb (fun x y => (fst x =? fst y) && (snd x =? snd y)) a b.

(* ---- what the driver observes on the real application ------------------------------------------------ *)
Record tobs := TObs {
  ob_supply : Z;
  ob_oracle : Z;
  ob_owed : list (Z * Z);       (* query -> unpaid tip *)
  ob_tips : Z;
  ob_credits : list (Z * Z);    (* selector -> credit * 10^18 *)
  ob_tbr : Z;
  ob_feecoll : Z;
  ob_pools : Z                  (* bonded + not-bonded pool *)
}.

Definition ob_canon (o : tobs) : tobs :=
  {| ob_supply := ob_supply o; ob_oracle := ob_oracle o; ob_owed := canon (ob_owed o); ob_tips := ob_tips o;
     ob_credits := canon (ob_credits o); ob_tbr := ob_tbr o; ob_feecoll := ob_feecoll o; ob_pools := ob_pools o |}.

(* the machine state projected to the observed fields ([e_users] is fixed by the others through the supply
   identity of the invariant; [e_credit_ops] is a ghost counter without counterpart in the store) *)
Definition tproj (s : estate) : tobs :=
  {| ob_supply := e_supply s; ob_oracle := e_oracle s; ob_owed := canon (e_owed s); ob_tips := e_tips s;
     ob_credits := canon (e_credits s); ob_tbr := e_tbr s; ob_feecoll := e_feecoll s; ob_pools := e_bonded s |}.

(* the abstract state a trace starts in: the first observation; everything outside the tracked accounts is
   [e_users]; ops0 = credit entries written before the trace starts *)
Definition tinit (o : tobs) (ops0 : Z) : estate :=
  {| e_supply := ob_supply o;
     e_users := ob_supply o - (ob_oracle o + ob_tips o + ob_tbr o + ob_feecoll o + ob_pools o);
     e_oracle := ob_oracle o; e_owed := canon (ob_owed o); e_tips := ob_tips o; e_credits := canon (ob_credits o);
     e_credit_ops := ops0; e_tbr := ob_tbr o; e_feecoll := ob_feecoll o; e_bonded := ob_pools o |}.

(* ---- the block operation: the payouts of one EndBlock -------------------------------------------------- *)
(* a payout target: Some q = the tip of query q, None = the time based rewards *)
Definition pay_targets (qs : list Z) (tbr : bool) : list (option Z) :=
  map Some qs ++ (if tbr then [None] else []).
Definition pay_amount (s : estate) (t : option Z) : Z :=
  match t with Some q => owed_get q (e_owed s) | None => e_tbr s end.
Definition pay_op (t : option Z) (cs : list (Z * Z)) : eop :=
  match t with Some q => EPayTip q cs | None => EPayTbr cs end.

(* cut credits worth exactly [need] off the front of a credit list (the entry that crosses the boundary is
   cut in two); (taken, rest) *)
Fixpoint take_amount (need : Z) (cs : list (Z * Z)) : list (Z * Z) * list (Z * Z) :=
  match cs with
  | [] => ([], [])
  | x :: t =>
      if need <=? 0 then ([], cs)
      else if snd x <=? need then let ab := take_amount (need - snd x) t in (x :: fst ab, snd ab)
      else ([(fst x, need)], (fst x, snd x - need) :: t)
  end.

(* k further credits of zero for a selector that is already in the list: they change no credit, they only
   count as entries (rounding allowance) *)
Definition pad (k : nat) (cs : list (Z * Z)) : list (Z * Z) :=
  match cs with [] => [] | x :: _ => cs ++ repeat (fst x, 0) k end.

Fixpoint block_ops (s : estate) (ts : list (option Z)) (cs : list (Z * Z)) (n : nat) : list eop :=
  match ts with
  | [] => []
  | t :: ts' =>
      match ts' with
      | [] => [pay_op t (pad (n - List.length cs) cs)]
      | _ :: _ => let ab := take_amount (pay_amount s t * P) cs in
                  pay_op t (fst ab) :: block_ops s ts' (snd ab) (n - List.length (fst ab))
      end
  end.

(* every step must be a step of the machine *)
Fixpoint erun_strict (ops : list eop) (s : estate) : option estate :=
  match ops with
  | [] => Some s
  | o :: t => match estep s o with Some s' => erun_strict t s' | None => None end
  end.

Definition epay_block (qs : list Z) (tbr : bool) (delta : list (Z * Z)) (n : Z) (s : estate) : option estate :=
  erun_strict (block_ops s (pay_targets qs tbr) delta (Z.to_nat n)) s.

(* ---- trace operations ------------------------------------------------------------------------------------ *)
Inductive top :=
| TOp (o : eop)                                                      (* a message / BeginBlock: one machine operation *)
| TPayBlock (qs : list Z) (tbr : bool) (delta : list (Z * Z)) (n : Z) (* EndBlock *)
| TSkip.                                                             (* a message the machine has no operation for *)

Definition tstep_fn (s : estate) (o : top) : option estate :=
  match o with
  | TOp e => estep s e
  | TPayBlock qs tbr delta n => epay_block qs tbr delta n s
  | TSkip => Some s
  end.
Definition tstep_total (s : estate) (o : top) : estate := match tstep_fn s o with Some s' => s' | None => s end.

(* the machine operations a trace operation stands for, in the state it is applied to *)
Definition tflat (s : estate) (o : top) : list eop :=
  match o with
  | TOp e => [e]
  | TPayBlock qs tbr delta n =>
      match epay_block qs tbr delta n s with
      | Some _ => block_ops s (pay_targets qs tbr) delta (Z.to_nat n)
      | None => []
      end
  | TSkip => []
  end.

(* the states a list of trace operations runs through *)
Fixpoint trun (s : estate) (ops : list top) : list estate :=
  match ops with
  | [] => []
  | o :: t => tstep_total s o :: trun (tstep_total s o) t
  end.

(* the machine operations of a whole trace *)
Fixpoint tflat_all (s : estate) (ops : list top) : list eop :=
  match ops with
  | [] => []
  | o :: t => tflat s o ++ tflat_all (tstep_total s o) t
  end.

Definition is_payout (o : eop) : Prop :=
  match o with EPayTip _ _ | EPayTbr _ => True | _ => False end.

(* ---- cases ------------------------------------------------------------------------------------------------- *)
(* the observation after a step is written as the list of the fields that differ from the observation before
   it (the driver compares the two observations field by field; a field that is not listed was observed
   unchanged) *)
Inductive tupd :=
| USupply (v : Z) | UOracle (v : Z) | UOwed (l : list (Z * Z)) | UTips (v : Z)
| UCredits (l : list (Z * Z)) | UTbr (v : Z) | UFeecoll (v : Z) | UPools (v : Z).

Definition upd1 (o : tobs) (u : tupd) : tobs :=
  match u with
  | USupply v => {| ob_supply := v; ob_oracle := ob_oracle o; ob_owed := ob_owed o; ob_tips := ob_tips o;
                    ob_credits := ob_credits o; ob_tbr := ob_tbr o; ob_feecoll := ob_feecoll o; ob_pools := ob_pools o |}
  | UOracle v => {| ob_supply := ob_supply o; ob_oracle := v; ob_owed := ob_owed o; ob_tips := ob_tips o;
                    ob_credits := ob_credits o; ob_tbr := ob_tbr o; ob_feecoll := ob_feecoll o; ob_pools := ob_pools o |}
  | UOwed l => {| ob_supply := ob_supply o; ob_oracle := ob_oracle o; ob_owed := l; ob_tips := ob_tips o;
                  ob_credits := ob_credits o; ob_tbr := ob_tbr o; ob_feecoll := ob_feecoll o; ob_pools := ob_pools o |}
  | UTips v => {| ob_supply := ob_supply o; ob_oracle := ob_oracle o; ob_owed := ob_owed o; ob_tips := v;
                  ob_credits := ob_credits o; ob_tbr := ob_tbr o; ob_feecoll := ob_feecoll o; ob_pools := ob_pools o |}
  | UCredits l => {| ob_supply := ob_supply o; ob_oracle := ob_oracle o; ob_owed := ob_owed o; ob_tips := ob_tips o;
                     ob_credits := l; ob_tbr := ob_tbr o; ob_feecoll := ob_feecoll o; ob_pools := ob_pools o |}
  | UTbr v => {| ob_supply := ob_supply o; ob_oracle := ob_oracle o; ob_owed := ob_owed o; ob_tips := ob_tips o;
                 ob_credits := ob_credits o; ob_tbr := v; ob_feecoll := ob_feecoll o; ob_pools := ob_pools o |}
  | UFeecoll v => {| ob_supply := ob_supply o; ob_oracle := ob_oracle o; ob_owed := ob_owed o; ob_tips := ob_tips o;
                     ob_credits := ob_credits o; ob_tbr := ob_tbr o; ob_feecoll := v; ob_pools := ob_pools o |}
  | UPools v => {| ob_supply := ob_supply o; ob_oracle := ob_oracle o; ob_owed := ob_owed o; ob_tips := ob_tips o;
                   ob_credits := ob_credits o; ob_tbr := ob_tbr o; ob_feecoll := ob_feecoll o; ob_pools := v |}
  end.
Definition upd (o : tobs) (us : list tupd) : tobs := fold_left upd1 us o.

(* one step of a trace: the derived operation, whether the real chain accepted it (a rejected message leaves
   the real state as it was), what the observation after it changed *)
Inductive tstep := TStep (o : top) (accepted : bool) (changed : list tupd).
Definition ts_op (x : tstep) : top := let 'TStep o _ _ := x in o.
Definition ts_accepted (x : tstep) : bool := let 'TStep _ a _ := x in a.
Definition ts_changed (x : tstep) : list tupd := let 'TStep _ _ c := x in c.

(* the observations after the steps of a trace *)
Fixpoint tobserved (prev : tobs) (steps : list tstep) : list tobs :=
  match steps with
  | [] => []
  | x :: t => upd prev (ts_changed x) :: tobserved (upd prev (ts_changed x)) t
  end.

Inductive c04t_case := C04T (init : tobs) (ops0 : Z) (steps : list tstep).

(* a report has no operation in the machine, accepted or not: only the other operations carry a verdict *)
Definition has_verdict (o : top) : bool := match o with TSkip => false | _ => true end.

Definition is_some {A} (x : option A) : bool := match x with Some _ => true | None => false end.

(* the real chain and the machine agree on which operations are possible *)
Fixpoint verdicts_agree (s : estate) (steps : list tstep) : Prop :=
  match steps with
  | [] => True
  | x :: t => (ts_op x <> TSkip -> ts_accepted x = is_some (tstep_fn s (ts_op x)))
              /\ verdicts_agree (tstep_total s (ts_op x)) t
  end.

Definition top_name (o : top) : string :=
  match o with
  | TOp (ETip _ _) => "Tip"
  | TOp (EPayTip _ _) => "PayTip"
  | TOp (EPayTbr _) => "PayTbr"
  | TOp (EWithdrawTip _) => "WithdrawTip"
  | TOp (EMint _) => "BeginBlock"
  | TPayBlock _ _ _ _ => "EndBlock"
  | TSkip => "SubmitValue"
  end.

(* machine state against observation, field by field *)
Definition tcmp (name : string) (s : estate) (o : tobs) : issues :=
  diff_if (e_supply s =? ob_supply o) ("e_supply after " ++ name)
  ++ diff_if (e_oracle s =? ob_oracle o) ("e_oracle after " ++ name)
  ++ diff_if (kv_eqb (canon (e_owed s)) (canon (ob_owed o))) ("e_owed after " ++ name)
  ++ diff_if (e_tips s =? ob_tips o) ("e_tips after " ++ name)
  ++ diff_if (kv_eqb (canon (e_credits s)) (canon (ob_credits o))) ("e_credits after " ++ name)
  ++ diff_if (e_tbr s =? ob_tbr o) ("e_tbr after " ++ name)
  ++ diff_if (e_feecoll s =? ob_feecoll o) ("e_feecoll after " ++ name)
  ++ diff_if (e_bonded s =? ob_pools o) ("e_bonded (staking pools) after " ++ name).

(* the property on the observed state itself; k = credit entries written so far (the machine's counter) *)
Definition tspec (k : Z) (o : tobs) : issues :=
  spec_if (ob_oracle o =? owed_sum (ob_owed o)) "oracle account differs from the sum of unpaid tips on open queries"
  ++ spec_if (forallb (fun c => 0 <=? snd c) (ob_credits o)) "a selector's credit is negative"
  ++ spec_if (floor_sum (ob_credits o) <=? ob_tips o) "tips escrow pool holds less than the whole-unit credits of the selectors"
  ++ spec_if (sum_snd (ob_credits o) <=? ob_tips o * P + k)
             "the credits exceed what was paid into the tips escrow pool (beyond 10^-18 per credit entry)".

(* the invariant of Proofs/EscrowProofs.v as a boolean *)
Definition einv_b (s : estate) : bool :=
  (e_oracle s =? owed_sum (e_owed s))
  && (sum_snd (e_credits s) <=? e_tips s * P + e_credit_ops s)
  && (e_tips s * P - e_credit_ops s <=? sum_snd (e_credits s))
  && forallb (fun c => 0 <=? snd c) (e_credits s)
  && forallb (fun c => 0 <=? snd c) (e_owed s)
  && (0 <=? e_credit_ops s) && (0 <=? e_tbr s)
  && (e_supply s =? e_users s + e_oracle s + e_tips s + e_tbr s + e_feecoll s + e_bonded s).

Fixpoint c04t_walk (s : estate) (prev : tobs) (steps : list tstep) : issues :=
  match steps with
  | [] => []
  | TStep o acc changed :: t =>
      let r := tstep_fn s o in
      let s' := tstep_total s o in
      let after := upd prev changed in
      (if negb (has_verdict o) then []
       else if acc
       then diff_if (is_some r) ("the machine has no step for an operation the chain accepted: " ++ top_name o)
       else diff_if (negb (is_some r)) ("the machine steps on an operation the chain rejected: " ++ top_name o))
      ++ tcmp (top_name o) s' after
      ++ tspec (e_credit_ops s') after
      ++ c04t_walk s' after t
  end.

Definition c04t_check (c : c04t_case) : issues :=
  let 'C04T init ops0 steps := c in
  spec_if (einv_b (tinit init ops0)) "the initial state violates the escrow invariant"
  ++ c04t_walk (tinit init ops0) init steps.

(* finding F06 (C09): a commission rate outside [0,1] makes a selector's credit negative *)
Definition c04t_classes (c : c04t_case) : list string :=
  let 'C04T init ops0 steps := c in
  if forallb (fun o => forallb (fun c => 0 <=? snd c) (ob_credits o)) (tobserved init steps) then [] else ["F06"%string].
