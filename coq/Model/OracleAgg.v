(* C06 / C01 — model of x/oracle/keeper/weighted_median.go and weighted_mode.go.

   A micro report is projected to (reporter id, power, value string, block number); the Go
   harness names reporter i "reporter<i>".  Powers are uint64 in Go; the model is exact for
   total power < 2^63 (the property's range), where none of the int64/uint64 casts wraps.
   Values are Go strings (here: Coq strings of the same bytes). *)
From Coq Require Import ZArith List Bool String Ascii.
From Verif Require Import Base.Harness.
Import ListNotations.
Open Scope Z_scope.

Record mreport := { r_who : Z; r_pw : Z; r_value : string; r_blk : Z }.

Record aggregate := {
  a_value : string; a_reporter : Z; a_power : Z; a_index : Z; a_micro : Z;
  a_reporters : list (Z * Z * Z)            (* (reporter, power, block) in stored order *)
}.

(* ---- big.Int.SetString(s, 16): optional sign, at least one hex digit, nothing else ---- *)
Definition hexdigit (c : ascii) : option Z :=
  let n := Z.of_N (N_of_ascii c) in
  if (48 <=? n) && (n <=? 57) then Some (n - 48)
  else if (97 <=? n) && (n <=? 102) then Some (n - 87)
  else if (65 <=? n) && (n <=? 70) then Some (n - 55)
  else None.

Fixpoint parse_digits (s : string) (acc : Z) : option Z :=
  match s with
  | EmptyString => Some acc
  | String c r => match hexdigit c with Some d => parse_digits r (acc * 16 + d) | None => None end
  end.

Definition parse16 (s : string) : option Z :=
  match s with
  | EmptyString => None
  | String c r =>
      if Ascii.eqb c "+"%char then (match r with EmptyString => None | _ => parse_digits r 0 end)
      else if Ascii.eqb c "-"%char then (match r with EmptyString => None | _ => option_map Z.opp (parse_digits r 0) end)
      else parse_digits s 0
  end.

(* ---- weighted median ------------------------------------------------------------------- *)
Record rep := { who : Z; pw : Z; val : Z; sval : string; blk : Z }.

Fixpoint to_reps (rs : list mreport) : option (list rep) :=
  match rs with
  | [] => Some []
  | r :: t =>
      match parse16 (r_value r), to_reps t with
      | Some v, Some l => Some ({| who := r_who r; pw := r_pw r; val := v; sval := r_value r; blk := r_blk r |} :: l)
      | _, _ => None
      end
  end.

Fixpoint sumpw (l : list rep) : Z := match l with [] => 0 | r :: t => pw r + sumpw t end.

(* sort.SliceStable with less(i,j) = val_i < val_j: the stable sort (insertion sort) *)
Fixpoint insert (r : rep) (l : list rep) : list rep :=
  match l with
  | [] => [r]
  | x :: t => if val r <=? val x then r :: x :: t else x :: insert r t
  end.
Definition ssort (l : list rep) : list rep := fold_right insert [] l.

(* the scan: first index whose cumulative power reaches half of the total
   (cumulative.BigInt() >= (total/2).BigInt() on 18-decimal Decs  <=>  total <= 2*cumulative) *)
Fixpoint pick (T cum : Z) (i : Z) (l : list rep) : option (Z * rep) :=
  match l with
  | [] => None
  | x :: t => if T <=? 2 * (cum + pw x) then Some (i, x) else pick T (cum + pw x) (i + 1) t
  end.

Definition proj (r : rep) : Z * Z * Z := (who r, pw r, blk r).

Definition wmedian_reps (l : list rep) : aggregate :=
  let s := ssort l in
  match pick (sumpw l) 0 0 s with
  | Some (i, x) => {| a_value := sval x; a_reporter := who x; a_power := sumpw l; a_index := i;
                      a_micro := blk x; a_reporters := map proj s |}
  | None => {| a_value := ""; a_reporter := -1; a_power := 0; a_index := 0; a_micro := 0;
               a_reporters := map proj s |}
  end.

(* None = `failed to parse value` *)
Definition weighted_median (rs : list mreport) : option aggregate :=
  option_map wmedian_reps (to_reps rs).

(* ---- weighted mode --------------------------------------------------------------------- *)
Fixpoint weight_of (v : string) (rs : list mreport) : Z :=
  match rs with
  | [] => 0
  | r :: t => (if String.eqb (r_value r) v then r_pw r else 0) + weight_of v t
  end.

(* the `range frequencyMap` loop; [order] = the iteration order of the Go map's keys.
   tie_fix = true : on equal frequency the byte-wise smaller value wins (after the fix of F01);
   tie_fix = false: strict >, i.e. the first maximal key in iteration order (code as found) *)
Definition mode_step (tie_fix : bool) (rs : list mreport) (acc : Z * string) (v : string) : Z * string :=
  let f := weight_of v rs in
  if (fst acc <? f) || (tie_fix && (f =? fst acc) && String.ltb v (snd acc)) then (f, v) else acc.

Definition mode_value (tie_fix : bool) (order : list string) (rs : list mreport) : string :=
  snd (fold_left (mode_step tie_fix rs) order (0, ""%string)).

(* distinct values with non-zero power, in first-occurrence order: one admissible key order *)
Fixpoint distinct_values (rs : list mreport) (seen : list string) : list string :=
  match rs with
  | [] => []
  | r :: t => if existsb (String.eqb (r_value r)) seen || (r_pw r <=? 0) then distinct_values t seen
              else r_value r :: distinct_values t (r_value r :: seen)
  end.

(* most powerful reporter of the mode value, the first one on equal power *)
Fixpoint mode_reporter (mode : string) (rs : list mreport) (i : Z) (best : Z * option mreport * Z)
  : Z * option mreport * Z :=
  match rs with
  | [] => best
  | r :: t =>
      let '(maxw, br, bi) := best in
      if String.eqb mode (r_value r) && (maxw <? r_pw r)
      then mode_reporter mode t (i + 1) (r_pw r, Some r, i)
      else mode_reporter mode t (i + 1) best
  end.

Fixpoint sum_power (rs : list mreport) : Z := match rs with [] => 0 | r :: t => r_pw r + sum_power t end.

Definition mproj (r : mreport) : Z * Z * Z := (r_who r, r_pw r, r_blk r).

(* None = ErrNoReportsToAggregate *)
Definition weighted_mode (tie_fix : bool) (order : list string) (rs : list mreport) : option aggregate :=
  match rs with
  | [] => None
  | _ =>
    let mode := mode_value tie_fix order rs in
    let '(_, br, bi) := mode_reporter mode rs 0 (0, None, 0) in
    Some match br with
         | Some r => {| a_value := r_value r; a_reporter := r_who r; a_power := sum_power rs; a_index := bi;
                        a_micro := r_blk r; a_reporters := map mproj rs |}
         | None => {| a_value := ""; a_reporter := -1; a_power := sum_power rs; a_index := 0;
                      a_micro := 0; a_reporters := map mproj rs |}
         end
  end.

Definition weighted_mode_exec (rs : list mreport) : option aggregate :=
  weighted_mode true (distinct_values rs []) rs.

(* ---- executable specification (the property, on an arbitrary claimed aggregate) -------- *)
Fixpoint pow_lt_s (rs : list mreport) (v : Z) : Z :=
  match rs with [] => 0 | r :: t =>
    (match parse16 (r_value r) with Some x => if x <? v then r_pw r else 0 | None => 0 end) + pow_lt_s t v end.
Fixpoint pow_le_s (rs : list mreport) (v : Z) : Z :=
  match rs with [] => 0 | r :: t =>
    (match parse16 (r_value r) with Some x => if x <=? v then r_pw r else 0 | None => 0 end) + pow_le_s t v end.

Definition triple_eqb (a b : Z * Z * Z) : bool :=
  let '(a1, a2, a3) := a in let '(b1, b2, b3) := b in (a1 =? b1) && (a2 =? b2) && (a3 =? b3).

(* multiset equality of the reporter lists (each report listed exactly once) *)
Fixpoint remove_one (x : Z * Z * Z) (l : list (Z * Z * Z)) : option (list (Z * Z * Z)) :=
  match l with
  | [] => None
  | y :: t => if triple_eqb x y then Some t else option_map (cons y) (remove_one x t)
  end.
Fixpoint same_multiset (a b : list (Z * Z * Z)) : bool :=
  match a with
  | [] => match b with [] => true | _ => false end
  | x :: t => match remove_one x b with Some b' => same_multiset t b' | None => false end
  end.

Definition reporter_reported (rs : list mreport) (a : aggregate) : bool :=
  existsb (fun r => (r_who r =? a_reporter a) && String.eqb (r_value r) (a_value a) && (r_blk r =? a_micro a)) rs.

Definition index_points (a : aggregate) : bool :=
  match nth_error (a_reporters a) (Z.to_nat (a_index a)) with
  | Some (w, _, _) => (0 <=? a_index a) && (w =? a_reporter a)
  | None => false
  end.

Definition common_spec (rs : list mreport) (a : aggregate) : issues :=
  spec_if (a_power a =? sum_power rs) "aggregate power is not the sum of the reporters' powers"
  ++ spec_if (same_multiset (map mproj rs) (a_reporters a)) "aggregate does not list every report exactly once"
  ++ spec_if (reporter_reported rs a) "aggregate reporter did not report the chosen value"
  ++ spec_if (index_points a) "aggregate report index does not point to the aggregate reporter".

Definition median_spec (rs : list mreport) (a : aggregate) : issues :=
  match parse16 (a_value a) with
  | None => [Spec "median value does not parse"]
  | Some v =>
      spec_if (2 * pow_lt_s rs v <=? sum_power rs) "reports with strictly smaller values hold more than half of the power"
      ++ spec_if (sum_power rs <=? 2 * pow_le_s rs v) "reports with values up to the median hold less than half of the power"
  end ++ common_spec rs a.

Definition max_weight (rs : list mreport) : Z :=
  fold_right (fun r m => Z.max (weight_of (r_value r) rs) m) 0 rs.

Definition mode_spec (rs : list mreport) (a : aggregate) : issues :=
  spec_if (weight_of (a_value a) rs =? max_weight rs) "mode value does not hold maximal power"
  ++ common_spec rs a.

(* ---- correspondence cases ---------------------------------------------------------------- *)
Definition aggregate_eqb (a b : aggregate) : bool :=
  String.eqb (a_value a) (a_value b) && (a_reporter a =? a_reporter b) && (a_power a =? a_power b)
  && (a_index a =? a_index b) && (a_micro a =? a_micro b)
  && list_eqb triple_eqb (a_reporters a) (a_reporters b).

Definition opt_agg_eqb (a b : option aggregate) : bool :=
  match a, b with Some x, Some y => aggregate_eqb x y | None, None => true | _, _ => false end.

Definition all_parse (rs : list mreport) : bool :=
  forallb (fun r => match parse16 (r_value r) with Some _ => true | None => false end) rs.

Definition has_mode_tie (rs : list mreport) : bool :=
  let m := max_weight rs in
  match filter (fun v => weight_of v rs =? m) (distinct_values rs []) with
  | _ :: _ :: _ => true
  | _ => false
  end.

Inductive c06_case :=
| MedianCase (rs : list mreport) (impl : option aggregate)
(* the real WeightedMode was called [length impls] times on the same input (Go re-randomises
   map iteration on every range): the distinct answers are listed *)
| ModeCase (rs : list mreport) (impls : list (option aggregate)).

Definition c06_check (c : c06_case) : issues :=
  match c with
  | MedianCase rs impl =>
      (match impl, rs with
       | Some a, _ :: _ => if all_parse rs then median_spec rs a else []
       | _, _ => []
       end)
      ++ diff_if (opt_agg_eqb (weighted_median rs) impl) "weighted median aggregate"
  | ModeCase rs impls =>
      flat_map (fun impl => match impl, rs with Some a, _ :: _ => mode_spec rs a | _, _ => [] end) impls
      ++ diff_if (forallb (opt_agg_eqb (weighted_mode_exec rs)) impls) "weighted mode aggregate"
  end.

(* finding F01 (C01): two values share the maximal total power *)
Definition c06_classes (c : c06_case) : list string :=
  match c with
  | ModeCase rs _ => if has_mode_tie rs then ["F01"%string] else []
  | _ => []
  end.
