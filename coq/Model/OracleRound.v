(* C07 / C08 — executable model of the oracle round state machine:
   x/oracle/keeper/{msg_server_tip, msg_server_submit_value, submit_value, token_bridge_deposit,
   token_bridge_withdrawal_blocker, aggregate (SetAggregatedReport, SetAggregate and the getters),
   cycle_list, msg_update_cyclelist, keeper (InitializeQuery, CurrentQuery, UpdateQuery,
   FlagAggregateReport)}.go

   Query ids are numbered by the byte order of the real ids (the harness ranks them), reporters by
   the byte order of their addresses: collections iterate in key order, so lists sorted by these
   numbers are the stores.  What the model does NOT compute is passed in per operation by the
   harness from an independent source: the reporter's stake (C10's object), whether the tipper can
   pay, the aggregate value (C06's object, model in OracleAgg.v — here only which reports enter). *)
From Coq Require Import ZArith List Bool String.
From Verif Require Import Base.Harness.
Import ListNotations.
Open Scope Z_scope.

Inductive qkind := KSpot | KDeposit | KWithdraw | KGarbage | KNoSpec.

Record qinfo := { qi_id : Z; qi_kind : qkind }.          (* static facts about a query data string *)

Record qmeta := {
  m_qid : Z; m_id : Z; m_amount : Z; m_expiration : Z; m_window : Z;
  m_has_reports : bool; m_cycle : bool; m_bridge_type : bool   (* QueryType = "TRBBridge" set only by the deposit path *)
}.

Record report := { rp_qid : Z; rp_reporter : Z; rp_meta : Z; rp_power : Z; rp_cycle : bool; rp_height : Z }.

Record aggr := { ag_qid : Z; ag_ts : Z; ag_height : Z; ag_nonce : Z; ag_meta : Z;
                 ag_reporters : list Z; ag_power : Z; ag_flagged : bool;
                 ag_agg_reporter : Z; ag_micro_height : Z }.

Record ostate := {
  o_queries : list qmeta;        (* sorted by (qid, id) *)
  o_reports : list report;       (* sorted by (qid, reporter, meta) *)
  o_cycle : list Z;              (* cycle list: query ids in key order *)
  o_seq : Z;
  o_next_meta : Z;
  o_aggs : list aggr;            (* sorted by (qid, ts) *)
  o_nonces : list (Z * Z);
  o_spot_window : Z;             (* registry: ReportBlockWindow of the spot price spec *)
  o_bridge_window : Z            (* registry: ReportBlockWindow of the TRBBridge spec *)
}.

(* ---- ordered stores ------------------------------------------------------------------------- *)
(* Set on a collection kept as a list sorted by key: replace the entry with an equal key, else insert
   before the first greater entry *)
Fixpoint sset {A} (lt keq : A -> A -> bool) (x : A) (l : list A) : list A :=
  match l with
  | [] => [x]
  | y :: t => if keq x y then x :: t else if lt x y then x :: y :: t else y :: sset lt keq x t
  end.

Definition meta_lt (a b : qmeta) : bool := (m_qid a <? m_qid b) || ((m_qid a =? m_qid b) && (m_id a <? m_id b)).
Definition meta_key_eq (a b : qmeta) : bool := (m_qid a =? m_qid b) && (m_id a =? m_id b).

Definition meta_set : qmeta -> list qmeta -> list qmeta := sset meta_lt meta_key_eq.
Definition meta_remove (qid id : Z) (l : list qmeta) : list qmeta :=
  filter (fun y => negb ((m_qid y =? qid) && (m_id y =? id))) l.

(* CurrentQuery: the meta with the greatest id for this query id *)
Definition current_query (qid : Z) (l : list qmeta) : option qmeta :=
  fold_left (fun acc y => if m_qid y =? qid then Some y else acc) l None.

Definition rep_lt (a b : report) : bool :=
  (rp_qid a <? rp_qid b)
  || ((rp_qid a =? rp_qid b) && ((rp_reporter a <? rp_reporter b)
      || ((rp_reporter a =? rp_reporter b) && (rp_meta a <? rp_meta b)))).
Definition rep_key_eq (a b : report) : bool :=
  (rp_qid a =? rp_qid b) && (rp_reporter a =? rp_reporter b) && (rp_meta a =? rp_meta b).
Definition rep_set : report -> list report -> list report := sset rep_lt rep_key_eq.

Definition agg_lt (a b : aggr) : bool := (ag_qid a <? ag_qid b) || ((ag_qid a =? ag_qid b) && (ag_ts a <? ag_ts b)).
Definition agg_key_eq (a b : aggr) : bool := (ag_qid a =? ag_qid b) && (ag_ts a =? ag_ts b).
Definition agg_set : aggr -> list aggr -> list aggr := sset agg_lt agg_key_eq.

Fixpoint nonce_get (q : Z) (l : list (Z * Z)) : Z :=
  match l with [] => 0 | x :: t => if fst x =? q then snd x else nonce_get q t end.
Fixpoint nonce_set (q v : Z) (l : list (Z * Z)) : list (Z * Z) :=
  match l with [] => [(q, v)] | x :: t => if fst x =? q then (q, v) :: t else x :: nonce_set q v t end.

Definition with_queries (s : ostate) (q : list qmeta) : ostate :=
  {| o_queries := q; o_reports := o_reports s; o_cycle := o_cycle s; o_seq := o_seq s; o_next_meta := o_next_meta s;
     o_aggs := o_aggs s; o_nonces := o_nonces s; o_spot_window := o_spot_window s; o_bridge_window := o_bridge_window s |}.

(* ---- InitializeQuery ----------------------------------------------------------------------------- *)
Definition spec_window (s : ostate) (k : qkind) : option Z :=
  match k with
  | KSpot => Some (o_spot_window s)
  | KDeposit | KWithdraw => Some (o_bridge_window s)
  | KGarbage | KNoSpec => None
  end.

(* returns the fresh meta (id from the query sequencer) and the state with the sequencer advanced *)
Definition initialize_query (s : ostate) (q : qinfo) : option (qmeta * ostate) :=
  match spec_window s (qi_kind q) with
  | None => None
  | Some w =>
      Some ({| m_qid := qi_id q; m_id := o_next_meta s; m_amount := 0; m_expiration := 0; m_window := w;
               m_has_reports := false; m_cycle := false; m_bridge_type := false |},
            {| o_queries := o_queries s; o_reports := o_reports s; o_cycle := o_cycle s; o_seq := o_seq s;
               o_next_meta := o_next_meta s + 1; o_aggs := o_aggs s; o_nonces := o_nonces s;
               o_spot_window := o_spot_window s; o_bridge_window := o_bridge_window s |})
  end.

Definition set_amount_exp (m : qmeta) (amount exp : Z) (cycle : bool) : qmeta :=
  {| m_qid := m_qid m; m_id := m_id m; m_amount := amount; m_expiration := exp; m_window := m_window m;
     m_has_reports := m_has_reports m; m_cycle := cycle; m_bridge_type := m_bridge_type m |}.

(* ---- MsgTip (tip = amount after the 2 % burn; the bank part is C04's) ----------------------------- *)
Definition tip (s : ostate) (h : Z) (q : qinfo) (tip_amount : Z) : option ostate :=
  match current_query (qi_id q) (o_queries s) with
  | Some m =>
      let amount := m_amount m + tip_amount in
      let m' := if m_expiration m <? h then set_amount_exp m amount (h + m_window m) false
                else set_amount_exp m amount (m_expiration m) (m_cycle m) in
      Some (with_queries s (meta_set m' (o_queries s)))
  | None =>
      match initialize_query s q with
      | None => None
      | Some (m, s1) =>
          let exp := h + m_window m in
          (* the freshly initialised expiration can never be below the height *)
          Some (with_queries s1 (meta_set (set_amount_exp m tip_amount exp false) (o_queries s1)))
      end
  end.

(* ---- MsgSubmitValue ------------------------------------------------------------------------------- *)
Inductive reject :=
| RWithdrawal | RBadQuery | RStake | RNotDeposit | RNoTipNotCycle | RExpired | RValue.

Definition set_value (s : ostate) (h : Z) (m : qmeta) (reporter power : Z) (incycle value_ok : bool) : ostate + reject :=
  if negb value_ok then inr RValue else
  let m' := {| m_qid := m_qid m; m_id := m_id m; m_amount := m_amount m; m_expiration := m_expiration m; m_window := m_window m;
               m_has_reports := true; m_cycle := m_cycle m; m_bridge_type := m_bridge_type m |} in
  let r := {| rp_qid := m_qid m; rp_reporter := reporter; rp_meta := m_id m; rp_power := power; rp_cycle := incycle; rp_height := h |} in
  inl {| o_queries := meta_set m' (o_queries s); o_reports := rep_set r (o_reports s); o_cycle := o_cycle s; o_seq := o_seq s;
         o_next_meta := o_next_meta s; o_aggs := o_aggs s; o_nonces := o_nonces s;
         o_spot_window := o_spot_window s; o_bridge_window := o_bridge_window s |}.

(* HandleBridgeDepositDirectReveal *)
Definition deposit_reveal (s : ostate) (h : Z) (m : qmeta) (reporter power : Z) (value_ok : bool) : ostate + reject :=
  let '(m1, s1) :=
    if (m_amount m =? 0) && (m_expiration m <=? h)
    then (* a new round id; the old meta stays in the store *)
         ({| m_qid := m_qid m; m_id := o_next_meta s; m_amount := m_amount m; m_expiration := h + m_window m; m_window := m_window m;
             m_has_reports := m_has_reports m; m_cycle := m_cycle m; m_bridge_type := m_bridge_type m |},
          {| o_queries := o_queries s; o_reports := o_reports s; o_cycle := o_cycle s; o_seq := o_seq s;
             o_next_meta := o_next_meta s + 1; o_aggs := o_aggs s; o_nonces := o_nonces s;
             o_spot_window := o_spot_window s; o_bridge_window := o_bridge_window s |})
    else if (0 <? m_amount m) && (m_expiration m <=? h)
    then (set_amount_exp m (m_amount m) (h + m_window m) (m_cycle m), s)
    else (m, s) in
  if m_expiration m1 <? h then inr RExpired else set_value s1 h m1 reporter power true value_ok.

(* stake: None = ReporterStake failed (no such reporter, jailed, ...) *)
Definition submit_value (s : ostate) (h : Z) (q : qinfo) (reporter : Z) (stake : option Z) (min_stake : Z) (value_ok : bool)
  : ostate + reject :=
  match qi_kind q with
  | KGarbage => inr RBadQuery
  | KWithdraw => inr RWithdrawal
  | k =>
    let is_deposit := match k with KDeposit => true | _ => false end in
    match stake with
    | None => inr RStake
    | Some st =>
      if st <? min_stake then inr RStake else
      let power := Z.quot st 1000000 in
      match current_query (qi_id q) (o_queries s) with
      | None =>
          if negb is_deposit then inr RNotDeposit else
          (* TokenBridgeDepositQuery + Query.Set, then the deposit reveal *)
          let m := {| m_qid := qi_id q; m_id := o_next_meta s; m_amount := 0; m_expiration := h + 2000; m_window := 2000;
                      m_has_reports := false; m_cycle := true; m_bridge_type := true |} in
          let s1 := {| o_queries := meta_set m (o_queries s); o_reports := o_reports s; o_cycle := o_cycle s; o_seq := o_seq s;
                       o_next_meta := o_next_meta s + 1; o_aggs := o_aggs s; o_nonces := o_nonces s;
                       o_spot_window := o_spot_window s; o_bridge_window := o_bridge_window s |} in
          deposit_reveal s1 h m reporter power value_ok
      | Some m =>
          if is_deposit then deposit_reveal s h m reporter power value_ok
          else if (m_amount m =? 0) && negb (m_cycle m) then inr RNoTipNotCycle
          else if m_expiration m <? h then inr RExpired
          else match k with
               | KNoSpec => inr RValue        (* SetValue: GetDataSpec fails *)
               | _ => set_value s h m reporter power (m_cycle m) value_ok
               end
      end
    end
  end.

(* ---- end blocker: SetAggregatedReport ---------------------------------------------------------------- *)
Definition reports_of (meta_id : Z) (l : list report) : list report := filter (fun r => rp_meta r =? meta_id) l.

(* SetAggregate for the round [m] at (height h, time ts ms); [agg_reporter] and its micro height are
   C06's result, supplied by the harness only for the aggregate record (ignored by C07's theorems) *)
Definition aggregate_round (s : ostate) (h ts : Z) (m : qmeta) : ostate :=
  let rs := reports_of (m_id m) (o_reports s) in
  let nonce := nonce_get (m_qid m) (o_nonces s) + 1 in
  let a := {| ag_qid := m_qid m; ag_ts := ts; ag_height := h; ag_nonce := nonce; ag_meta := m_id m;
              ag_reporters := map rp_reporter rs; ag_power := fold_left (fun acc r => acc + rp_power r) rs 0;
              ag_flagged := false; ag_agg_reporter := -1; ag_micro_height := -1 |} in
  {| o_queries := meta_remove (m_qid m) (m_id m) (o_queries s); o_reports := o_reports s; o_cycle := o_cycle s; o_seq := o_seq s;
     o_next_meta := o_next_meta s; o_aggs := agg_set a (o_aggs s); o_nonces := nonce_set (m_qid m) nonce (o_nonces s);
     o_spot_window := o_spot_window s; o_bridge_window := o_bridge_window s |}.

Definition set_aggregated_report (s : ostate) (h ts : Z) : ostate :=
  fold_left (fun st m => if m_has_reports m && (m_expiration m <=? h) then aggregate_round st h ts m else st)
            (o_queries s) s.

(* ---- end blocker: RotateQueries ------------------------------------------------------------------------ *)
Definition nth_z (l : list Z) (i : Z) : option Z := if i <? 0 then None else nth_error l (Z.to_nat i).

(* ClearOldqueries for one query id *)
Definition clear_old (qid h : Z) (l : list qmeta) : list qmeta :=
  filter (fun y => negb ((m_qid y =? qid) && (m_expiration y <? h) && negb (m_has_reports y) && (m_amount y =? 0))) l.

(* None = error / panic (index out of range, InitializeQuery failing): block processing stops *)
Definition do_rotate (s : ostate) (h : Z) (kind_of : Z -> qkind) : option ostate :=
  let max := Z.of_nat (List.length (o_cycle s)) in
  let n := if max - 1 <=? o_seq s then 0 else o_seq s + 1 in
  let s0 := {| o_queries := o_queries s; o_reports := o_reports s; o_cycle := o_cycle s; o_seq := n; o_next_meta := o_next_meta s;
               o_aggs := o_aggs s; o_nonces := o_nonces s; o_spot_window := o_spot_window s; o_bridge_window := o_bridge_window s |} in
  match nth_z (o_cycle s) n with
  | None => None
  | Some qid =>
      let s1 := with_queries s0 (clear_old qid h (o_queries s0)) in
      match current_query qid (o_queries s1) with
      | None =>
          match initialize_query s1 {| qi_id := qid; qi_kind := kind_of qid |} with
          | None => None
          | Some (m, s2) => Some (with_queries s2 (meta_set (set_amount_exp m 0 (h + m_window m) true) (o_queries s2)))
          end
      | Some m =>
          if negb (m_amount m =? 0) then
            let exp := if m_expiration m <=? h then h + m_window m else m_expiration m in
            Some (with_queries s1 (meta_set (set_amount_exp m (m_amount m) exp true) (o_queries s1)))
          else Some s1
      end
  end.

Definition rotate (s : ostate) (h : Z) (kind_of : Z -> qkind) : option ostate :=
  match nth_z (o_cycle s) (o_seq s) with
  | None => None
  | Some cur =>
      match current_query cur (o_queries s) with
      | Some m => if h <? m_expiration m then Some s else do_rotate s h kind_of
      | None => do_rotate s h kind_of
      end
  end.

Definition end_block (s : ostate) (h ts : Z) (kind_of : Z -> qkind) : option ostate :=
  rotate (set_aggregated_report s h ts) h kind_of.

(* ---- governance ---------------------------------------------------------------------------------------- *)
Fixpoint insert_sorted (x : Z) (l : list Z) : list Z :=
  match l with [] => [x] | y :: t => if x =? y then l else if x <? y then x :: l else y :: insert_sorted x t end.

(* MsgUpdateCyclelist after the fix of F04: non-empty, every entry decodable with a registered spec *)
Definition update_cyclelist (s : ostate) (qs : list qinfo) : option ostate :=
  match qs with
  | [] => None
  | _ =>
    if forallb (fun q => match qi_kind q with KGarbage | KNoSpec => false | _ => true end) qs then
      Some {| o_queries := o_queries s; o_reports := o_reports s;
              o_cycle := fold_left (fun acc q => insert_sorted (qi_id q) acc) qs [];
              o_seq := 0; o_next_meta := o_next_meta s; o_aggs := o_aggs s; o_nonces := o_nonces s;
              o_spot_window := o_spot_window s; o_bridge_window := o_bridge_window s |}
    else None
  end.

(* MsgUpdateDataSpec: the registry window changes; the oracle hook updates the metas whose QueryType
   field equals the updated type, which only the deposit path sets (to "TRBBridge") *)
Definition update_data_spec (s : ostate) (bridge : bool) (hits_open_bridge_metas : bool) (w : Z) : ostate :=
  {| o_queries := if bridge && hits_open_bridge_metas
                  then map (fun m => if m_bridge_type m then
                         {| m_qid := m_qid m; m_id := m_id m; m_amount := m_amount m; m_expiration := m_expiration m; m_window := w;
                            m_has_reports := m_has_reports m; m_cycle := m_cycle m; m_bridge_type := true |} else m) (o_queries s)
                  else o_queries s;
     o_reports := o_reports s; o_cycle := o_cycle s; o_seq := o_seq s; o_next_meta := o_next_meta s;
     o_aggs := o_aggs s; o_nonces := o_nonces s;
     o_spot_window := if bridge then o_spot_window s else w;
     o_bridge_window := if bridge then w else o_bridge_window s |}.

(* ---- the reference specification of admission (from the property text) ---------------------------------- *)
Definition accept_spec (s : ostate) (h : Z) (q : qinfo) (stake : option Z) (min_stake : Z) : bool :=
  match qi_kind q, stake with
  | KWithdraw, _ | KGarbage, _ => false
  | _, None => false
  | k, Some st =>
      (min_stake <=? st) &&
      match k with
      | KDeposit => true      (* a bridge deposit needs neither tip nor schedule; the window is re-opened *)
      | _ => match current_query (qi_id q) (o_queries s) with
             | Some m => (negb (m_amount m =? 0) || m_cycle m) && (h <=? m_expiration m)
             | None => false
             end
      end
  end.
