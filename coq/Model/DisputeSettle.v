(* C13 — dispute settlement: executable model of
     x/dispute/keeper/execute.go            ExecuteVote, RefundDisputeFee, RewardReporterBondToFeePayers,
                                            GetSumOfAllGroupVotesAllRounds
     x/dispute/keeper/msg_server_withdraw_fee_refund.go   WithdrawFeeRefund (dust accumulation and burn)
     x/dispute/keeper/claim_reward.go       ClaimReward, CalculateReward
     x/dispute/keeper/dispute.go            SetNewDispute, AddDisputeRound (amounts, payer record, round fee)
     x/dispute/keeper/msg_server_add_fee_to_dispute.go    AddFeeToDispute
     x/dispute/keeper/dispute_fee.go        PayFromAccount, ReturnSlashedTokens, ReturnFeetoStake
     x/reporter/keeper/distribution.go      ReturnSlashedTokens, FeeRefund, AddAmountToStake (amounts per origin)
     x/dispute/abci.go                      CheckClosedDisputesForExecution
   as the code IS (variant flags: fix20 / fix35 = behaviour after the proposed repairs of F20 / F35).

   The state is the part of the chain one dispute lineage touches: the dispute record of the current round,
   its vote, the payer records, the two escrow trackers of the reporter module, the voters' records, the
   dust store, the dispute escrow balance, the burnt supply and every tracked party's liquid and staked
   holdings (validators have exchange rate 1 in the driver, so a delegation is a number of tokens).
   What other modules decide is an environment fact carried by the operation: the tally's outcome (C12),
   the voters' recorded powers (C12), the trackers written when stake is escrowed (C05/C11).

   Definitions only; proofs are in Proofs/DisputeSettleProofs.v. *)
From Coq Require Import ZArith List Bool String Lia.
From Verif Require Import Base.Harness Base.Dec.
Import ListNotations.
Open Scope Z_scope.
Open Scope list_scope.

Definition PR6 : Z := 1000000.
Definition ONE_DAY : Z := 86400 * 1000000000.
Definition THREE_DAYS : Z := 3 * ONE_DAY.
Definition MIN_FEE : Z := 10000.

(* dispute status / vote result codes of the protobuf enums *)
Definition Prevote : Z := 0.  Definition Voting : Z := 1.  Definition Resolved : Z := 2.
Definition Unresolved : Z := 3.  Definition Failed : Z := 4.
Definition is_support (r : Z) : bool := (r =? 1) || (r =? 4).
Definition is_against (r : Z) : bool := (r =? 2) || (r =? 5).
Definition is_invalid (r : Z) : bool := (r =? 3) || (r =? 6).

(* result classes of an operation *)
Definition OK : Z := 0.            Definition ENotFound : Z := 1.     Definition ENotExecuted : Z := 2.
Definition EInvalidResult : Z := 3. Definition ENotResolved : Z := 4.  Definition EAlreadyExecuted : Z := 5.
Definition EClaimed : Z := 6.      Definition EZeroReward : Z := 7.   Definition ENoVotes : Z := 8.
Definition EExpired : Z := 9.      Definition EFeeMet : Z := 10.      Definition EBondSelf : Z := 11.
Definition EPay : Z := 12.         Definition ERound : Z := 13.       Definition EInsufficient : Z := 14.
Definition EOther : Z := 15.       Definition EMixedMode : Z := 16.   Definition EMinFee : Z := 17.

(* ---- small list utilities (accounts are positions) -------------------------------------------- *)
Definition getz (l : list Z) (i : Z) : Z := nth (Z.to_nat i) l 0.
Fixpoint upd_nat (l : list Z) (i : nat) (d : Z) : list Z :=
  match l, i with
  | [], _ => []
  | x :: t, O => (x + d) :: t
  | x :: t, S j => x :: upd_nat t j d
  end.
Definition addz (l : list Z) (i d : Z) : list Z := upd_nat l (Z.to_nat i) d.
Definition sumz (l : list Z) : Z := fold_right Z.add 0 l.
Definition sum_snd (l : list (Z * Z)) : Z := sumz (map snd l).
(* credit (or debit) every origin with its amount *)
Definition add_all (l : list Z) (os : list (Z * Z)) : list Z :=
  fold_left (fun acc o => addz acc (fst o) (snd o)) os l.
Definition neg_all (os : list (Z * Z)) : list (Z * Z) := map (fun o => (fst o, - snd o)) os.

(* ---- records ---------------------------------------------------------------------------------- *)
Record payer := PY { p_id : Z; p_who : Z; p_amt : Z; p_bond : bool }.
(* a voter's record in one round, and the tips the users group counts for it: at the dispute's block
   (what it voted with) and at block number = dispute id (what CalculateReward asks for, F35) *)
Record voter := VR { v_who : Z; v_rep : Z; v_th : Z; v_tips_blk : Z; v_tips_id : Z; v_claimed : bool }.
Record gcounts := GC { g_users : Z; g_reps : Z; g_holders : Z; g_team : Z }.
Record round := RD { r_id : Z; r_counts : option gcounts; r_voters : list voter }.
Definition tracker := (list (Z * Z) * Z)%type.       (* origins (account, amount), total *)

Record st := ST {
  s_now : Z;
  s_id : Z;                 (* current dispute id of the lineage; 0 = no dispute yet *)
  s_slash : Z; s_burn : Z; s_feetotal : Z; s_reward : Z;
  s_status : Z; s_open : bool; s_pending : bool;
  s_result : Z; s_executed : bool; s_end : Z;
  s_round : Z;
  s_prev : list Z;          (* PrevDisputeIds *)
  s_payers : list payer;
  s_feetr : option tracker;     (* reporter.FeePaidFromStake[hash] *)
  s_slashtr : option tracker;   (* reporter.DisputedDelegationAmounts[hash] *)
  s_rounds : list round;        (* voters' records and group totals per round *)
  s_dust : Z;
  s_esc : Z;                (* dispute module balance *)
  s_burned : Z;             (* supply burnt so far *)
  s_liq : list Z; s_stk : list Z
}.

Definition set_money (s : st) (esc burned : Z) (liq stk : list Z) : st :=
  ST (s_now s) (s_id s) (s_slash s) (s_burn s) (s_feetotal s) (s_reward s) (s_status s) (s_open s) (s_pending s)
     (s_result s) (s_executed s) (s_end s) (s_round s) (s_prev s) (s_payers s) (s_feetr s) (s_slashtr s) (s_rounds s)
     (s_dust s) esc burned liq stk.

(* ---- operations ------------------------------------------------------------------------------- *)
Inductive op :=
| OPropose (who fee : Z) (bond : bool) (feetr slashtr : option tracker)   (* trackers after the operation *)
| OAddFee (who id fee : Z) (bond : bool) (feetr slashtr : option tracker)
| OTime (now : Z)
| OTally (status : Z) (open pending : bool) (result : Z)     (* what a vote / the tally left (C12) *)
| OVotes (rounds : list round)                                 (* the voters' records before execution (C12) *)
| OExecBlock                                                   (* abci.CheckClosedDisputesForExecution *)
| OExecute (id : Z)                                            (* Keeper.ExecuteVote *)
| OWithdraw (who id : Z)                                       (* MsgWithdrawFeeRefund *)
| OClaim (who id : Z)                                          (* MsgClaimReward *)
| OEnd.                                                        (* marker: every party has claimed *)

(* ---- arithmetic of the settlement --------------------------------------------------------------- *)
Definition five_percent (slash : Z) : Z := truncate_int (dec_quo (dec_mul (of_int slash) (of_int 1)) (of_int 20)).
Definition half_burn (burn : Z) : Z := truncate_int (dec_quo (of_int burn) (of_int 2)).
Definition round_fee (slash round : Z) : Z :=
  let f := five_percent slash * 2 ^ round in if slash <? f then slash else f.

(* RefundDisputeFee: the amount in 10^-6 loya (truncated) *)
Definition refund12 (fee fmb total : Z) : Z :=
  truncate_int (dec_quo (dec_mul (dec_mul (of_int fee) (of_int fmb)) (of_int PR6)) (of_int total)).
Definition refund6 (fee fmb total : Z) : Z := Z.quot (refund12 fee fmb total) PR6.
Definition refund_rem (fee fmb total : Z) : Z := (refund12 fee fmb total) mod PR6.

(* RewardReporterBondToFeePayers *)
Definition bond12dec (fee bond total : Z) : Z :=
  dec_quo (dec_mul (dec_mul (of_int fee) (of_int bond)) (of_int PR6)) (of_int total).
Definition bond6 (fee bond total : Z) : Z := truncate_int (dec_quo (bond12dec fee bond total) (of_int PR6)).
Definition bond_rem (fee bond total : Z) : Z := (truncate_int (bond12dec fee bond total)) mod PR6.

(* reporter.FeeRefund: share of one tracked origin *)
Definition fee_share (src amt total : Z) : Z :=
  truncate_int (dec_quo (dec_mul (of_int src) (of_int amt)) (of_int total)).
(* reporter.ReturnSlashedTokens: share of one origin of the snapshot *)
Definition slash_share (src total amt : Z) : Z :=
  if 0 <? amt - total
  then truncate_int (dec_mul (dec_quo (of_int src) (of_int total)) (of_int amt))
  else src.

(* ---- votes ------------------------------------------------------------------------------------------ *)
Definition gsum (g : gcounts) : Z := g_users g + g_reps g + g_holders g + g_team g.
Definition find_round (rs : list round) (id : Z) : option round := find (fun r => r_id r =? id) rs.
Definition counts_of (rs : list round) (id : Z) : option gcounts :=
  match find_round rs id with Some r => r_counts r | None => None end.
Definition find_voter (rs : list round) (id who : Z) : option voter :=
  match find_round rs id with Some r => find (fun v => v_who v =? who) (r_voters r) | None => None end.

(* GetSumOfAllGroupVotesAllRounds: zero at once when the current round has no counters *)
Definition total_voter_power (rs : list round) (id : Z) (prev : list Z) : Z :=
  match counts_of rs id with
  | None => 0
  | Some g => gsum g + sumz (map (fun i => match counts_of rs i with Some g' => gsum g' | None => 0 end) prev)
  end.

(* CalculateReward: None = "counters of a round not found" *)
Record powers := PW { a_users : Z; a_reps : Z; a_holders : Z; G_users : Z; G_reps : Z; G_holders : Z }.
Definition pw0 : powers := PW 0 0 0 0 0 0.
Definition acc_powers (fix35 : bool) (rs : list round) (who : Z) (prev : list Z) : option powers :=
  fold_left (fun acc i =>
    match acc with
    | None => None
    | Some pw =>
        let pw1 := match find_voter rs i who with
                   | Some v => PW (a_users pw + (if fix35 then v_tips_blk v else v_tips_id v)) (a_reps pw + v_rep v)
                                  (a_holders pw + v_th v) (G_users pw) (G_reps pw) (G_holders pw)
                   | None => pw end in
        match counts_of rs i with
        | None => None
        | Some g => Some (PW (a_users pw1) (a_reps pw1) (a_holders pw1)
                             (G_users pw1 + g_users g) (G_reps pw1 + g_reps g) (G_holders pw1 + g_holders g))
        end
    end) prev (Some pw0).

Definition nz1 (z : Z) : Z := if z =? 0 then 1 else z.
Definition groups (pw : powers) : Z :=
  3 - (if G_reps pw =? 0 then 1 else 0) - (if G_users pw =? 0 then 1 else 0) - (if G_holders pw =? 0 then 1 else 0).
Definition norm (a G : Z) : Z := dec_quo (dec_mul (of_int a) (of_int PR6)) (of_int (nz1 G)).
Definition reward_of (pw : powers) (pot : Z) : Z :=
  let tot := norm (a_users pw) (G_users pw) + norm (a_reps pw) (G_reps pw) + norm (a_holders pw) (G_holders pw) in
  truncate_int (dec_quo (dec_mul tot (of_int pot)) (dec_mul (of_int (groups pw)) (of_int PR6))).

Definition set_claimed (rs : list round) (id who : Z) : list round :=
  map (fun r => if r_id r =? id
                then RD (r_id r) (r_counts r)
                        (if existsb (fun v => v_who v =? who) (r_voters r)
                         then map (fun v => if v_who v =? who then VR (v_who v) (v_rep v) (v_th v) (v_tips_blk v) (v_tips_id v) true else v) (r_voters r)
                         else r_voters r ++ [VR who 0 0 0 0 true])
                else r) rs.
(* the Voter collection is keyed by (id, address) and needs no round entry of ours: make sure one exists *)
Definition ensure_round (rs : list round) (id : Z) : list round :=
  match find_round rs id with Some _ => rs | None => rs ++ [RD id None []] end.

(* ---- payer records --------------------------------------------------------------------------------- *)
Definition find_payer (ps : list payer) (id who : Z) : option payer :=
  find (fun p => (p_id p =? id) && (p_who p =? who)) ps.
Definition remove_payer (ps : list payer) (id who : Z) : list payer :=
  filter (fun p => negb ((p_id p =? id) && (p_who p =? who))) ps.
Definition set_payer (ps : list payer) (p : payer) : list payer := remove_payer ps (p_id p) (p_who p) ++ [p].

(* ---- paying a fee ----------------------------------------------------------------------------------- *)
(* from the account: the bank; from stake: the reporter module unbonds the new origins of the tracker
   (prepended to the old ones) and moves what it unbonded (the growth of the tracker total) *)
Definition new_origins (old new : option tracker) : list (Z * Z) :=
  match new with
  | None => []
  | Some (os, _) => firstn (List.length os - match old with Some (oo, _) => List.length oo | None => 0 end) os
  end.
Definition tr_total (t : option tracker) : Z := match t with Some (_, x) => x | None => 0 end.
Definition tracker_same (a b : option tracker) : bool :=
  match a, b with
  | None, None => true
  | Some (oa, ta), Some (ob, tb) => Nat.eqb (List.length oa) (List.length ob) && (ta =? tb)
  | _, _ => false
  end.

(* result: None = the payer cannot pay *)
Definition pay (s : st) (who amt : Z) (bond : bool) (feetr : option tracker) : option st :=
  if bond then
    match feetr with
    | None => None
    | Some _ =>
        if tracker_same (s_feetr s) feetr then None      (* the reporter module refused: nothing was recorded *)
        else
        let os := new_origins (s_feetr s) feetr in
        Some (ST (s_now s) (s_id s) (s_slash s) (s_burn s) (s_feetotal s) (s_reward s) (s_status s) (s_open s) (s_pending s)
                 (s_result s) (s_executed s) (s_end s) (s_round s) (s_prev s) (s_payers s) feetr (s_slashtr s) (s_rounds s)
                 (s_dust s) (s_esc s + (tr_total feetr - tr_total (s_feetr s))) (s_burned s) (s_liq s)
                 (add_all (s_stk s) (neg_all os)))
    end
  else if getz (s_liq s) who <? amt then None
  else Some (set_money s (s_esc s + amt) (s_burned s) (addz (s_liq s) who (- amt)) (s_stk s)).

(* SlashAndJailReporter: the reporter module escrows the origins of the new snapshot *)
Definition slash_reporter (s : st) (slashtr : option tracker) : st :=
  match slashtr with
  | None => s
  | Some (os, _) =>
      ST (s_now s) (s_id s) (s_slash s) (s_burn s) (s_feetotal s) (s_reward s) (s_status s) (s_open s) (s_pending s)
         (s_result s) (s_executed s) (s_end s) (s_round s) (s_prev s) (s_payers s) (s_feetr s) slashtr (s_rounds s)
         (s_dust s) (s_esc s + sum_snd os) (s_burned s) (s_liq s) (add_all (s_stk s) (neg_all os))
  end.

(* the dispute fields after a payment that brings the total to [ft] *)
Definition funded (s : st) (ft : Z) (payers : list payer) (slashtr : option tracker) : option st :=
  let s1 := ST (s_now s) (s_id s) (s_slash s) (s_burn s) ft (s_reward s) (s_status s) (s_open s) (s_pending s)
               (s_result s) (s_executed s) (s_end s) (s_round s) (s_prev s) payers (s_feetr s) (s_slashtr s) (s_rounds s)
               (s_dust s) (s_esc s) (s_burned s) (s_liq s) (s_stk s) in
  if ft =? s_slash s then
    match slashtr with None => None | Some _ =>       (* no snapshot appeared: SlashAndJailReporter refused *)
    let s2 := slash_reporter s1 slashtr in
    Some (ST (s_now s2) (s_id s2) (s_slash s2) (s_burn s2) ft (s_reward s2) Voting (s_open s2) (s_pending s2)
       0 false (s_now s2 + THREE_DAYS) (s_round s2) (s_prev s2) (s_payers s2) (s_feetr s2) (s_slashtr s2) (s_rounds s2)
       (s_dust s2) (s_esc s2) (s_burned s2) (s_liq s2) (s_stk s2)) end
  else Some s1.

(* ProposeDispute.  [SS] = GetDisputeFee of the report and category (a fact of the lineage). *)
Definition propose (fix20 : bool) (SS : Z) (s : st) (who fee : Z) (bond : bool) (feetr slashtr : option tracker) : st * Z :=
  if fee <? MIN_FEE then (s, EMinFee)
  else if s_id s =? 0 then
    (* SetNewDispute *)
    let amt := if SS <? fee then SS else fee in
    let s0 := ST (s_now s) 1 SS (five_percent SS) 0 0 Prevote true false 0 false (s_now s + ONE_DAY) 1 [1]
                 (s_payers s) (s_feetr s) (s_slashtr s) (s_rounds s) (s_dust s) (s_esc s) (s_burned s) (s_liq s) (s_stk s) in
    match pay s0 who amt bond feetr with
    | None => (s, EPay)
    | Some s1 => match funded s1 amt (set_payer (s_payers s1) (PY 1 who amt bond)) slashtr with
                 | Some s2 => (s2, OK) | None => (s, EOther) end
    end
  else
    (* AddDisputeRound *)
    if negb (s_status s =? Unresolved) || negb (s_open s) then (s, ERound)
    else if s_end s <? s_now s then (s, EExpired)
    else
      let rf := round_fee (s_slash s) (s_round s) in
      if fee <? rf then (s, ERound)
      else match pay s who rf bond feetr with
           | None => (s, EPay)
           | Some s1 =>
               (ST (s_now s1) (s_id s1 + 1) (s_slash s1) (s_burn s1 + rf) (s_feetotal s1 + rf) (s_reward s1) Voting (s_open s1)
                   (s_pending s1) 0 false (s_now s1 + THREE_DAYS) (s_round s1 + 1) (s_prev s1 ++ [s_id s1 + 1])
                   (s_payers s1) (s_feetr s1) (s_slashtr s1) (s_rounds s1) (s_dust s1) (s_esc s1) (s_burned s1) (s_liq s1) (s_stk s1), OK)
           end.

(* AddFeeToDispute ([reporter] = the disputed reporter's account) *)
Definition add_fee (fix20 : bool) (reporter : Z) (s : st) (who id fee : Z) (bond : bool) (feetr slashtr : option tracker) : st * Z :=
  if fee <=? 0 then (s, EOther)
  else if negb (id =? s_id s) || (s_id s =? 0) then (s, ENotFound)
  else if (who =? reporter) && bond then (s, EBondSelf)
  else if s_end s <? s_now s then (s, EExpired)
  else if s_slash s <=? s_feetotal s then (s, EFeeMet)
  else
    let amt := if s_slash s <? s_feetotal s + fee then s_slash s - s_feetotal s else fee in
    let old := find_payer (s_payers s) id who in
    match pay s who amt bond feetr with
         | None => (s, EPay)
         | Some s1 =>
             let rec_amt := match old with Some p => if fix20 then p_amt p + amt else amt | None => amt end in
             match funded s1 (s_feetotal s1 + amt) (set_payer (s_payers s1) (PY id who rec_amt bond)) slashtr with
             | Some s2 => (s2, OK) | None => (s, EOther) end
         end.

(* ---- execution ----------------------------------------------------------------------------------------- *)
(* reporter.ReturnSlashedTokens preceded by the bank send of dispute_fee.go *)
Definition return_slashed (s : st) (amt : Z) : st * Z :=
  if amt <? 0 then (s, EOther)                (* sdk.NewCoin panics on a negative amount *)
  else if s_esc s <? amt then (s, EInsufficient)
  else match s_slashtr s with
       | None => (s, ENotFound)
       | Some (os, total) =>
           let credits := map (fun o => (fst o, slash_share (snd o) total amt)) os in
           (ST (s_now s) (s_id s) (s_slash s) (s_burn s) (s_feetotal s) (s_reward s) (s_status s) (s_open s) (s_pending s)
               (s_result s) (s_executed s) (s_end s) (s_round s) (s_prev s) (s_payers s) (s_feetr s) None (s_rounds s)
               (s_dust s) (s_esc s - amt) (s_burned s) (s_liq s) (add_all (s_stk s) credits), OK)
       end.

(* [fix12]: the fee left for the reporter after the burn is FeeTotal - BurnAmount (repaired in /repo: the fees of later
   rounds enter both, so it is never negative); as found it was SlashAmount - BurnAmount, negative from the sixth round *)
Definition execute_vote_gen (fixc fix12 : bool) (s : st) : st * Z :=
  let status := if negb (s_result s =? 0) && (s_end s <? s_now s) then Resolved else s_status s in
  if (s_status s =? Prevote) || (s_status s =? Failed) then (s, ENotFound)      (* no vote record *)
  else if negb (status =? Resolved) then (s, ENotResolved)
  else if s_executed s then (s, EAlreadyExecuted)
  else
    let novoters := total_voter_power (s_rounds s) (s_id s) (s_prev s) =? 0 in
    let burn_now := if novoters then s_burn s else half_burn (s_burn s) in
    let reward := if novoters then 0 else half_burn (s_burn s) in
    if s_result s =? 0 then (s, EOther)
    else if s_esc s <? burn_now then (s, EInsufficient)
    else
      let s1 := set_money s (s_esc s - burn_now) (s_burned s + burn_now) (s_liq s) (s_stk s) in
      let fin (x : st) (slash : Z) : st :=
        ST (s_now x) (s_id x) slash (s_burn x) (s_feetotal x) reward status (s_open x) false
           (s_result x) true (s_end x) (s_round x) (s_prev x) (s_payers x) (s_feetr x) (s_slashtr x) (s_rounds x)
           (s_dust x) (s_esc x) (s_burned x) (s_liq x) (s_stk x) in
      if is_invalid (s_result s) then
        match return_slashed s1 (s_slash s) with
        | (s2, 0) => (fin s2 (s_slash s), OK)
        | (_, e) => (s, e)
        end
      else if is_support (s_result s) then (fin s1 (s_slash s), OK)
      else if is_against (s_result s) then
        let amt := s_slash s + ((if fix12 then s_feetotal s else s_slash s) - s_burn s) in
        match return_slashed s1 amt with
        | (s2, 0) => (fin s2 (if fixc then s_slash s else amt), OK)
        | (_, e) => (s, e)
        end
      else (s, EOther).

(* abci.CheckClosedDisputesForExecution on the lineage's current record *)
Definition repo_fix_F12 : bool := true.
Definition execute_vote (fixc : bool) (s : st) : st * Z := execute_vote_gen fixc repo_fix_F12 s.

Definition exec_block_gen (fixc fix12 : bool) (s : st) : st * Z :=
  if negb (s_id s =? 0) && s_pending s && ((s_end s <? s_now s) || (s_status s =? Resolved))
  then execute_vote_gen fixc fix12 s else (s, OK).
Definition exec_block (fixc : bool) (s : st) : st * Z := exec_block_gen fixc repo_fix_F12 s.

(* ---- refunds ---------------------------------------------------------------------------------------------- *)
(* RefundDisputeFee: state and the fraction for the dust store *)
Definition refund_fee (s : st) (who : Z) (p : payer) (total fmb : Z) : st * Z * Z :=
  let a6 := refund6 (p_amt p) fmb total in
  let rem := refund_rem (p_amt p) fmb total in
  if a6 <? 0 then (s, EOther, 0)
  else if negb (p_bond p) then
    if s_esc s <? a6 then (s, EInsufficient, 0)
    else (set_money s (s_esc s - a6) (s_burned s) (addz (s_liq s) who a6) (s_stk s), OK, rem)
  else
    match s_feetr s with
    | None => (s, ENotFound, 0)
    | Some (os, tot) =>
        if (tot =? 0) && match os with [] => false | _ => true end then (s, EOther, 0)   (* Dec.Quo by zero panics *)
        else if s_esc s <? a6 then (s, EInsufficient, 0)
        else
        let credits := map (fun o => (fst o, fee_share (snd o) a6 tot)) os in
        (ST (s_now s) (s_id s) (s_slash s) (s_burn s) (s_feetotal s) (s_reward s) (s_status s) (s_open s) (s_pending s)
            (s_result s) (s_executed s) (s_end s) (s_round s) (s_prev s) (s_payers s) None (s_slashtr s) (s_rounds s)
            (s_dust s) (s_esc s - a6) (s_burned s) (s_liq s) (add_all (s_stk s) credits), OK, rem)
    end.

(* RewardReporterBondToFeePayers *)
Definition reward_bond (s : st) (who : Z) (p : payer) (total bond : Z) : st * Z * Z :=
  let a6 := bond6 (p_amt p) bond total in
  if a6 <? 0 then (s, EOther, 0)
  else if s_esc s <? a6 then (s, EInsufficient, 0)
  else (set_money s (s_esc s - a6) (s_burned s) (s_liq s) (addz (s_stk s) who a6), OK, bond_rem (p_amt p) bond total).

Definition finish_withdraw (s : st) (who id dust : Z) : st * Z :=
  let burn := truncate_int (dec_quo (of_int dust) (of_int PR6)) in
  if negb (burn =? 0) && (s_esc s <? burn) then (s, EInsufficient)
  else
    let dust' := if burn =? 0 then dust else dust mod PR6 in
    (ST (s_now s) (s_id s) (s_slash s) (s_burn s) (s_feetotal s) (s_reward s) (s_status s) (s_open s) (s_pending s)
        (s_result s) (s_executed s) (s_end s) (s_round s) (s_prev s) (remove_payer (s_payers s) id who) (s_feetr s) (s_slashtr s)
        (s_rounds s) dust' (s_esc s - burn) (s_burned s + burn) (s_liq s) (s_stk s), OK).

Definition withdraw (s : st) (who id : Z) : st * Z :=
  if (s_id s =? 0) || negb (existsb (Z.eqb id) (s_prev s)) then (s, ENotFound)
  else match find_payer (s_payers s) id who with
  | None => (s, ENotFound)
  | Some p =>
    if negb (id =? s_id s) then (s, ENotExecuted)       (* a closed earlier round: its vote is never executed *)
    else if s_status s =? Failed then
      let fmb := truncate_int (dec_quo (of_int (s_feetotal s)) (of_int 20)) in
      match refund_fee s who p (s_feetotal s) fmb with
      | (s1, 0, f) => match finish_withdraw s1 who id (s_dust s + f) with (s3, 0) => (s3, OK) | (_, e) => (s, e) end
      | (_, e, _) => (s, e)
      end
    else if s_status s =? Prevote then (s, ENotFound)     (* no vote record yet *)
    else if negb (s_executed s) then (s, ENotExecuted)
    else
      let fmb := s_slash s - s_burn s in
      if is_invalid (s_result s) then
        match refund_fee s who p (s_feetotal s) fmb with
        | (s1, 0, f) => match finish_withdraw s1 who id (s_dust s + f) with (s3, 0) => (s3, OK) | (_, e) => (s, e) end
        | (_, e, _) => (s, e)
        end
      else if is_support (s_result s) then
        match refund_fee s who p (s_feetotal s) fmb with
        | (s1, 0, f1) =>
            match reward_bond s1 who p (s_feetotal s) (s_slash s) with
            | (s2, 0, f2) => match finish_withdraw s2 who id (s_dust s + f1 + f2) with
                             | (s3, 0) => (s3, OK) | (_, e) => (s, e) end
            | (_, e, _) => (s, e)
            end
        | (_, e, _) => (s, e)
        end
      else (s, EInvalidResult)
  end.

(* ---- voter rewards ------------------------------------------------------------------------------------------ *)
Definition claim (fix35 : bool) (s : st) (who id : Z) : st * Z :=
  if (s_id s =? 0) || negb (existsb (Z.eqb id) (s_prev s)) then (s, ENotFound)
  else if negb (id =? s_id s) then (s, ENotResolved)      (* closed earlier rounds stay unresolved *)
  else if negb (s_status s =? Resolved) then (s, ENotResolved)
  else if match find_voter (s_rounds s) id who with Some v => v_claimed v | None => false end then (s, EClaimed)
  else if negb (s_executed s) then (s, ENotExecuted)
  else match acc_powers fix35 (s_rounds s) who (s_prev s) with
  | None => (s, ENotFound)
  | Some pw =>
      if groups pw =? 0 then (s, ENoVotes)
      else
        let r := reward_of pw (s_reward s) in
        if r =? 0 then (s, EZeroReward)
        else if r <? 0 then (s, EOther)
        else if s_esc s <? r then (s, EInsufficient)
        else (ST (s_now s) (s_id s) (s_slash s) (s_burn s) (s_feetotal s) (s_reward s) (s_status s) (s_open s) (s_pending s)
                 (s_result s) (s_executed s) (s_end s) (s_round s) (s_prev s) (s_payers s) (s_feetr s) (s_slashtr s)
                 (set_claimed (ensure_round (s_rounds s) id) id who) (s_dust s) (s_esc s - r) (s_burned s)
                 (addz (s_liq s) who r) (s_stk s), OK)
  end.

(* ---- environment facts --------------------------------------------------------------------------------------- *)
(* the tally moves a voting dispute to voting / resolved / unresolved and a prevote one to failed; nothing else *)
Definition tally_allowed (from to : Z) : bool :=
  ((from =? Voting) && ((to =? Voting) || (to =? Resolved) || (to =? Unresolved)))
  || ((from =? Prevote) && ((to =? Prevote) || (to =? Failed)))
  || (from =? to).
Definition tally (s : st) (status : Z) (open pending : bool) (result : Z) : st :=
  if (s_id s =? 0) || s_executed s || negb (tally_allowed (s_status s) status) then s
  else ST (s_now s) (s_id s) (s_slash s) (s_burn s) (s_feetotal s) (s_reward s) status open pending
          result (s_executed s) (s_end s) (s_round s) (s_prev s) (s_payers s) (s_feetr s) (s_slashtr s) (s_rounds s)
          (s_dust s) (s_esc s) (s_burned s) (s_liq s) (s_stk s).
Definition set_votes (s : st) (rs : list round) : st :=
  if s_executed s then s
  else ST (s_now s) (s_id s) (s_slash s) (s_burn s) (s_feetotal s) (s_reward s) (s_status s) (s_open s) (s_pending s)
          (s_result s) (s_executed s) (s_end s) (s_round s) (s_prev s) (s_payers s) (s_feetr s) (s_slashtr s) rs
          (s_dust s) (s_esc s) (s_burned s) (s_liq s) (s_stk s).
Definition set_now (s : st) (now : Z) : st :=
  ST now (s_id s) (s_slash s) (s_burn s) (s_feetotal s) (s_reward s) (s_status s) (s_open s) (s_pending s)
     (s_result s) (s_executed s) (s_end s) (s_round s) (s_prev s) (s_payers s) (s_feetr s) (s_slashtr s) (s_rounds s)
     (s_dust s) (s_esc s) (s_burned s) (s_liq s) (s_stk s).

Record variant := VA { fix20 : bool; fix35 : bool; fixc : bool }.
Record cfg := CF { c_reporter : Z; c_S : Z }.

Definition step (v : variant) (c : cfg) (s : st) (o : op) : st * Z :=
  match o with
  | OPropose who fee bond ft sl => propose (fix20 v) (c_S c) s who fee bond ft sl
  | OAddFee who id fee bond ft sl => add_fee (fix20 v) (c_reporter c) s who id fee bond ft sl
  | OTime now => (set_now s now, OK)
  | OTally status open pending result => (tally s status open pending result, OK)
  | OVotes rs => (set_votes s rs, OK)
  | OExecBlock => exec_block (fixc v) s
  | OExecute id => if (s_id s =? 0) || negb (id =? s_id s) then (s, ENotFound) else execute_vote (fixc v) s
  | OWithdraw who id => withdraw s who id
  | OClaim who id => claim (fix35 v) s who id
  | OEnd => (s, OK)
  end.

Definition run (v : variant) (c : cfg) (s : st) (ops : list op) : st := fold_left (fun x o => fst (step v c x o)) ops s.

Definition init_st (now : Z) (liq stk : list Z) : st :=
  ST now 0 0 0 0 0 Prevote false false 0 false 0 0 [] [] None None [] 0 0 0 liq stk.

(* ================================================================================================= *)
(*  observations of the implementation and the case                                                   *)
(* ================================================================================================= *)
Inductive drec :=
| NoDispute
| DRec (id slash burn feetotal reward status : Z) (open pending : bool) (result : Z) (executed : bool) (end_ : Z).
Record obs := Obs { o_res : Z; o_esc : Z; o_burned : Z; o_dust : Z; o_liq : list Z; o_stk : list Z; o_d : drec }.

Inductive c13_case :=
| Hist (reporter SS now : Z) (init : obs) (steps : list (op * obs)).

Definition zlist_eqb := list_eqb Z.eqb.
Definition drec_of (s : st) : drec :=
  if s_id s =? 0 then NoDispute
  else DRec (s_id s) (s_slash s) (s_burn s) (s_feetotal s) (s_reward s) (s_status s) (s_open s) (s_pending s)
            (s_result s) (s_executed s) (s_end s).
Definition drec_eqb (a b : drec) : bool :=
  match a, b with
  | NoDispute, NoDispute => true
  | DRec i1 s1 b1 f1 r1 t1 o1 p1 v1 e1 n1, DRec i2 s2 b2 f2 r2 t2 o2 p2 v2 e2 n2 =>
      (i1 =? i2) && (s1 =? s2) && (b1 =? b2) && (f1 =? f2) && (r1 =? r2) && (t1 =? t2) && Bool.eqb o1 o2 && Bool.eqb p1 p2
      && (v1 =? v2) && Bool.eqb e1 e2 && (n1 =? n2)
  | _, _ => false
  end.

(* compare the model state after an operation with the observation *)
Definition diff_obs (s : st) (res : Z) (o : obs) : issues :=
  diff_if (res =? o_res o) "result class of the operation"
  ++ diff_if (s_esc s =? o_esc o) "dispute escrow balance"
  ++ diff_if (s_burned s =? o_burned o) "burnt supply"
  ++ diff_if (s_dust s =? o_dust o) "dust store"
  ++ diff_if (zlist_eqb (s_liq s) (o_liq o)) "liquid balances"
  ++ diff_if (zlist_eqb (s_stk s) (o_stk o)) "staked holdings"
  ++ diff_if (drec_eqb (drec_of s) (o_d o)) "dispute record".

(* run the model along the steps; report the first operation that disagrees *)
Fixpoint diff_run (v : variant) (c : cfg) (s : st) (steps : list (op * obs)) : issues :=
  match steps with
  | [] => []
  | (o, ob) :: rest =>
      let '(s', res) := step v c s o in
      match diff_obs s' res ob with
      | [] => diff_run v c s' rest
      | is => is
      end
  end.

(* ================================================================================================= *)
(*  the executable specification, evaluated on the implementation's observations                      *)
(* ================================================================================================= *)
(* The ledger is the spec's own bookkeeping, built from the operations and the observed balances only. *)
Record paid := PD { pd_who : Z; pd_amt : Z; pd_bond : bool; pd_origins : list Z; pd_round : Z }.
Record ledger := LG {
  l_paid : list paid;               (* every accepted payment: who, what reached the escrow, how *)
  l_stake_in : Z;                   (* stake of the reporter's backers that reached the escrow *)
  l_backers : list (Z * Z);         (* ... per backer, as the snapshot says *)
  l_refunded : list Z;              (* payers whose refund was paid *)
  l_refund_out : Z;                 (* refunds paid (fee part) *)
  l_bond_out : Z;                   (* fees credited to the dispute but not received by the escrow (payments from stake) *)
  l_rewarded : list Z;              (* voters whose reward was paid *)
  l_reward_out : Z;
  l_exec : Z;                       (* number of executions seen *)
  l_exec_out : Z;                   (* burn + stake returned at execution *)
  l_votes : list round;             (* last vote facts *)
  l_rounds : Z
}.
Definition lg0 : ledger := LG [] 0 [] [] 0 0 [] 0 0 0 [] 0.

Definition fees_in (l : ledger) : Z := sumz (map pd_amt (l_paid l)).
Definition paid_by (l : ledger) (who : Z) : Z := sumz (map (fun p => if pd_who p =? who then pd_amt p else 0) (l_paid l)).
Definition origins_of (l : ledger) (who : Z) : list Z :=
  flat_map (fun p => if pd_who p =? who then (if pd_bond p then pd_origins p else []) else []) (l_paid l).
Definition bond_payers (l : ledger) : list Z :=
  nodup Z.eq_dec (flat_map (fun p => if pd_bond p then [pd_who p] else []) (l_paid l)).
Definition paid_modes_mixed (l : ledger) (who : Z) : bool :=
  existsb (fun p => (pd_who p =? who) && pd_bond p) (l_paid l) && existsb (fun p => (pd_who p =? who) && negb (pd_bond p)) (l_paid l).

(* pointwise difference of two balance vectors *)
Fixpoint deltas (a b : list Z) : list Z :=
  match a, b with x :: a', y :: b' => (y - x) :: deltas a' b' | _, _ => [] end.
Definition all_zero (l : list Z) : bool := forallb (Z.eqb 0) l.
(* all entries zero except at the positions in [who] *)
Fixpoint zero_except (l : list Z) (who : list Z) (i : Z) : bool :=
  match l with
  | [] => true
  | x :: t => ((x =? 0) || existsb (Z.eqb i) who) && zero_except t who (i + 1)
  end.
Definition nonneg_all (l : list Z) : bool := forallb (Z.leb 0) l.
Definition same_len (a b : list Z) : bool := Nat.eqb (List.length a) (List.length b).

Definition d_status (d : drec) : Z := match d with DRec _ _ _ _ _ t _ _ _ _ _ => t | NoDispute => -1 end.
Definition d_result (d : drec) : Z := match d with DRec _ _ _ _ _ _ _ _ r _ _ => r | NoDispute => 0 end.
Definition d_executed (d : drec) : bool := match d with DRec _ _ _ _ _ _ _ _ _ e _ => e | NoDispute => false end.
Definition d_burn (d : drec) : Z := match d with DRec _ _ b _ _ _ _ _ _ _ _ => b | NoDispute => 0 end.
Definition d_slash (d : drec) : Z := match d with DRec _ s _ _ _ _ _ _ _ _ _ => s | NoDispute => 0 end.
Definition d_feetotal (d : drec) : Z := match d with DRec _ _ _ f _ _ _ _ _ _ _ => f | NoDispute => 0 end.
Definition d_reward (d : drec) : Z := match d with DRec _ _ _ _ r _ _ _ _ _ _ => r | NoDispute => 0 end.
Definition d_id (d : drec) : Z := match d with DRec i _ _ _ _ _ _ _ _ _ _ => i | NoDispute => 0 end.

(* has anybody a claim on the voters' pot?  total recorded voting power over all rounds, team included *)
Definition votes_total (rs : list round) : Z :=
  sumz (map (fun r => match r_counts r with Some g => gsum g | None => 0 end) rs).
(* the three groups that share the pot *)
Definition votes_claimable (rs : list round) : Z :=
  sumz (map (fun r => match r_counts r with Some g => g_users g + g_reps g + g_holders g | None => 0 end) rs).

(* a voter's ideal share of the pot, as the fraction num/den (exact rationals): the pot is split evenly over the
   groups with any recorded power, inside a group by recorded power; user power = tips at the dispute's block *)
Definition ideal_powers (rs : list round) (who : Z) : powers :=
  fold_left (fun pw r =>
    let pw1 := match find (fun v => v_who v =? who) (r_voters r) with
               | Some v => PW (a_users pw + v_tips_blk v) (a_reps pw + v_rep v) (a_holders pw + v_th v) (G_users pw) (G_reps pw) (G_holders pw)
               | None => pw end in
    match r_counts r with
    | Some g => PW (a_users pw1) (a_reps pw1) (a_holders pw1) (G_users pw1 + g_users g) (G_reps pw1 + g_reps g) (G_holders pw1 + g_holders g)
    | None => pw1 end) rs pw0.
Definition ideal_num (pw : powers) (pot : Z) : Z :=
  pot * (a_users pw * nz1 (G_reps pw) * nz1 (G_holders pw) + a_reps pw * nz1 (G_users pw) * nz1 (G_holders pw)
         + a_holders pw * nz1 (G_users pw) * nz1 (G_reps pw)).
Definition ideal_den (pw : powers) : Z := groups pw * nz1 (G_users pw) * nz1 (G_reps pw) * nz1 (G_holders pw).
(* a voter's group powers are consistent: no more than the group's total, zero where the group is empty *)
Definition powers_ok (pw : powers) : bool :=
  (0 <=? a_users pw) && (a_users pw <=? G_users pw) && (0 <=? a_reps pw) && (a_reps pw <=? G_reps pw)
  && (0 <=? a_holders pw) && (a_holders pw <=? G_holders pw).

Definition is_voter (rs : list round) (who : Z) : bool :=
  existsb (fun r => existsb (fun v => v_who v =? who) (r_voters r)) rs.

(* one step of the specification: previous observation, operation, next observation *)
Definition spec_step (reporter SS : Z) (l : ledger) (prev : obs) (o : op) (nxt : obs) : ledger * issues :=
  let dl := deltas (o_liq prev) (o_liq nxt) in
  let ds := deltas (o_stk prev) (o_stk nxt) in
  let desc := o_esc nxt - o_esc prev in
  let dburn := o_burned nxt - o_burned prev in
  let ok := o_res nxt =? OK in
  let unchanged := (desc =? 0) && (dburn =? 0) && all_zero dl && all_zero ds && (o_dust nxt =? o_dust prev) in
  let funds := spec_if (negb (o_res nxt =? EInsufficient)) "funds: an operation failed for lack of funds in the dispute escrow" in
  let shape := spec_if (same_len (o_liq prev) (o_liq nxt) && same_len (o_stk prev) (o_stk nxt)) "shape: account vectors" in
  let failed_noeffect := spec_if (ok || unchanged) "atomic: a refused operation changed balances" in
  let base := funds ++ shape ++ failed_noeffect in
  match o with
  | OPropose who fee bond ft sl | OAddFee who _ fee bond ft sl =>
      if negb ok then (l, base)
      else
        let newround := match o with OPropose _ _ _ _ _ => negb (d_id (o_d prev) =? 0) | _ => false end in
        (* stake of the backers escrowed in this step: the snapshot appeared *)
        let slashed := match sl with Some (os, _) => if negb (d_status (o_d prev) =? Voting) && (d_status (o_d nxt) =? Voting) && negb newround then os else [] | None => [] end in
        let stake_in := sum_snd slashed in
        let amt := desc - stake_in in
        let due := if newround then round_fee SS (l_rounds l)
                   else let room := SS - d_feetotal (o_d prev) in if room <? fee then room else fee in
        let origin_accts := if bond then nodup Z.eq_dec (map fst (match ft with Some (x, _) => x | None => [] end)) else [] in
        let credited := d_feetotal (o_d nxt) - d_feetotal (o_d prev) in
        let l' := LG (l_paid l ++ [PD who credited bond origin_accts (if newround then l_rounds l + 1 else l_rounds l)]) (l_stake_in l + stake_in)
                     (l_backers l ++ slashed) (l_refunded l) (l_refund_out l) (l_bond_out l + (credited - amt)) (l_rewarded l) (l_reward_out l)
                     (l_exec l) (l_exec_out l) (l_votes l) (if newround then l_rounds l + 1 else if l_rounds l =? 0 then 1 else l_rounds l) in
        (l', base
          ++ spec_if (dburn =? 0) "pay: a payment burnt coins"
          ++ spec_if (credited =? due) "pay: the dispute was not credited with the fee due"
          ++ spec_if (if bond then (due - Z.of_nat (List.length origin_accts) <=? amt) && (amt <=? due) else amt =? due)
                     "pay: the escrow did not receive the fee due"
          ++ spec_if (if bond then all_zero dl && (sumz ds =? - amt - stake_in) && zero_except ds (origin_accts ++ map fst slashed) 0
                      else (sumz dl =? - amt) && (getz dl who =? - amt) && (sumz ds =? - stake_in) && zero_except ds (map fst slashed) 0)
                     "pay: the fee was not taken from the payer (or the escrowed stake not from the backers)")
  | OTime _ | OTally _ _ _ _ | OEnd => (l, base ++ spec_if unchanged "frame: balances changed without a settlement operation")
  | OVotes rs =>
      (LG (l_paid l) (l_stake_in l) (l_backers l) (l_refunded l) (l_refund_out l) (l_bond_out l) (l_rewarded l) (l_reward_out l)
          (l_exec l) (l_exec_out l) rs (l_rounds l),
       base ++ spec_if unchanged "frame: balances changed without a settlement operation")
  | OExecBlock | OExecute _ =>
      let was := d_executed (o_d prev) in
      let is := d_executed (o_d nxt) in
      if was || negb is then
        (* no execution happened in this step: nothing may move *)
        (l, base ++ spec_if (ok || match o with OExecBlock => false | _ => true end) "exec: the begin-block execution failed (chain halt)"
               ++ spec_if unchanged "once: execution step moved coins although the dispute was executed before (or is not executed)"
               ++ spec_if (negb (was && ok && match o with OExecute _ => true | _ => false end)) "once: a second execution was accepted")
      else
        let burn := d_burn (o_d prev) in
        let res := d_result (o_d nxt) in
        let voters := 0 <? votes_total (l_votes l) in
        let burn_due := if voters then burn / 2 else burn in
        let pot_due := if voters then burn / 2 else 0 in
        let stake_due := if is_invalid res then l_stake_in l
                         else if is_against res then l_stake_in l + (fees_in l - burn) else 0 in
        let nb := Z.of_nat (List.length (l_backers l)) in
        let returned := sumz ds in
        let l' := LG (l_paid l) (l_stake_in l) (l_backers l) (l_refunded l) (l_refund_out l) (l_bond_out l) (l_rewarded l) (l_reward_out l)
                     (l_exec l + 1) (dburn + returned) (l_votes l) (l_rounds l) in
        (l', base
          ++ spec_if (l_exec l =? 0) "once: the dispute was executed twice"
          ++ spec_if (is_invalid res || is_support res || is_against res) "exec: executed without a result"
          ++ spec_if (dburn =? burn_due) "exec: burn is not half the burn amount (all of it without voters)"
          ++ spec_if (d_reward (o_d nxt) =? pot_due) "exec: voters' pot is not the other half of the burn amount"
          (* the coins go to the bonded pool; each backer is credited the truncated share (up to one loya per origin stays in the pool) *)
          ++ spec_if ((dburn + returned <=? - desc) && (- desc <=? dburn + returned + (if is_against res then nb else 0)))
                     "exec: escrow did not decrease by burn + stake sent back"
          ++ spec_if (all_zero dl && nonneg_all ds && zero_except ds (map fst (l_backers l)) 0)
                     "exec: somebody other than the reporter's backers received coins"
          ++ spec_if (if is_invalid res then zlist_eqb (o_stk nxt) (add_all (o_stk prev) (l_backers l))
                      else (stake_due - nb <=? returned) && (returned <=? stake_due))
                     "exec: stake returned to the backers is not the amount implied by the result")
  | OWithdraw who id =>
      let already := existsb (Z.eqb who) (l_refunded l) in
      if negb ok then
        let st := d_status (o_d prev) in
        let res := d_result (o_d prev) in
        let entitled := negb already && (0 <? paid_by l who) && (id =? d_id (o_d prev)) && negb (id =? 0)
                        && ((st =? Failed) || (d_executed (o_d prev) && (is_invalid res || is_support res))) in
        (l, base ++ spec_if (negb entitled) "claim: a fee payer entitled to a refund was refused")
      else
        let res := d_result (o_d prev) in
        let burnamt := d_burn (o_d prev) in
        let failed := d_status (o_d prev) =? Failed in
        let fin := fees_in l in
        let mine := paid_by l who in
        let pool := fin - burnamt in
        let fee_part := if fin =? 0 then 0 else (mine * pool) / fin in
        let bond_part := if is_support res && negb failed && negb (fin =? 0) then (mine * l_stake_in l) / fin else 0 in
        let frombond := existsb (fun p => (pd_who p =? who) && pd_bond p) (l_paid l) in
        let orig := origins_of l who in
        let no := Z.of_nat (List.length orig) in
        let got_liq := sumz dl in
        let got_stk := sumz ds in
        let dustburn := dburn in
        let l' := LG (l_paid l) (l_stake_in l) (l_backers l) (who :: l_refunded l) (l_refund_out l + got_liq + got_stk) (l_bond_out l)
                     (l_rewarded l) (l_reward_out l) (l_exec l) (l_exec_out l) (l_votes l) (l_rounds l) in
        (l', base
          ++ spec_if (negb already) "once: a fee payer was refunded twice"
          ++ spec_if (0 <? mine) "claim: refund to somebody who paid nothing"
          ++ spec_if (failed || (d_executed (o_d prev) && (is_invalid res || is_support res))) "claim: refund before / without an outcome that refunds"
          ++ spec_if (nonneg_all dl && nonneg_all ds && (0 <=? dustburn) && (got_liq + got_stk + dustburn <=? - desc)
                      && (- desc <=? got_liq + got_stk + dustburn + (if frombond then no else 0)))
                     "refund: escrow did not decrease by what was paid out plus burnt dust"
          ++ spec_if (zero_except dl (if frombond && negb (paid_modes_mixed l who) then [] else [who]) 0
                      && zero_except ds (who :: orig) 0)
                     "refund: somebody other than the payer (and the origins of its stake payment) received coins"
          ++ (if failed then spec_if (got_liq + got_stk <=? mine) "refund: a failed dispute refunded more than was paid"
              else spec_if (if frombond then (fee_part + bond_part - no - 1 <=? got_liq + got_stk) && (got_liq + got_stk <=? fee_part + bond_part)
                            else (got_liq =? fee_part) && (got_stk =? bond_part))
                           "refund: not the payer's pro-rata part of (fees - burn amount) [+ of the reporter's stake]"))
  | OClaim who id =>
      let already := existsb (Z.eqb who) (l_rewarded l) in
      let pw := ideal_powers (l_votes l) who in
      let pot := d_reward (o_d prev) in
      if negb ok then
        let entitled := negb already && d_executed (o_d prev) && (id =? d_id (o_d prev)) && powers_ok pw && (0 <? groups pw)
                        && (ideal_den pw <=? ideal_num pw pot) in     (* ideal share of at least one loya *)
        (l, base ++ spec_if (negb entitled) "claim: a voter entitled to a reward was refused")
      else
        let got := sumz dl in
        let l' := LG (l_paid l) (l_stake_in l) (l_backers l) (l_refunded l) (l_refund_out l) (l_bond_out l)
                     (who :: l_rewarded l) (l_reward_out l + got) (l_exec l) (l_exec_out l) (l_votes l) (l_rounds l) in
        (l', base
          ++ spec_if (negb already) "once: a voter was rewarded twice"
          ++ spec_if (d_executed (o_d prev)) "claim: reward before execution"
          ++ spec_if ((desc =? - got) && (dburn =? 0) && all_zero ds && zero_except dl [who] 0 && (0 <? got))
                     "reward: escrow did not decrease by the reward paid to the voter alone"
          ++ spec_if (l_reward_out l + got <=? pot) "reward: the rewards paid exceed the voters' pot"
          ++ spec_if (negb (powers_ok pw) || (0 <? groups pw) && (got * ideal_den pw <=? ideal_num pw pot) && (ideal_num pw pot <? (got + 2) * ideal_den pw))
                     "reward: not the voter's pro-rata part of the pot")
  end.

Fixpoint spec_run (reporter SS : Z) (l : ledger) (prev : obs) (steps : list (op * obs)) : ledger * issues :=
  match steps with
  | [] => (l, [])
  | (o, nxt) :: rest =>
      let '(l1, i1) := spec_step reporter SS l prev o nxt in
      let '(l2, i2) := spec_run reporter SS l1 nxt rest in
      (l2, i1 ++ i2)
  end.

Fixpoint last_obs (init : obs) (steps : list (op * obs)) : obs :=
  match steps with [] => init | (_, o) :: rest => last_obs o rest end.
Definition has_end (steps : list (op * obs)) : bool := existsb (fun x => match fst x with OEnd => true | _ => false end) steps.

(* after all parties have claimed: what entered the escrow left it again, up to dust *)
Definition parties (l : ledger) : Z :=
  Z.of_nat (List.length (l_paid l)) + Z.of_nat (List.length (l_backers l))
  + Z.of_nat (List.length (flat_map (fun r => r_voters r) (l_votes l))) + Z.of_nat (List.length (flat_map pd_origins (l_paid l))) + 2.
Definition final_spec (l : ledger) (init fin : obs) (steps : list (op * obs)) : issues :=
  if has_end steps then
    spec_if (0 <=? o_esc fin) "final: negative escrow"
    ++ spec_if ((o_esc fin - o_esc init) * PR6 <=? (o_dust fin - o_dust init) + parties l * PR6)
               "final: more than dust is left in the dispute escrow after every party has claimed"
  else [].

Definition repo_fix_F20 : bool := true.
Definition repo_fix_F35 : bool := true.
Definition repo_fix_C13c : bool := true.
Definition repo_variant : variant := VA repo_fix_F20 repo_fix_F35 repo_fix_C13c.

Definition c13_spec (c : c13_case) : issues :=
  match c with
  | Hist reporter SS now init steps =>
      let '(l, is) := spec_run reporter SS lg0 init steps in
      is ++ final_spec l init (last_obs init steps) steps
  end.

Definition c13_check (c : c13_case) : issues :=
  match c with
  | Hist reporter SS now init steps =>
      c13_spec c
      ++ diff_run repo_variant (CF reporter SS) (init_st now (o_liq init) (o_stk init)) steps
  end.

(* ---- signature predicates of the known findings ---------------------------------------------------- *)
Definition ops_of (c : c13_case) : list op := match c with Hist _ _ _ _ steps => map fst steps end.
Definition obs_of (c : c13_case) : list obs := match c with Hist _ _ _ init steps => init :: map snd steps end.
(* accepted payments (who, bond) *)
Definition accepted_payments (c : c13_case) : list (Z * bool) :=
  match c with Hist _ _ _ _ steps =>
    flat_map (fun x => if o_res (snd x) =? OK then
                         match fst x with OPropose w _ b _ _ | OAddFee w _ _ b _ _ => [(w, b)] | _ => [] end
                       else []) steps end.
Definition count_occ_z (l : list Z) (x : Z) : nat := List.length (filter (Z.eqb x) l).
(* F20: somebody paid twice *)
Definition class_F20 (c : c13_case) : bool :=
  let ws := map fst (accepted_payments c) in existsb (fun w => Nat.ltb 1 (count_occ_z ws w)) ws.
(* F21: the dispute failed for lack of funding (and is still failed at the end of the history: a dispute that was marked
   failed and later went to the vote is not of this class) *)
Definition class_F21 (c : c13_case) : bool :=
  match c with Hist _ _ _ init steps => d_status (o_d (last_obs init steps)) =? Failed end.
(* F22: more than one round *)
Definition class_F22 (c : c13_case) : bool := existsb (fun o => 1 <? d_id (o_d o)) (obs_of c).
(* F23: two different payers paid from stake *)
Definition class_F23 (c : c13_case) : bool :=
  Nat.ltb 1 (List.length (nodup Z.eq_dec (flat_map (fun p : Z * bool => if snd p then [fst p] else []) (accepted_payments c)))).
(* F35: a voter's tips at the dispute's block differ from its tips at block number = dispute id *)
Definition class_F35 (c : c13_case) : bool :=
  existsb (fun o => match o with OVotes rs => existsb (fun r => existsb (fun v => negb (v_tips_blk v =? v_tips_id v)) (r_voters r)) rs | _ => false end) (ops_of c).
(* C13a: votes were cast (so half the burn amount is kept for the voters) but none in the three rewarded groups *)
Definition class_C13a (c : c13_case) : bool :=
  existsb (fun o => match o with OVotes rs => (0 <? votes_total rs) && (votes_claimable rs =? 0) | _ => false end) (ops_of c).

(* C13b: a fee paid from stake was credited in full although the reporter module moved less into the escrow *)
Definition class_C13b (c : c13_case) : bool :=
  match c with Hist r SS _ init steps => 0 <? l_bond_out (fst (spec_run r SS lg0 init steps)) end.

(* C13c: more fee was accepted for a dispute that had been executed *)
Fixpoint fee_after_exec (prev : obs) (l : list (op * obs)) : bool :=
  match l with
  | [] => false
  | (o, nx) :: r =>
      (match o with OAddFee _ _ _ _ _ _ => (o_res nx =? OK) && d_executed (o_d prev) | _ => false end) || fee_after_exec nx r
  end.
Definition class_C13c (c : c13_case) : bool := match c with Hist _ _ _ init steps => fee_after_exec init steps end.

Definition c13_classes (c : c13_case) : list string :=
  match c13_spec c with
  | [] => []
  | _ => (if class_F20 c then ["F20"%string] else []) ++ (if class_F21 c then ["F21"%string] else [])
         ++ (if class_F22 c then ["F22"%string] else []) ++ (if class_F23 c then ["F23"%string] else [])
         ++ (if class_F35 c then ["F35"%string] else []) ++ (if class_C13a c then ["C13a"%string] else [])
         ++ (if class_C13b c then ["C13b"%string] else []) ++ (if class_C13c c then ["C13c"%string] else [])
  end.
