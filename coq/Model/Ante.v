(* C18 — model of x/reporter/ante/ante.go (TrackStakeChangesDecorator.AnteHandle) and of
   x/reporter/keeper/keeper.go (TrackStakeChange, run in the reporter EndBlocker).

   Amounts are math.Int (unbounded) => Z.  QuoRaw(20) is big.Int.Quo (truncation) => Z.quot.
   Time is unix nanoseconds (Z).  The decorator reads the tracker and the current total
   bonded tokens inside the loop, once per staking message; neither changes during the ante
   handler, so they are parameters of the loop.

   [cum = true]  : increases and decreases are accumulated over the whole transaction
                   (the code after the fix of finding F29);
   [cum = false] : every message is compared alone (the code as found). *)
From Coq Require Import ZArith List Bool String.
From Verif Require Import Base.Harness.
Import ListNotations.
Open Scope Z_scope.

Inductive stake_msg :=
| MCreate (a : Z) | MDelegate (a : Z) | MRedelegate (a : Z) | MCancelUnbond (a : Z)
| MUndelegate (a : Z) | MOther.

(* the [msgAmount] of the Go switch; [None] = `default: continue` *)
Definition msg_amount (m : stake_msg) : option Z :=
  match m with
  | MCreate a | MDelegate a | MRedelegate a | MCancelUnbond a => Some a
  | MUndelegate a => Some (- a)
  | MOther => None
  end.

Definition lower_bound (A : Z) : Z := A - Z.quot A 20.
Definition upper_bound (A : Z) : Z := A + Z.quot A 20.

Fixpoint ante_loop (cum : bool) (A cur inc dec : Z) (ms : list stake_msg) : bool :=
  match ms with
  | [] => true
  | m :: r =>
    match msg_amount m with
    | None => ante_loop cum A cur inc dec r
    | Some a =>
      if a <? 0 then
        let dec' := if cum then dec + a else a in
        if cur + dec' <? lower_bound A then false else ante_loop cum A cur inc dec' r
      else
        let inc' := if cum then inc + a else a in
        if upper_bound A <? cur + inc' then false else ante_loop cum A cur inc' dec r
    end
  end.

Inductive ante_result := Next | PassWithoutNext | Reject.

Definition has_stake_msg (ms : list stake_msg) : bool :=
  existsb (fun m => match msg_amount m with Some _ => true | None => false end) ms.

(* tracker = None: collections.ErrNotFound => `return ctx, nil` at the first staking message *)
Definition ante (cum : bool) (tracker : option Z) (cur : Z) (ms : list stake_msg) : ante_result :=
  match tracker with
  | None => if has_stake_msg ms then PassWithoutNext else Next
  | Some A => if ante_loop cum A cur 0 0 ms then Next else Reject
  end.

(* ---- what the property talks about ------------------------------------------------ *)
Fixpoint sum_inc (ms : list stake_msg) : Z :=
  match ms with
  | [] => 0
  | m :: r => (match msg_amount m with Some a => if a <? 0 then 0 else a | None => 0 end) + sum_inc r
  end.
Fixpoint sum_dec (ms : list stake_msg) : Z :=   (* as a non-negative quantity *)
  match ms with
  | [] => 0
  | m :: r => (match msg_amount m with Some a => if a <? 0 then - a else 0 | None => 0 end) + sum_dec r
  end.

Definition amounts_nonneg (ms : list stake_msg) : bool :=
  forallb (fun m => match m with
                    | MCreate a | MDelegate a | MRedelegate a | MCancelUnbond a | MUndelegate a => 0 <=? a
                    | MOther => true end) ms.

Definition has_inc (ms : list stake_msg) : bool :=
  existsb (fun m => match msg_amount m with Some a => negb (a <? 0) | None => false end) ms.
Definition has_dec (ms : list stake_msg) : bool :=
  existsb (fun m => match msg_amount m with Some a => a <? 0 | None => false end) ms.

(* executable specification of the admission bound, for a transaction that was admitted:
   with at least one stake-adding message, current + combined additions <= A + A/20;
   with at least one stake-removing message, current - combined removals >= A - A/20. *)
Definition within_bounds (A cur : Z) (ms : list stake_msg) : bool :=
  (negb (has_inc ms) || (cur + sum_inc ms <=? upper_bound A))
  && (negb (has_dec ms) || (lower_bound A <=? cur - sum_dec ms)).

(* ---- the tracker (reporter EndBlocker) ---------------------------------------------- *)
Record tracker := { t_amount : Z; t_expiration : Z }.       (* expiration: unix ns *)
Definition twelve_hours_ns : Z := 12 * 3600 * 1000000000.

Definition track_stake_change (now total : Z) (t : tracker) : tracker :=
  if now <? t_expiration t then t
  else {| t_amount := total; t_expiration := now + twelve_hours_ns |}.

(* ---- correspondence cases ----------------------------------------------------------- *)
Inductive c18_case :=
| AnteCase (tracker : option Z) (cur : Z) (ms : list stake_msg)
           (impl_err : bool) (impl_next_called : bool)
| TrackCase (now total amount expiration : Z) (impl_amount impl_expiration : Z).

Definition result_eqb (a b : ante_result) : bool :=
  match a, b with Next, Next | PassWithoutNext, PassWithoutNext | Reject, Reject => true | _, _ => false end.

Definition impl_result (err next_called : bool) : ante_result :=
  if err then Reject else if next_called then Next else PassWithoutNext.

Definition c18_check (c : c18_case) : issues :=
  match c with
  | AnteCase tr cur ms err nxt =>
      (* the property, evaluated on what the implementation did *)
      (match tr with
       | Some A => if negb err
                   then spec_if (within_bounds A cur ms) "admitted transaction exceeds the 5% bound on its combined amounts"
                   else []
       | None => []
       end)
      ++ diff_if (result_eqb (ante true tr cur ms) (impl_result err nxt)) "ante result"
  | TrackCase now total a e ia ie =>
      spec_if ((now <? e) && (ia =? a) && (ie =? e) || negb (now <? e) && (ia =? total) && (ie =? now + twelve_hours_ns))
              "tracker refreshed before expiry or not refreshed to (total, now+12h) after it"
      ++ diff_if (let t := track_stake_change now total {| t_amount := a; t_expiration := e |} in
                  (t_amount t =? ia) && (t_expiration t =? ie)) "tracker"
  end.

(* signature predicate of finding F29: every message alone passes, the combination does not *)
Definition c18_classes (c : c18_case) : list string :=
  match c with
  | AnteCase (Some A) cur ms _ _ =>
      if ante_loop false A cur 0 0 ms && negb (ante_loop true A cur 0 0 ms) then ["F29"%string] else []
  | _ => []
  end.
