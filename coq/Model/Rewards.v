(* C09 (and the reward part of C01/C04) — model of x/oracle/keeper/rewards.go
   (AllocateRewards, CalculateRewardAmount) and x/reporter/keeper/distribution.go (DivvyingTips).

   Dec values are Z scaled by 10^18 (Base/Dec.v).  Reporters are numbered by the rank of
   their bech32 address string (the harness names them that way), so `sort by address` is
   `sort by id`.  Powers are uint64 in Go; the model is exact while the total stays < 2^63. *)
From Coq Require Import ZArith List Bool String.
From Verif Require Import Base.Harness Base.Dec.
Import ListNotations.
Open Scope Z_scope.

(* ---- CalculateRewardAmount: power.Quo(tPower).Mul(reward) ------------------------------ *)
Definition calc_reward (p n T R : Z) : Z :=
  dec_mul (dec_quo (dec_mul (of_int p) (of_int n)) (of_int T)) (of_int R).

(* ---- AllocateRewards --------------------------------------------------------------------- *)
(* an aggregate = its reporter list (id, power, block number) and its query id (a tag) *)
Record agg := { g_query : Z; g_reporters : list (Z * Z * Z) }.

Record rinfo := { i_id : Z; i_power : Z; i_reports : Z; i_height : Z; i_query : Z }.

(* first pass: the map, kept as an association list in first-seen order.
   acc_power = true : a reporter's powers are accumulated (after the fix of F16);
   acc_power = false: first-seen power, multiplied by the number of reports later (code as found) *)
Fixpoint map_add (acc_power : bool) (m : list rinfo) (q : Z) (r : Z * Z * Z) : list rinfo :=
  let '(id, pw, h) := r in
  match m with
  | [] => [{| i_id := id; i_power := pw; i_reports := 1; i_height := h; i_query := q |}]
  | x :: t =>
      if i_id x =? id
      then {| i_id := id; i_power := (if acc_power then i_power x + pw else i_power x);
              i_reports := i_reports x + 1; i_height := i_height x; i_query := i_query x |} :: t
      else x :: map_add acc_power t q r
  end.

Definition collect (acc_power : bool) (aggs : list agg) : list rinfo :=
  fold_left (fun m g => fold_left (fun m' r => map_add acc_power m' (g_query g) r) (g_reporters g) m) aggs [].

Definition total_power (aggs : list agg) : Z :=
  fold_left (fun s g => fold_left (fun s' r => s' + snd (fst r)) (g_reporters g) s) aggs 0.

(* sort.Slice by address; ids are distinct, so every sort gives the same list *)
Fixpoint insert_by_id (x : rinfo) (l : list rinfo) : list rinfo :=
  match l with
  | [] => [x]
  | y :: t => if i_id x <=? i_id y then x :: y :: t else y :: insert_by_id x t
  end.
Definition sort_by_id (l : list rinfo) : list rinfo := fold_right insert_by_id [] l.

Definition weight (acc_power : bool) (x : rinfo) : Z * Z :=   (* (power, count) given to CalculateRewardAmount *)
  if acc_power then (i_power x, 1) else (i_power x, i_reports x).

(* the loop with the remainder for the last reporter: (id, amount, query, height) per AllocateTip *)
Fixpoint pay_loop (acc_power : bool) (T R : Z) (dist : Z) (l : list rinfo) : list (Z * Z * Z * Z) :=
  match l with
  | [] => []
  | x :: t =>
      let '(p, n) := weight acc_power x in
      let amount := calc_reward p n T R in
      let dist' := dist + amount in
      match t with
      | [] => [(i_id x, amount + (of_int R - dist'), i_query x, i_height x)]
      | _ => (i_id x, amount, i_query x, i_height x) :: pay_loop acc_power T R dist' t
      end
  end.

(* the map iteration order is a parameter: any permutation [order] of the collected entries *)
Definition allocate_rewards_ord (acc_power : bool) (order : list rinfo) (aggs : list agg) (R : Z)
  : list (Z * Z * Z * Z) :=
  if R =? 0 then [] else pay_loop acc_power (total_power aggs) R 0 (sort_by_id order).

Definition allocate_rewards (acc_power : bool) (aggs : list agg) (R : Z) : list (Z * Z * Z * Z) :=
  allocate_rewards_ord acc_power (collect acc_power aggs) aggs R.

(* ---- DivvyingTips ------------------------------------------------------------------------ *)
(* origins: (delegator id, amount) per token origin (a delegator with several validators has
   several); commission_once = true: credited once after the loop (after the fix of F05);
   false: added inside the loop to every origin of the reporter itself (code as found) *)
Definition share (net amt total : Z) : Z := dec_quo (dec_mul net (of_int amt)) (of_int total).

Definition divvy_credits (commission_once : bool) (reporter rate reward : Z) (origins : list (Z * Z)) (total : Z)
  : list (Z * Z) :=
  let commission := dec_mul reward rate in
  let net := reward - commission in
  map (fun o => (fst o, share net (snd o) total
                        + (if negb commission_once && (fst o =? reporter) then commission else 0))) origins
  ++ (if commission_once && negb (commission =? 0) then [(reporter, commission)] else []).

(* per-delegator totals, as SelectorTips shows them *)
Fixpoint credit_of (d : Z) (cs : list (Z * Z)) : Z :=
  match cs with [] => 0 | c :: t => (if fst c =? d then snd c else 0) + credit_of d t end.

Fixpoint sumz (l : list Z) : Z := match l with [] => 0 | x :: t => x + sumz t end.

(* ---- executable specifications ------------------------------------------------------------ *)
Definition amounts (pays : list (Z * Z * Z * Z)) : list Z := map (fun p => snd (fst (fst p))) pays.

(* total weight of reporter id over the aggregates: the sum of its powers *)
Definition power_in (id : Z) (aggs : list agg) : Z :=
  fold_left (fun s g => fold_left (fun s' r => if fst (fst r) =? id then s' + snd (fst r) else s') (g_reporters g) s) aggs 0.

Definition alloc_spec (aggs : list agg) (R : Z) (pays : list (Z * Z * Z * Z)) : issues :=
  let T := total_power aggs in
  spec_if (sumz (amounts pays) =? of_int R) "amounts handed to the reporters do not sum to the reward"
  ++ spec_if (forallb (fun a => 0 <=? a) (amounts pays)) "a reporter's part of the reward is negative"
  (* proportionality, for all but the last reporter: |amount*T - R*power*10^18| <= (R+1)*T  (10^-18 units) *)
  ++ spec_if (forallb (fun p => let '(id, a, _, _) := p in
                                 Z.abs (a * T - R * power_in id aggs * P) <=? (R + 1) * T)
                      (removelast pays))
             "a reporter's part is not proportional to the power it contributed".

Definition in_range_rate (rate : Z) : bool := (0 <=? rate) && (rate <=? P).

Definition origins_of (d : Z) (origins : list (Z * Z)) : list Z :=
  map snd (filter (fun o => fst o =? d) origins).

Definition dedup_ids (l : list Z) : list Z :=
  fold_right (fun x acc => if existsb (Z.eqb x) acc then acc else x :: acc) [] l.

(* credits: the per-delegator totals observed (delegator id, credit) *)
Definition divvy_spec (reporter rate reward : Z) (origins : list (Z * Z)) (total : Z) (credits : list (Z * Z)) : issues :=
  let commission := dec_mul reward rate in
  let net := reward - commission in
  let n := Z.of_nat (List.length origins) in
  spec_if (forallb (fun c => 0 <=? snd c) credits) "a selector's credit is negative"
  ++ spec_if (Z.abs (sumz (map snd credits) - reward) <=? n) "credits do not sum to the reward within 10^-18 per credit"
  ++ spec_if (forallb (fun c => let d := fst c in
                         let own := origins_of d origins in
                         Z.abs (snd c * total - (net * sumz own + (if d =? reporter then commission * total else 0)))
                         <=? Z.of_nat (List.length own) * total) credits)
             "a credit is not the selector's pro-rata share (plus the commission exactly once for the reporter)".

(* ---- correspondence cases ----------------------------------------------------------------- *)
Definition pay_eqb (a b : Z * Z * Z * Z) : bool :=
  let '(a1, a2, a3, a4) := a in let '(b1, b2, b3, b4) := b in (a1 =? b1) && (a2 =? b2) && (a3 =? b3) && (a4 =? b4).
Definition pair_eqb (a b : Z * Z) : bool := (fst a =? fst b) && (snd a =? snd b).

Definition multi_power (aggs : list agg) : bool :=      (* class F16: a reporter with unequal powers in several aggregates *)
  let m := collect false aggs in
  existsb (fun x => negb (i_power x * i_reports x =? power_in (i_id x) aggs)) m.

Inductive c09_case :=
(* AllocateRewards on [aggs] with reward R: the AllocateTip calls (id, amount, query, height) in
   call order, for [length impls] identical executions (map order is re-randomised each time) *)
| AllocCase (aggs : list agg) (R : Z) (impls : list (list (Z * Z * Z * Z)))
| CalcCase (p n T R : Z) (impl : Z)
(* DivvyingTips: SelectorTips deltas per delegator, sorted by id *)
| DivvyCase (reporter rate reward : Z) (origins : list (Z * Z)) (total : Z) (credits : list (Z * Z))
(* the end blocker's aggregation pass (SetAggregatedReport) over the rounds that close in one block, in key order:
   (eligible for time based rewards = reports carry the cycle-list flag, unpaid tip, the aggregate's reporters); R = the
   balance of the time based rewards pool; impl = one entry per AllocateRewards call: (source pool: 1 oracle / 2 time
   based rewards, coins moved, the AllocateTip calls) *)
| EligCase (rounds : list (bool * Z * agg)) (R : Z) (impl : list (Z * Z * list (Z * Z * Z * Z))).

Definition domain_ok_alloc (aggs : list agg) (R : Z) : bool :=
  let T := total_power aggs in
  (0 <? R) && (0 <? T) && (Z.of_nat (List.length (collect true aggs)) * T <=? 100000000000000000).

(* what SetAggregatedReport pays: every tipped round its tip, to its own reporters; then the time based rewards, once,
   to the reporters of the eligible rounds only *)
Definition elig_expected (rounds : list (bool * Z * agg)) (R : Z) : list (Z * Z * list (Z * Z * Z * Z)) :=
  flat_map (fun r => let '(_, tip, a) := r in if tip =? 0 then [] else [(1, tip, allocate_rewards true [a] tip)]) rounds
  ++ (let el := map (fun r => snd r) (filter (fun r => fst (fst r)) rounds) in
      match el with
      | [] => []
      | _ => if R =? 0 then [] else [(2, R, allocate_rewards true el R)]
      end).
Definition call_eqb (a b : Z * Z * list (Z * Z * Z * Z)) : bool :=
  (fst (fst a) =? fst (fst b)) && (snd (fst a) =? snd (fst b)) && list_eqb pay_eqb (snd a) (snd b).
Definition reporters_of_rounds (rs : list (bool * Z * agg)) : list Z :=
  flat_map (fun r => map (fun x => fst (fst x)) (g_reporters (snd r))) rs.

Definition c09_check (c : c09_case) : issues :=
  match c with
  | AllocCase aggs R impls =>
      (* entries with id -2 are the coins AllocateRewards moved into the tips escrow pool (bank send):
         exactly one, of exactly the reward *)
      let pays := fun impl : list (Z * Z * Z * Z) => filter (fun c => let '(id, _, _, _) := c in negb (id =? -2)) impl in
      let sends := fun impl : list (Z * Z * Z * Z) => map (fun c => let '(_, a, _, _) := c in a) (filter (fun c => let '(id, _, _, _) := c in id =? -2) impl) in
      flat_map (fun impl => if domain_ok_alloc aggs R then alloc_spec aggs R (pays impl) else []) impls
      ++ flat_map (fun impl => spec_if (match impl with [] => true | _ => list_eqb Z.eqb (sends impl) [R] end)
                                       "the coins moved into the tips escrow pool are not exactly the reward") impls
      ++ diff_if (forallb (fun impl => list_eqb pay_eqb (allocate_rewards true aggs R) (pays impl)) impls) "AllocateRewards payments"
  | CalcCase p n T R impl => diff_if (calc_reward p n T R =? impl) "CalculateRewardAmount"
  | DivvyCase reporter rate reward origins total credits =>
      (* every rate accepted by CreateReporter (<= 100) is in the property's range *)
      (if (rate <=? 100 * P) && (0 <=? reward) && (0 <? total) && (total =? sumz (map snd origins))
          && forallb (fun o => 0 <=? snd o) origins
       then divvy_spec reporter rate reward origins total credits else [])
      ++ diff_if (let m := divvy_credits true reporter rate reward origins total in
                  let ids := dedup_ids (map fst credits ++ map fst m) in
                  forallb (fun d => credit_of d m =? credit_of d credits) ids) "DivvyingTips credits"
  | EligCase rounds R impl =>
      let eligible := reporters_of_rounds (filter (fun r => fst (fst r)) rounds) in
      let tbr_calls := filter (fun c => fst (fst c) =? 2) impl in
      spec_if (forallb (fun c => forallb (fun p => let '(id, _, _, _) := p in existsb (Z.eqb id) eligible) (snd c)) tbr_calls)
              "time based rewards were paid to a reporter of a round that is neither in the cycle list nor a bridge deposit"
      ++ spec_if (Nat.leb (List.length tbr_calls) 1) "time based rewards were paid out more than once in one block"
      ++ spec_if (forallb (fun c => snd (fst c) =? R) tbr_calls) "the time based rewards paid are not the balance of the pool"
      ++ spec_if (match filter (fun r => fst (fst r)) rounds with [] => true | _ => (R =? 0) || negb (Nat.eqb (List.length tbr_calls) 0) end)
                 "an eligible aggregate was made but no time based rewards were paid"
      ++ diff_if (list_eqb call_eqb (elig_expected rounds R) impl) "SetAggregatedReport payments"
  end.

Definition multi_origin_reporter (reporter : Z) (origins : list (Z * Z)) : bool :=
  negb (Z.of_nat (List.length (origins_of reporter origins)) =? 1).

Definition c09_classes (c : c09_case) : list string :=
  match c with
  | AllocCase aggs _ _ => if multi_power aggs then ["F16"%string] else []
  | DivvyCase reporter rate _ origins _ _ =>
      (if negb (in_range_rate rate) then ["F06"%string] else [])
      ++ (if multi_origin_reporter reporter origins && negb (rate =? 0) then ["F05"%string] else [])
  | _ => []
  end.
