(* C15 — bridge byte encodings: the chain (Go) side and the contract (Solidity) side.

   Two models written from two sources.

   GO SIDE (x/bridge/keeper/keeper.go, claim_deposit.go, withdraw_tokens.go, app/extend_vote.go):
     [go_valset_bytes]         EncodeAndHashValidatorSet: hand-rolled offset(32) ‖ len ‖ Σ Pack(address,uint256)
     [go_checkpoint_preimage]  CalculateValidatorSetCheckpoint: Pack(bytes32 "checkpoint", uint256, uint256, bytes32)
     [go_attest_preimage]      EncodeOracleAttestationData: Pack of 9 fields, value hex-decoded to `bytes`
     [go_query_data]           GetDepositQueryId / GetWithdrawalQueryId
     [go_withdraw_value]       GetWithdrawalReportValue
     [go_threshold]            SetBridgeValidatorParams: uint64 sum, `totalPower * 2 / 3` in uint64
     go-ethereum's `abi.Arguments.Pack` is modelled as the loop it is ([geth_pack]: running
     offset, fixed part and variable part accumulated left to right); Go's conversions are
     modelled as they are: `copy` into a [32]byte (truncate / zero-pad on the right),
     `common.BytesToAddress` (keep the LAST 20 bytes, zero-pad on the left),
     `packBytesSlice` (length word, right-pad to (l+31)/32*32), `hex.DecodeString`.

   SOLIDITY SIDE (evm/contracts/bridge/BlobstreamO.sol, Constants.sol, token-bridge/TokenBridge.sol):
     [abi_encode] is the ABI specification's formula enc(X1..Xk) = head(X1)..head(Xk) tail(X1)..tail(Xk);
     [sol_valset_bytes]          abi.encode(_currentValidatorSet)           (Validator[] of (address,uint256))
     [sol_domain_separate]       _domainSeparateValidatorSetHash
     [sol_data_digest_preimage]  verifyOracleData
     [sol_query_data]            abi.encode("TRBBridge", abi.encode(bool, uint256))
     [sol_decode_withdraw_value] abi.decode(value, (address,string,uint256,uint256))
     [sol_verify_payload]        _verifySig: sha256(abi.encodePacked(_digest))

   Bytes are lists of Z in [0,256).  keccak-256 and sha-256 are implemented here as executable
   functions ([keccak256], [sha256]; definitions only — they are validated against the
   digests of the real code on every run and against the standard test vectors in the proofs
   file); the theorems are stated for an arbitrary hash function (Section variable).

   Variant flag of [go_threshold]: false = the code as found (finding F25: sum and doubling are
   uint64 and wrap for total power >= 2^63), true = overflow-free ⌊2T/3⌋ (fix_F25.diff).
   Definitions only; proofs are in Proofs/BridgeEncProofs.v. *)
From Coq Require Import ZArith List Bool String Ascii.
From Verif Require Import Base.Harness.
Import ListNotations.
Open Scope Z_scope.

Definition bytes := list Z.

Definition blen (b : bytes) : Z := Z.of_nat (List.length b).
Definition byte_ok (b : Z) : bool := (0 <=? b) && (b <? 256).
Definition bytes_ok (l : bytes) : bool := forallb byte_ok l.
Definition bytes_eqb (a b : bytes) : bool := list_eqb Z.eqb a b.
Definition obytes_eqb (a b : option bytes) : bool :=
  match a, b with Some x, Some y => bytes_eqb x y | None, None => true | _, _ => false end.

(* big-endian encoding of x on n bytes (x taken modulo 256^n) *)
Fixpoint be (n : nat) (x : Z) : bytes :=
  match n with O => [] | S k => be k (x / 256) ++ [x mod 256] end.
Definition of_be (l : bytes) : Z := fold_left (fun acc b => acc * 256 + b) l 0.
Definition zeros (n : nat) : bytes := repeat 0 n.
Definition word (x : Z) : bytes := be 32 x.

(* ---- strings and hexadecimal -------------------------------------------------------------- *)
Fixpoint str_bytes (s : string) : bytes :=
  match s with EmptyString => [] | String c r => Z.of_N (N_of_ascii c) :: str_bytes r end.

Definition hex_val (c : ascii) : option Z :=
  let n := Z.of_N (N_of_ascii c) in
  if (48 <=? n) && (n <=? 57) then Some (n - 48)
  else if (97 <=? n) && (n <=? 102) then Some (n - 87)
  else if (65 <=? n) && (n <=? 70) then Some (n - 55)
  else None.

(* encoding/hex.DecodeString: odd length or a non-hex character is an error *)
Fixpoint hex_decode (s : string) : option bytes :=
  match s with
  | EmptyString => Some []
  | String _ EmptyString => None
  | String a (String b r) =>
      match hex_val a, hex_val b, hex_decode r with
      | Some x, Some y, Some t => Some (16 * x + y :: t)
      | _, _, _ => None
      end
  end.

Definition hex_digit (d : Z) : ascii :=
  ascii_of_N (Z.to_N (if d <? 10 then 48 + d else 87 + d)).
(* encoding/hex.EncodeToString (lower case) *)
Fixpoint hex_encode (b : bytes) : string :=
  match b with [] => EmptyString | x :: r => String (hex_digit (x / 16)) (String (hex_digit (x mod 16)) (hex_encode r)) end.

(* =========================================================================================== *)
(* The ABI specification (Solidity side)                                                        *)
(* =========================================================================================== *)
(* an argument is either static (its encoding goes into the head) or dynamic (its encoding is
   the tail, the head holds the offset of the tail from the start of the enclosing encoding) *)
Inductive arg := Static (w : bytes) | Dynamic (tl : bytes).

Definition head_len (a : arg) : Z := match a with Static w => blen w | Dynamic _ => 32 end.
Definition heads_len (args : list arg) : Z := fold_right (fun a s => head_len a + s) 0 args.

(* heads, given the offset at which the next tail will start *)
Fixpoint spec_heads (args : list arg) (off : Z) : bytes :=
  match args with
  | [] => []
  | Static w :: r => w ++ spec_heads r off
  | Dynamic tl :: r => word off ++ spec_heads r (off + blen tl)
  end.
Fixpoint spec_tails (args : list arg) : bytes :=
  match args with
  | [] => []
  | Static _ :: r => spec_tails r
  | Dynamic tl :: r => tl ++ spec_tails r
  end.
Definition abi_encode (args : list arg) : bytes := spec_heads args (heads_len args) ++ spec_tails args.

(* bytes / string: length word, then the content right-padded to a multiple of 32 *)
Definition pad32 (b : bytes) : bytes := b ++ zeros ((32 - List.length b mod 32) mod 32).
Definition enc_dyn_bytes (b : bytes) : bytes := word (blen b) ++ pad32 b.
(* T[] with static element type: length word, then the elements *)
Definition enc_array_static {A} (enc : A -> bytes) (l : list A) : bytes :=
  word (Z.of_nat (List.length l)) ++ List.concat (map enc l).
Definition sol_bool (b : bool) : Z := if b then 1 else 0.

(* ---- Constants.sol --------------------------------------------------------------------------- *)
Definition NEW_REPORT_ATTESTATION_DOMAIN_SEPARATOR : Z :=
  0x74656c6c6f7243757272656e744174746573746174696f6e0000000000000000.
Definition VALIDATOR_SET_HASH_DOMAIN_SEPARATOR : Z :=
  0x636865636b706f696e7400000000000000000000000000000000000000000000.

(* ---- BlobstreamO.sol ------------------------------------------------------------------------ *)
(* struct Validator { address addr; uint256 power; } — an address is a number below 2^160 *)
Record sol_validator := SV { sv_addr : Z; sv_power : Z }.
Definition enc_validator (v : sol_validator) : bytes := word (sv_addr v) ++ word (sv_power v).

(* keccak256(abi.encode(_currentValidatorSet)) : the preimage *)
Definition sol_valset_bytes (vs : list sol_validator) : bytes :=
  abi_encode [Dynamic (enc_array_static enc_validator vs)].

(* _domainSeparateValidatorSetHash: abi.encode(VALIDATOR_SET_HASH_DOMAIN_SEPARATOR, _powerThreshold,
   _validatorTimestamp, _validatorSetHash); a bytes32 is its 32 bytes *)
Definition sol_domain_separate (thr ts : Z) (hash : bytes) : bytes :=
  abi_encode [Static (word VALIDATOR_SET_HASH_DOMAIN_SEPARATOR); Static (word thr); Static (word ts); Static hash].

(* verifyOracleData: abi.encode(NEW_REPORT_ATTESTATION_DOMAIN_SEPARATOR, queryId, report.value,
   report.timestamp, report.aggregatePower, report.previousTimestamp, report.nextTimestamp,
   lastValidatorSetCheckpoint, attestationTimestamp) *)
Definition sol_data_digest_preimage (qid value : bytes) (ts power prev next : Z) (cp : bytes) (ats : Z) : bytes :=
  abi_encode [Static (word NEW_REPORT_ATTESTATION_DOMAIN_SEPARATOR); Static qid; Dynamic (enc_dyn_bytes value);
              Static (word ts); Static (word power); Static (word prev); Static (word next);
              Static cp; Static (word ats)].

(* _verifySig: _digest = sha256(abi.encodePacked(_digest)); abi.encodePacked of one bytes32 is its 32 bytes *)
Definition encode_packed_bytes32 (d : bytes) : bytes := d.
Definition sol_verify_payload (sha : bytes -> bytes) (digest : bytes) : bytes := sha (encode_packed_bytes32 digest).

(* ---- TokenBridge.sol ------------------------------------------------------------------------- *)
(* abi.encode("TRBBridge", abi.encode(_toLayer, _depositId)) — string literal => string, inner => bytes *)
Definition TRBBridge : bytes := str_bytes "TRBBridge".
Definition sol_query_data (to_layer : bool) (id : Z) : bytes :=
  abi_encode [Dynamic (enc_dyn_bytes TRBBridge);
              Dynamic (enc_dyn_bytes (abi_encode [Static (word (sol_bool to_layer)); Static (word id)]))].

(* abi.decode(_attestData.report.value, (address, string, uint256, uint256)) *)
Definition word_at (v : bytes) (i : Z) : Z := of_be (firstn 32 (skipn (Z.to_nat i) v)).
Record withdraw_fields := WF { wf_recipient : Z; wf_sender : bytes; wf_amount : Z; wf_tip : Z }.
Definition sol_decode_withdraw_value (v : bytes) : option withdraw_fields :=
  if blen v <? 128 then None else
  let a := word_at v 0 in
  if 2 ^ 160 <=? a then None else          (* 0.8 decoder reverts on dirty address bits *)
  let off := word_at v 32 in
  if blen v <? off + 32 then None else
  let len := word_at v off in
  if blen v <? off + 32 + len then None else
  Some (WF a (firstn (Z.to_nat len) (skipn (Z.to_nat (off + 32)) v)) (word_at v 64) (word_at v 96)).

(* =========================================================================================== *)
(* go-ethereum accounts/abi (Go side)                                                           *)
(* =========================================================================================== *)
(* Arguments.Pack: inputOffset starts at the sum of the head sizes; static values are appended
   to ret, dynamic ones append packNum(inputOffset) to ret and their packing to variableInput *)
Definition geth_step (st : bytes * bytes * Z) (a : arg) : bytes * bytes * Z :=
  let '(ret, var, off) := st in
  match a with
  | Static w => (ret ++ w, var, off)
  | Dynamic tl => (ret ++ word off, var ++ tl, off + blen tl)
  end.
Definition geth_pack (args : list arg) : bytes :=
  let '(ret, var, _) := fold_left geth_step args ([], [], heads_len args) in ret ++ var.

Definition geth_num (x : Z) : bytes := be 32 x.                       (* math.U256Bytes *)
Definition left_pad32 (b : bytes) : bytes := zeros (32 - List.length b) ++ b.   (* common.LeftPadBytes(b, 32) *)
(* packBytesSlice(b, l) = packNum(l) ‖ RightPadBytes(b, (l+31)/32*32) *)
Definition geth_pack_bytes_slice (b : bytes) : bytes :=
  geth_num (blen b) ++ (b ++ zeros ((List.length b + 31) / 32 * 32 - List.length b)).

(* var x [32]byte; copy(x[:], b) *)
Definition copy32 (b : bytes) : bytes := firstn 32 b ++ zeros (32 - List.length b).
(* common.BytesToAddress: if len(b) > 20 { b = b[len(b)-20:] }; copy(a[20-len(b):], b) *)
Definition bytes_to_address (b : bytes) : bytes :=
  let b' := skipn (List.length b - 20) b in zeros (20 - List.length b') ++ b'.
Definition geth_address (raw : bytes) : bytes := left_pad32 (bytes_to_address raw).

(* ---- keeper.go ------------------------------------------------------------------------------- *)
Record go_validator := GV { gv_addr : bytes; gv_power : Z }.      (* BridgeValidator{EthereumAddress, Power uint64} *)

Definition go_pack_validator (v : go_validator) : bytes :=
  geth_pack [Static (geth_address (gv_addr v)); Static (geth_num (gv_power v))].

Definition go_valset_bytes (vs : list go_validator) : bytes :=
  let offset := zeros 24 ++ be 8 32 in                               (* PutUint64(offsetToData[24:], 32) *)
  let len := zeros 24 ++ be 8 (Z.of_nat (List.length vs)) in                           (* PutUint64(lengthEncoded[24:], uint64(len)) *)
  let vals := fold_left (fun acc v => acc ++ go_pack_validator v) vs [] in
  (offset ++ len) ++ vals.

Definition go_checkpoint_preimage (thr ts : Z) (hash : bytes) : bytes :=
  geth_pack [Static (copy32 (str_bytes "checkpoint")); Static (geth_num thr); Static (geth_num ts);
             Static (copy32 hash)].

Definition go_attest_domain_hex : string := "74656c6c6f7243757272656e744174746573746174696f6e0000000000000000".

(* None = the function returns an error (hex.DecodeString of the value failed) *)
Definition go_attest_preimage (qid : bytes) (value : string) (ts power prev next : Z) (cp : bytes) (ats : Z)
  : option bytes :=
  match hex_decode go_attest_domain_hex, hex_decode value with
  | Some dom, Some v =>
      Some (geth_pack [Static (copy32 dom); Static (copy32 qid); Dynamic (geth_pack_bytes_slice v);
                       Static (geth_num ts); Static (geth_num power); Static (geth_num prev);
                       Static (geth_num next); Static (copy32 cp); Static (geth_num ats)])
  | _, _ => None
  end.

Definition wrap64 (x : Z) : Z := x mod 2 ^ 64.
Definition go_total_power (powers : list Z) : Z := fold_left (fun a p => wrap64 (a + p)) powers 0.
(* as found: uint64 sum, `totalPower * 2 / 3` in uint64; never an error *)
Definition go_threshold_found (powers : list Z) : Z := wrap64 (go_total_power powers * 2) / 3.
(* fix_F25.diff: sum and ⌊2T/3⌋ in big.Int; error (None) when the threshold does not fit the
   uint64 field that the contract's updateValidatorSet takes *)
Definition go_threshold_fixed (powers : list Z) : option Z :=
  let thr := 2 * fold_left Z.add powers 0 / 3 in
  if thr <? 2 ^ 64 then Some thr else None.
Definition go_threshold (repaired : bool) (powers : list Z) : option Z :=
  if repaired then go_threshold_fixed powers else Some (go_threshold_found powers).

(* ---- claim_deposit.go / withdraw_tokens.go ---------------------------------------------------- *)
Definition go_query_data (to_layer : bool) (id : Z) : bytes :=
  let inner := geth_pack [Static (geth_num (if to_layer then 1 else 0)); Static (geth_num id)] in
  geth_pack [Dynamic (geth_pack_bytes_slice (str_bytes "TRBBridge")); Dynamic (geth_pack_bytes_slice inner)].

(* amount: amount.Amount.Uint64() (panics above 2^64-1); sender: the bech32 string; tip: 0 *)
Definition go_withdraw_value (amount : Z) (sender recipient : bytes) : bytes :=
  geth_pack [Static (geth_address recipient); Dynamic (geth_pack_bytes_slice sender);
             Static (geth_num amount); Static (geth_num 0)].

(* ---- extend_vote.go: kr.Sign(keyName, msg, …) of a secp256k1 key signs sha256(msg) ------------- *)
Definition go_sign_payload (sha : bytes -> bytes) (msg : bytes) : bytes := sha msg.

(* =========================================================================================== *)
(* The property's specification values                                                          *)
(* =========================================================================================== *)
Definition sum_powers (powers : list Z) : Z := fold_right Z.add 0 powers.
Definition spec_threshold (powers : list Z) : Z := 2 * sum_powers powers / 3.      (* two thirds, rounded down *)

Definition to_sol_validator (v : go_validator) : sol_validator := SV (of_be (gv_addr v)) (gv_power v).
Definition go_validator_ok (v : go_validator) : bool :=
  (List.length (gv_addr v) =? 20)%nat && bytes_ok (gv_addr v) && (0 <=? gv_power v) && (gv_power v <? 2 ^ 64).

(* =========================================================================================== *)
(* keccak-256 (Keccak-f[1600], rate 136, pad 0x01..0x80), lanes are Z in [0, 2^64)             *)
(* =========================================================================================== *)
Definition mask64 : Z := 2 ^ 64 - 1.
Definition rotl64 (x n : Z) : Z :=
  if n =? 0 then x else Z.lor (Z.land (Z.shiftl x n) mask64) (Z.shiftr x (64 - n)).
Definition lane (s : list Z) (i : nat) : Z := nth i s 0.

Definition keccak_rot : list Z :=
  [0; 1; 62; 28; 27;  36; 44; 6; 55; 20;  3; 10; 43; 25; 39;  41; 45; 15; 21; 8;  18; 2; 61; 56; 14].
Definition keccak_rc : list Z :=
  [0x0000000000000001; 0x0000000000008082; 0x800000000000808A; 0x8000000080008000;
   0x000000000000808B; 0x0000000080000001; 0x8000000080008081; 0x8000000000008009;
   0x000000000000008A; 0x0000000000000088; 0x0000000080008009; 0x000000008000000A;
   0x000000008000808B; 0x800000000000008B; 0x8000000000008089; 0x8000000000008003;
   0x8000000000008002; 0x8000000000000080; 0x000000000000800A; 0x800000008000000A;
   0x8000000080008081; 0x8000000000008080; 0x0000000080000001; 0x8000000080008008].

Definition idx25 : list nat := seq 0 25.
Definition idx5 : list nat := seq 0 5.

Definition keccak_theta (s : list Z) : list Z :=
  let c := map (fun x => Z.lxor (lane s x) (Z.lxor (lane s (x + 5)) (Z.lxor (lane s (x + 10))
                         (Z.lxor (lane s (x + 15)) (lane s (x + 20)))))) idx5 in
  let d := map (fun x => Z.lxor (lane c ((x + 4) mod 5)) (rotl64 (lane c ((x + 1) mod 5)) 1)) idx5 in
  map (fun i => Z.lxor (lane s i) (lane d (i mod 5))) idx25.

(* B[y, 2x+3y] = rot(A[x,y], r[x,y]); for the target (X,Y): y = X, x = (X + 3Y) mod 5 *)
Definition keccak_rho_pi (s : list Z) : list Z :=
  map (fun j => let X := (j mod 5)%nat in let Y := (j / 5)%nat in
                let x := ((X + 3 * Y) mod 5)%nat in let i := (x + 5 * X)%nat in
                rotl64 (lane s i) (nth i keccak_rot 0)) idx25.

Definition keccak_chi (s : list Z) : list Z :=
  map (fun j => let x := (j mod 5)%nat in let y5 := (5 * (j / 5))%nat in
                Z.lxor (lane s j) (Z.land (Z.lxor (lane s ((x + 1) mod 5 + y5)) mask64) (lane s ((x + 2) mod 5 + y5)))) idx25.

Definition keccak_iota (rc : Z) (s : list Z) : list Z :=
  match s with [] => [] | a :: r => Z.lxor a rc :: r end.

Definition keccak_round (s : list Z) (rc : Z) : list Z := keccak_iota rc (keccak_chi (keccak_rho_pi (keccak_theta s))).
Definition keccak_f (s : list Z) : list Z := fold_left keccak_round keccak_rc s.

(* little-endian lanes *)
Fixpoint le_lane (b : bytes) : Z := match b with [] => 0 | x :: r => x + 256 * le_lane r end.
Fixpoint lane_le (n : nat) (x : Z) : bytes := match n with O => [] | S k => x mod 256 :: lane_le k (x / 256) end.

(* split a block of 136 bytes into 17 lanes *)
Fixpoint block_lanes (n : nat) (b : bytes) : list Z :=
  match n with O => [] | S k => le_lane (firstn 8 b) :: block_lanes k (skipn 8 b) end.

Fixpoint xor_into (s blk : list Z) : list Z :=
  match s, blk with
  | a :: s', b :: blk' => Z.lxor a b :: xor_into s' blk'
  | _, [] => s
  | [], _ => []
  end.

(* absorb full blocks; [fuel] bounds the number of blocks *)
Fixpoint keccak_absorb (fuel : nat) (s : list Z) (m : bytes) : list Z * bytes :=
  match fuel with
  | O => (s, m)
  | S k => if (List.length m <? 136)%nat then (s, m)
           else keccak_absorb k (keccak_f (xor_into s (block_lanes 17 (firstn 136 m)))) (skipn 136 m)
  end.

Definition keccak_pad (rest : bytes) : bytes :=       (* rest shorter than 136 bytes *)
  let n := List.length rest in
  if (n =? 135)%nat then rest ++ [0x81]
  else rest ++ [1] ++ zeros (134 - n) ++ [0x80].

Definition keccak256 (m : bytes) : bytes :=
  let '(s, rest) := keccak_absorb (S (List.length m / 136)) (repeat 0 25) m in
  let s' := keccak_f (xor_into s (block_lanes 17 (keccak_pad rest))) in
  List.concat (map (lane_le 8) (firstn 4 s')).

(* =========================================================================================== *)
(* sha-256, words are Z in [0, 2^32)                                                            *)
(* =========================================================================================== *)
Definition mask32 : Z := 2 ^ 32 - 1.
Definition rotr32 (x n : Z) : Z := Z.lor (Z.shiftr x n) (Z.land (Z.shiftl x (32 - n)) mask32).
Definition add32 (a b : Z) : Z := Z.land (a + b) mask32.
Definition sha_k : list Z :=
  [0x428a2f98; 0x71374491; 0xb5c0fbcf; 0xe9b5dba5; 0x3956c25b; 0x59f111f1; 0x923f82a4; 0xab1c5ed5;
   0xd807aa98; 0x12835b01; 0x243185be; 0x550c7dc3; 0x72be5d74; 0x80deb1fe; 0x9bdc06a7; 0xc19bf174;
   0xe49b69c1; 0xefbe4786; 0x0fc19dc6; 0x240ca1cc; 0x2de92c6f; 0x4a7484aa; 0x5cb0a9dc; 0x76f988da;
   0x983e5152; 0xa831c66d; 0xb00327c8; 0xbf597fc7; 0xc6e00bf3; 0xd5a79147; 0x06ca6351; 0x14292967;
   0x27b70a85; 0x2e1b2138; 0x4d2c6dfc; 0x53380d13; 0x650a7354; 0x766a0abb; 0x81c2c92e; 0x92722c85;
   0xa2bfe8a1; 0xa81a664b; 0xc24b8b70; 0xc76c51a3; 0xd192e819; 0xd6990624; 0xf40e3585; 0x106aa070;
   0x19a4c116; 0x1e376c08; 0x2748774c; 0x34b0bcb5; 0x391c0cb3; 0x4ed8aa4a; 0x5b9cca4f; 0x682e6ff3;
   0x748f82ee; 0x78a5636f; 0x84c87814; 0x8cc70208; 0x90befffa; 0xa4506ceb; 0xbef9a3f7; 0xc67178f2].
Definition sha_h0 : list Z :=
  [0x6a09e667; 0xbb67ae85; 0x3c6ef372; 0xa54ff53a; 0x510e527f; 0x9b05688c; 0x1f83d9ab; 0x5be0cd19].

(* message schedule, kept newest-first: w = [w(t-1); w(t-2); ...] *)
Definition sha_next_w (w : list Z) : Z :=
  let w2 := nth 1 w 0 in let w7 := nth 6 w 0 in let w15 := nth 14 w 0 in let w16 := nth 15 w 0 in
  let s0 := Z.lxor (rotr32 w15 7) (Z.lxor (rotr32 w15 18) (Z.shiftr w15 3)) in
  let s1 := Z.lxor (rotr32 w2 17) (Z.lxor (rotr32 w2 19) (Z.shiftr w2 10)) in
  add32 (add32 w16 s0) (add32 w7 s1).
Fixpoint sha_extend (n : nat) (w : list Z) : list Z :=
  match n with O => w | S k => sha_extend k (sha_next_w w :: w) end.

Definition sha_round (st : list Z) (kw : Z) : list Z :=
  match st with
  | [a; b; c; d; e; f; g; h] =>
      let S1 := Z.lxor (rotr32 e 6) (Z.lxor (rotr32 e 11) (rotr32 e 25)) in
      let ch := Z.lxor (Z.land e f) (Z.land (Z.lxor e mask32) g) in
      let t1 := add32 (add32 (add32 h S1) (add32 ch kw)) 0 in
      let S0 := Z.lxor (rotr32 a 2) (Z.lxor (rotr32 a 13) (rotr32 a 22)) in
      let maj := Z.lxor (Z.land a b) (Z.lxor (Z.land a c) (Z.land b c)) in
      let t2 := add32 S0 maj in
      [add32 t1 t2; a; b; c; add32 d t1; e; f; g]
  | _ => st
  end.

Fixpoint be_words (n : nat) (b : bytes) : list Z :=
  match n with O => [] | S k => of_be (firstn 4 b) :: be_words k (skipn 4 b) end.

Definition sha_compress (h : list Z) (blk : bytes) : list Z :=
  let w := rev (sha_extend 48 (rev (be_words 16 blk))) in
  let st := fold_left sha_round (map (fun p => add32 (fst p) (snd p)) (combine sha_k w)) h in
  map (fun p => add32 (fst p) (snd p)) (combine h st).

Fixpoint sha_blocks (fuel : nat) (h : list Z) (m : bytes) : list Z :=
  match fuel with
  | O => h
  | S k => if (List.length m <? 64)%nat then h else sha_blocks k (sha_compress h (firstn 64 m)) (skipn 64 m)
  end.

Definition sha_pad (m : bytes) : bytes :=
  let n := List.length m in
  m ++ [0x80] ++ zeros ((119 - n mod 64) mod 64) ++ be 8 (8 * Z.of_nat n).

Definition sha256 (m : bytes) : bytes :=
  let p := sha_pad m in
  List.concat (map (be 4) (sha_blocks (S (List.length p / 64)) sha_h0 p)).

(* =========================================================================================== *)
(* Correspondence cases.  Byte strings travel as lower-case hex string literals.                *)
(* =========================================================================================== *)
Definition unhex (s : string) : bytes := match hex_decode s with Some b => b | None => [] end.
Definition is_hex (s : string) : bool := match hex_decode s with Some _ => true | None => false end.

Record raw_validator := RV { rv_addr : string; rv_power : Z }.       (* EthereumAddress as hex *)
Definition to_go_validator (v : raw_validator) : go_validator := GV (unhex (rv_addr v)) (rv_power v).

(* AttestationSnapshotData stored under the snapshot: what a relayer reads to build the
   OracleAttestationData it hands to the contract *)
Record snap_data := SD { sd_cp : string; sd_ats : Z; sd_prev : Z; sd_next : Z; sd_qid : string; sd_ts : Z }.

Inductive c15_case :=
(* Keeper.EncodeAndHashValidatorSet(valset) = (bytes, hash); gen = go-ethereum's generic packer on
   the Solidity type tuple(address,uint256)[] *)
| ValsetCase (vs : list raw_validator) (impl_bytes impl_hash gen : string)
(* Keeper.SetBridgeValidatorParams(valset) at block time ms; the stored ValidatorCheckpointParams and
   ValidatorCheckpoint *)
| ParamsCase (vs : list raw_validator) (block_ms : Z) (impl_err : bool)
             (impl_thr impl_ts : Z) (impl_hash impl_cp_params impl_cp : string)
(* Keeper.CalculateValidatorSetCheckpoint(thr, ts, hash); gen = generic packer on
   (bytes32,uint256,uint256,bytes32) with the Solidity constant *)
| CheckpointCase (thr ts : Z) (hash : string) (impl_cp gen : string)
(* Keeper.EncodeOracleAttestationData(...) = digest or error; gen = generic packer on the 9 Solidity types *)
| AttestCase (qid value : string) (ts power prev next : Z) (cp : string) (ats : Z)
             (impl_err : bool) (impl_digest gen : string)
(* Keeper.CreateSnapshot(queryId, timestamp) with an oracle keeper answering from the case:
   aggregate (value, power) at ts_ms, neighbours (None = error => time.Unix(0,0)), stored checkpoint,
   block time; snapshots found in AttestRequestsByHeight / AttestSnapshotsByReport /
   AttestSnapshotDataMap *)
| SnapshotCase (qid value : string) (power ts_ms : Z) (prev_ms next_ms : option Z) (cp : string) (block_ms : Z)
               (impl_err : bool) (impl_snapshot : string) (impl_data : snap_data) (impl_listed : bool)
(* Keeper.GetDepositQueryId / GetWithdrawalQueryId; gen = generic packer (string,bytes) of (bool,uint256) *)
| QueryIdCase (deposit : bool) (id : Z) (impl_qid gen : string)
(* Keeper.GetWithdrawalReportValue(amount, sender, recipient): sender as the bech32 string the code
   produced (sender.String()), recipient raw bytes (hex); gen = generic packer *)
| WithdrawValueCase (amount : Z) (sender : string) (recipient : string) (impl_value gen : string)
(* msgServer.WithdrawTokens: the aggregate handed to the oracle keeper *)
| WithdrawCase (prev_id : option Z) (amount : Z) (sender : string) (recipient : string)
               (impl_err : bool) (impl_id : Z) (impl_qid impl_value_hex : string) (impl_power bonded : Z)
(* VoteExtHandler.SignMessage(digest) with a real keyring key; evm27/evm28 = the EVM ecrecover
   precompile (go-ethereum) on (sha256(abi.encodePacked(digest)), v, r, s); chain0/chain1 =
   Keeper.TryRecoverAddressWithBothIDs(sig, sha256(digest)); payload = the sha256 the harness fed to both *)
| SignCase (digest sig signer payload : string) (evm27 evm28 chain0 chain1 : string)
(* VoteExtHandler.SignInitialMessage() fed to Keeper.EVMAddressFromSignatures: the address the chain
   registers for the validator (the one the contract's ecrecover must return later) *)
| InitSigCase (signer : string) (impl_err : bool) (impl_addr : string)
(* facts read from the .sol sources of the working tree: (name, normalised text) *)
| SolSourceCase (facts : list (string * string)).

Definition raw_ok (vs : list raw_validator) : bool := forallb (fun v => is_hex (rv_addr v)) vs.

Definition valset_regular (vs : list raw_validator) : bool :=
  forallb (fun v => go_validator_ok (to_go_validator v)) vs.

(* the contract-side value of what the chain calls an address: the last 20 bytes as a number *)
Definition sol_validators (vs : list raw_validator) : list sol_validator :=
  map (fun v => SV (of_be (bytes_to_address (unhex (rv_addr v)))) (rv_power v)) vs.

Definition powers_of (vs : list raw_validator) : list Z := map rv_power vs.

(* threshold: a Diff only if the implementation matches neither variant (the judge infers the
   variant from the implementation's behaviour); the Spec is the exact ⌊2T/3⌋ *)
Definition threshold_model_ok (powers : list Z) (impl : option Z) : bool :=
  Zeqb_opt impl (go_threshold false powers) || Zeqb_opt impl (go_threshold true powers).

Definition opt_ms (o : option Z) : Z := match o with Some x => x | None => 0 end.

(* expected facts of the Solidity sources (whitespace removed) *)
Definition sol_expected_facts : list (string * string) :=
  [("NEW_REPORT_ATTESTATION_DOMAIN_SEPARATOR", "0x74656c6c6f7243757272656e744174746573746174696f6e0000000000000000");
   ("VALIDATOR_SET_HASH_DOMAIN_SEPARATOR", "0x636865636b706f696e7400000000000000000000000000000000000000000000");
   ("struct Validator", "addressaddr;uint256power;");
   ("valset hash", "keccak256(abi.encode(_currentValidatorSet))");
   ("domain separate", "keccak256(abi.encode(VALIDATOR_SET_HASH_DOMAIN_SEPARATOR,_powerThreshold,_validatorTimestamp,_validatorSetHash))");
   ("domain separate params", "uint256_powerThreshold,uint256_validatorTimestamp,bytes32_validatorSetHash");
   ("data digest", "keccak256(abi.encode(NEW_REPORT_ATTESTATION_DOMAIN_SEPARATOR,_attestData.queryId,_attestData.report.value,_attestData.report.timestamp,_attestData.report.aggregatePower,_attestData.report.previousTimestamp,_attestData.report.nextTimestamp,lastValidatorSetCheckpoint,_attestData.attestationTimestamp))");
   ("struct OracleAttestationData", "bytes32queryId;ReportDatareport;uint256attestationTimestamp;");
   ("struct ReportData", "bytesvalue;uint256timestamp;uint256aggregatePower;uint256previousTimestamp;uint256nextTimestamp;");
   ("verify sig", "_digest=sha256(abi.encodePacked(_digest));return_signer==ecrecover(_digest,_sig.v,_sig.r,_sig.s);");
   ("power check", "if(_cumulativePower>=_powerThreshold){break;}");
   ("withdraw query id", "_attestData.queryId==keccak256(abi.encode(""TRBBridge"",abi.encode(false,_depositId)))");
   ("withdraw value decode", "abi.decode(_attestData.report.value,(address,string,uint256,uint256))");
   ("withdraw amount", "uint256_amountConverted=_amountLoya*1e12;")].

Fixpoint lookup_fact (k : string) (l : list (string * string)) : option string :=
  match l with [] => None | (k', v) :: r => if String.eqb k k' then Some v else lookup_fact k r end.
Definition ostr_eqb (a b : option string) : bool :=
  match a, b with Some x, Some y => String.eqb x y | None, None => true | _, _ => false end.

(* keccak of [a], reusing the known hash [hb] of [b] when the two byte strings coincide *)
Definition keccak_reuse (a b hb : bytes) : bytes := if bytes_eqb a b then hb else keccak256 a.

Definition withdraw_fields_eqb (f : option withdraw_fields) (recipient : Z) (sender : bytes) (amount : Z) : bool :=
  match f with
  | Some f => (wf_recipient f =? recipient) && bytes_eqb (wf_sender f) sender && (wf_amount f =? amount) && (wf_tip f =? 0)
  | None => false
  end.

Definition c15_check (c : c15_case) : issues :=
  match c with
  | ValsetCase vs ib ih gen =>
      let gob := go_valset_bytes (map to_go_validator vs) in
      let sol := sol_valset_bytes (sol_validators vs) in
      let solh := keccak256 sol in
      let ibb := unhex ib in let ihb := unhex ih in
      diff_if (raw_ok vs && is_hex ib && is_hex ih && is_hex gen) "case well-formed"
      ++ spec_if (bytes_eqb ibb sol) "validator-set bytes differ from abi.encode of the Validator array"
      ++ spec_if (bytes_eqb ihb solh) "validator-set hash differs from keccak256(abi.encode of the Validator array)"
      ++ diff_if (bytes_eqb gob ibb) "valset bytes"
      ++ diff_if (bytes_eqb (keccak_reuse gob sol solh) ihb) "valset hash"
      ++ diff_if (bytes_eqb sol (unhex gen)) "solidity model of abi.encode of the Validator array vs generic packer"
  | ParamsCase vs ms true _ _ _ _ _ =>
      (* an error is the repaired variant's answer to a threshold beyond uint64; no output to judge *)
      diff_if (threshold_model_ok (powers_of vs) None) "threshold error"
  | ParamsCase vs ms false thr ts ih icpp icp =>
      let gob := go_valset_bytes (map to_go_validator vs) in
      let sol := sol_valset_bytes (sol_validators vs) in
      let solh := keccak256 sol in
      let ihb := unhex ih in let icpb := unhex icp in
      let solcp := sol_domain_separate thr ts ihb in
      let solcph := keccak256 solcp in
      diff_if (raw_ok vs && is_hex ih && is_hex icpp && is_hex icp) "case well-formed"
      ++ spec_if (thr =? spec_threshold (powers_of vs)) "power threshold is not two thirds of the total power"
      ++ spec_if (ts =? ms) "checkpoint timestamp is not the block time in milliseconds"
      ++ spec_if (bytes_eqb ihb solh) "stored validator-set hash differs from keccak256(abi.encode of the Validator array)"
      ++ spec_if (bytes_eqb icpb solcph)
                 "checkpoint differs from the contract's domain-separated hash of (threshold, timestamp, hash)"
      ++ spec_if (bytes_eqb icpb (unhex icpp)) "ValidatorCheckpoint and ValidatorCheckpointParams disagree"
      ++ diff_if (threshold_model_ok (powers_of vs) (Some thr)) "threshold"
      ++ diff_if (bytes_eqb (keccak_reuse gob sol solh) ihb) "stored valset hash"
      ++ diff_if (bytes_eqb (keccak_reuse (go_checkpoint_preimage thr ms ihb) solcp solcph) icpb) "stored checkpoint"
  | CheckpointCase thr ts h icp gen =>
      let hb := unhex h in let icpb := unhex icp in
      let solcp := sol_domain_separate thr ts hb in
      let gocph := keccak256 (go_checkpoint_preimage thr ts hb) in
      diff_if (is_hex h && is_hex icp && is_hex gen) "case well-formed"
      ++ (if (List.length hb =? 32)%nat
          then spec_if (bytes_eqb icpb (keccak_reuse solcp (go_checkpoint_preimage thr ts hb) gocph))
                       "checkpoint differs from the contract's domain-separated hash"
               ++ diff_if (bytes_eqb solcp (unhex gen))
                          "solidity model of the checkpoint encoding vs generic packer"
          else [])
      ++ diff_if (bytes_eqb gocph icpb) "checkpoint"
  | AttestCase qid value ts power prev next cp ats ierr idig gen =>
      let qb := unhex qid in let cpb := unhex cp in let idb := unhex idig in
      let regular := (List.length qb =? 32)%nat && (List.length cpb =? 32)%nat in
      diff_if (is_hex qid && is_hex cp && is_hex idig && is_hex gen) "case well-formed"
      ++ match go_attest_preimage qb value ts power prev next cpb ats with
         | None => diff_if ierr "attestation error"
         | Some pre =>
             let preh := keccak256 pre in
             diff_if (negb ierr) "attestation error"
             ++ diff_if (ierr || bytes_eqb preh idb) "attestation digest"
             ++ (if regular && negb ierr
                 then let sol := sol_data_digest_preimage qb (unhex value) ts power prev next cpb ats in
                      spec_if (bytes_eqb idb (keccak_reuse sol pre preh)) "attestation digest differs from the contract's data digest"
                      ++ diff_if (bytes_eqb sol (unhex gen)) "solidity model of the data digest encoding vs generic packer"
                 else [])
         end
  | SnapshotCase qid value power ts prev next cp ms ierr isnap data listed =>
      let qb := unhex qid in let cpb := unhex cp in let isb := unhex isnap in
      let regular := (List.length qb =? 32)%nat && (List.length cpb =? 32)%nat in
      diff_if (is_hex qid && is_hex cp && is_hex isnap) "case well-formed"
      ++ match go_attest_preimage qb value ts power (opt_ms prev) (opt_ms next) cpb ms with
         | None => diff_if ierr "snapshot error"
         | Some pre =>
             let preh := keccak256 pre in
             diff_if (negb ierr) "snapshot error"
             ++ diff_if (ierr || bytes_eqb preh isb) "snapshot"
             ++ (if regular && negb ierr
                 then let sol := sol_data_digest_preimage qb (unhex value) ts power (opt_ms prev) (opt_ms next) cpb ms in
                      spec_if (bytes_eqb isb (keccak_reuse sol pre preh))
                              "snapshot differs from the contract's data digest of the report, its neighbours, the checkpoint and the block time"
                      ++ spec_if (String.eqb (sd_cp data) cp && (sd_ats data =? ms) && (sd_prev data =? opt_ms prev)
                                  && (sd_next data =? opt_ms next) && String.eqb (sd_qid data) qid && (sd_ts data =? ts))
                                 "stored snapshot data are not the fields that were hashed"
                      ++ diff_if listed "snapshot listed in requests / by-report / attestations maps"
                 else [])
         end
  | QueryIdCase dep id iq gen =>
      let sol := sol_query_data dep id in
      let solh := keccak256 sol in
      let iqb := unhex iq in
      diff_if (is_hex iq && is_hex gen) "case well-formed"
      ++ spec_if (bytes_eqb iqb solh) "query id differs from keccak256(abi.encode(""TRBBridge"", abi.encode(toLayer, id)))"
      ++ diff_if (bytes_eqb (keccak_reuse (go_query_data dep id) sol solh) iqb) "query id"
      ++ diff_if (bytes_eqb sol (unhex gen)) "solidity model of the query data vs generic packer"
  | WithdrawValueCase amount sender recipient iv gen =>
      let rb := unhex recipient in let ivb := unhex iv in let sb := str_bytes sender in
      let ra := of_be (bytes_to_address rb) in
      diff_if (is_hex recipient && is_hex iv && is_hex gen) "case well-formed"
      ++ spec_if (withdraw_fields_eqb (sol_decode_withdraw_value ivb) ra sb amount)
                 "withdrawal report value does not decode to (recipient, sender, amount, 0) with the contract's abi.decode"
      ++ spec_if (bytes_eqb ivb (abi_encode [Static (word ra); Dynamic (enc_dyn_bytes sb); Static (word amount); Static (word 0)]))
                 "withdrawal report value is not abi.encode(address, string, uint256, uint256)"
      ++ diff_if (bytes_eqb (go_withdraw_value amount sb rb) ivb) "withdraw value"
      ++ diff_if (bytes_eqb ivb (unhex gen)) "withdraw value vs generic packer"
  | WithdrawCase prev amount sender recipient ierr iid iq ivh ipow bonded =>
      let id := match prev with Some p => wrap64 (p + 1) | None => 1 end in
      let rb := unhex recipient in let sb := str_bytes sender in let iqb := unhex iq in
      diff_if (is_hex recipient && is_hex iq) "case well-formed"
      (* the message server accepts only 20-byte recipients (after the fix of F45, C14) *)
      ++ diff_if (Bool.eqb ierr (negb (Nat.eqb (List.length rb) 20))) "withdraw error"
      ++ (if ierr then [] else
          let sol := sol_query_data false iid in
          let solh := keccak256 sol in
          spec_if (iid =? id) "withdrawal id is not the next id"
          ++ spec_if (bytes_eqb iqb solh)
                     "withdrawal aggregate's query id differs from the contract's query id of this withdrawal id"
          ++ spec_if (match hex_decode ivh with
                      | Some v => withdraw_fields_eqb (sol_decode_withdraw_value v) (of_be (bytes_to_address rb)) sb amount
                      | None => false end)
                     "withdrawal aggregate's value does not decode to (recipient, sender, amount, 0) with the contract's abi.decode"
          ++ diff_if (String.eqb ivh (hex_encode (go_withdraw_value amount sb rb))) "aggregate value"
          ++ diff_if (bytes_eqb (keccak_reuse (go_query_data false id) sol solh) iqb) "aggregate query id"
          ++ diff_if (ipow =? wrap64 bonded) "aggregate power")
  | SignCase digest sig signer payload e27 e28 c0 c1 =>
      let d := unhex digest in let pb := unhex payload in
      let solp := sol_verify_payload sha256 d in
      diff_if (is_hex digest && is_hex sig && is_hex signer && is_hex payload) "case well-formed"
      ++ spec_if ((List.length (unhex sig) =? 64)%nat) "signature is not 64 bytes r||s"
      ++ spec_if (String.eqb e27 signer || String.eqb e28 signer)
                 "the contract's ecrecover over sha256(abi.encodePacked(digest)) does not return the signer for v = 27 or 28"
      ++ spec_if (String.eqb c0 signer || String.eqb c1 signer)
                 "the chain's recovery over sha256(digest) does not return the signer for either recovery id"
      ++ diff_if (bytes_eqb solp pb) "contract-side payload sha256(abi.encodePacked(digest))"
      ++ diff_if (bytes_eqb (if bytes_eqb (encode_packed_bytes32 d) d then solp else go_sign_payload sha256 d) pb)
                 "chain-side payload sha256(digest)"
      ++ diff_if (String.eqb e27 c0 && String.eqb e28 c1) "ecrecover(v = 27 + id) vs SigToPub(id)"
  | InitSigCase signer ierr addr =>
      spec_if (negb ierr && String.eqb addr signer) "the address registered from the initial signatures is not the signer's"
  | SolSourceCase facts =>
      List.concat (map (fun kv => diff_if (ostr_eqb (lookup_fact (fst kv) facts) (Some (snd kv)))
                                     ("solidity source: " ++ fst kv)) sol_expected_facts)
  end.

(* signature predicate of finding F25: the uint64 doubling of the total power wraps *)
Definition c15_classes (c : c15_case) : list string :=
  match c with
  | ParamsCase vs _ _ _ _ _ _ _ =>
      if 2 ^ 63 <=? sum_powers (powers_of vs) then ["F25"%string] else []
  | _ => []
  end.
