(* C14 — the byte level of the token bridge's identifiers and of the deposit report value.

     x/bridge/keeper/claim_deposit.go    GetDepositQueryId, DecodeDepositReportValue
     x/bridge/keeper/withdraw_tokens.go  GetWithdrawalQueryId
     utils/queryid.go                    QueryIDFromData (the key under which the oracle stores reports and aggregates)

   Model/BridgeTokens.v treats a deposit id as the name of "that deposit's query"; this file says
   what the name is in bytes: the query data is
       abi.encode(string "TRBBridge", bytes abi.encode(bool toLayer, uint256 id))
   built by two runs of go-ethereum's Arguments.Pack, and the query id is its keccak-256.  The
   packer ([geth_pack]), the element encoders, the ABI specification's formula ([abi_encode]) and
   keccak-256 are those of Model/BridgeEnc.v (bytes = list of Z in [0,256); byte strings travel in
   the cases as lower-case hex text).

   The deposit report value is abi.encode(address, string, uint256, uint256) =
   (depositor on the EVM side, recipient text, amount, tip), amounts in 10^-18 TRB.  The decoder is
   go-ethereum v1.10.22 Arguments.Unpack as far as the keeper uses its result: the string
   (head word 1 = offset, length word at the offset, content behind it, bounds checked against the
   whole input, no alignment / canonicity requirement), head words 2 and 3 as numbers; head word 0
   (the address) is not used, whatever its 12 high bytes are.  The recipient text is then handed to
   sdk.AccAddressFromBech32, which is NOT modelled: a case carries the SDK's verdict and the text of
   the account the keeper returned, and the model compares texts byte for byte (bech32 is case
   insensitive as a whole: the returned account prints as the lower-case text).
   Definitions only; proofs are in Proofs/BridgeIdsProofs.v. *)
From Coq Require Import ZArith List Bool String Ascii.
From Verif Require Import Base.Harness Model.BridgeEnc.
Import ListNotations.
Open Scope Z_scope.

(* ---- query data and query ids ------------------------------------------------------------------ *)
(* GetDepositQueryId / GetWithdrawalQueryId: queryDataArgs.Pack(bool, uint256), then
   finalArgs.Pack("TRBBridge", that), then crypto.Keccak256 *)
Definition deposit_query_data (id : Z) : bytes := go_query_data true id.
Definition withdraw_query_data (id : Z) : bytes := go_query_data false id.
Definition deposit_query_id (id : Z) : bytes := keccak256 (deposit_query_data id).
Definition withdraw_query_id (id : Z) : bytes := keccak256 (withdraw_query_data id).

(* the same bytes written out: 7 words *)
Definition query_data_prefix : bytes :=
  word 64 ++ word 128 ++ word 9 ++ pad32 TRBBridge ++ word 64.
Definition query_data_layout (to_layer : bool) (id : Z) : bytes :=
  query_data_prefix ++ word (sol_bool to_layer) ++ word id.

(* ---- the deposit report value --------------------------------------------------------------------- *)
(* what TokenBridge.depositToLayer's event is reported as: abi.encode(sender, recipient, amount, tip) *)
Definition deposit_value (evm_sender : Z) (recipient : bytes) (amount tip : Z) : bytes :=
  abi_encode [Static (word evm_sender); Dynamic (enc_dyn_bytes recipient); Static (word amount); Static (word tip)].

Record deposit_fields := DF { df_recipient : bytes; df_amount : Z; df_tip : Z }.

(* Arguments.Unpack on (address, string, uint256, uint256): every bound is tested before a slice is
   taken (so no huge offset is ever turned into a unary number) *)
Definition decode_deposit_value (v : bytes) : option deposit_fields :=
  if blen v <? 128 then None else
  let off := word_at v 32 in
  if blen v <? off + 32 then None else
  let len := word_at v off in
  if blen v <? off + 32 + len then None else
  Some (DF (firstn (Z.to_nat len) (skipn (Z.to_nat (off + 32)) v)) (word_at v 64) (word_at v 96)).

Definition E12 : Z := 1000000000000.
(* amountBigInt.Div(amountBigInt, 1e12), math.NewIntFromBigInt: loya *)
Definition to_loya (x : Z) : Z := x / E12.

(* DecodeDepositReportValue up to the bech32 step: (recipient text, amount, tip) in loya *)
Definition decode_deposit_report (value : string) : option deposit_fields :=
  match hex_decode value with
  | None => None
  | Some v => match decode_deposit_value v with
              | Some f => Some (DF (df_recipient f) (to_loya (df_amount f)) (to_loya (df_tip f)))
              | None => None
              end
  end.

Definition lower_byte (b : Z) : Z := if (65 <=? b) && (b <=? 90) then b + 32 else b.

(* ---- correspondence cases ------------------------------------------------------------------------- *)
Record id_obs := IO {
  io_id : Z;
  io_deposit_qid : string;       (* Keeper.GetDepositQueryId(id) *)
  io_withdraw_qid : string;      (* Keeper.GetWithdrawalQueryId(id) *)
  io_reg_qdata : string;         (* registry DataSpec.EncodeData("TRBBridge", [true, id]): what a reporter submits *)
  io_oracle_qid : string;        (* utils.QueryIDFromData(that): where the oracle stores the reports / aggregate *)
  io_blocker : Z                 (* oracle Keeper.PreventBridgeWithdrawalReport(that): 0 not bridge, 1 deposit, 2 rejected *)
}.

Inductive c14i_case :=
(* one id through the real bridge keeper, the registry encoder and the oracle's query-id function *)
| IdCase (o : id_obs)
(* all ids of one run with the keeper's deposit and withdrawal query ids *)
| IdsCase (l : list (Z * string * string))
(* Keeper.DecodeDepositReportValue(value): packed = the fields go-ethereum's Pack was given
   (word 0 as a number below 2^256: dirty high bytes included; recipient as hex), None for a
   mutated value; lib = the string go-ethereum's generic Unpack extracts (hex), None = error;
   bech_ok = sdk.AccAddressFromBech32 accepts it; impl = None (error) or the keeper's
   (recipient.String(), amount, tip) *)
| ValueCase (value : string) (packed : option (Z * string * Z * Z)) (lib : option string) (bech_ok : bool)
            (impl : option (string * Z * Z)).

Fixpoint str_mem (s : string) (l : list string) : bool :=
  match l with [] => false | x :: r => String.eqb s x || str_mem s r end.
Fixpoint str_nodup (l : list string) : bool :=
  match l with [] => true | x :: r => negb (str_mem x r) && str_nodup r end.
Fixpoint z_mem (x : Z) (l : list Z) : bool :=
  match l with [] => false | y :: r => (x =? y) || z_mem x r end.
Fixpoint z_nodup (l : list Z) : bool :=
  match l with [] => true | x :: r => negb (z_mem x r) && z_nodup r end.

Definition ids_of (l : list (Z * string * string)) : list Z := map (fun p => fst (fst p)) l.
Definition qids_of (l : list (Z * string * string)) : list string :=
  map (fun p => snd (fst p)) l ++ map (fun p => snd p) l.

Definition fields_eqb (f : deposit_fields) (r : bytes) (x y : Z) : bool :=
  bytes_eqb (df_recipient f) r && (df_amount f =? x) && (df_tip f =? y).

Definition c14i_check (c : c14i_case) : issues :=
  match c with
  | IdCase o =>
      let id := io_id o in
      let dq := unhex (io_deposit_qid o) in
      diff_if (is_hex (io_deposit_qid o) && is_hex (io_withdraw_qid o) && is_hex (io_reg_qdata o) && is_hex (io_oracle_qid o))
              "case well-formed"
      ++ spec_if (String.eqb (io_oracle_qid o) (io_deposit_qid o))
                 "the oracle keys the reports of a deposit's query data by another id than the one ClaimDeposit reads"
      ++ spec_if (negb (String.eqb (io_deposit_qid o) (io_withdraw_qid o)))
                 "the deposit and the withdrawal of one id share a query id"
      ++ spec_if (io_blocker o =? 1) "the oracle does not accept a deposit's query data as a bridge deposit query"
      ++ diff_if (bytes_eqb (deposit_query_data id) (unhex (io_reg_qdata o))) "deposit query data vs registry encoding"
      ++ diff_if (bytes_eqb (deposit_query_id id) dq) "GetDepositQueryId"
      ++ diff_if (bytes_eqb (withdraw_query_id id) (unhex (io_withdraw_qid o))) "GetWithdrawalQueryId"
  | IdsCase l =>
      diff_if (z_nodup (ids_of l)) "ids of the run are distinct"
      ++ spec_if (str_nodup (qids_of l)) "two bridge ids of one run share a query id"
  | ValueCase value packed lib bech_ok impl =>
      let m := match hex_decode value with Some v => decode_deposit_value v | None => None end in
      (match packed with
       | Some (a, r, x, y) =>
           diff_if (is_hex value && is_hex r && bytes_eqb (unhex value) (deposit_value a (unhex r) x y))
                   "report value vs abi.encode(address, string, uint256, uint256) of the packed fields"
           ++ diff_if (match m with Some f => fields_eqb f (unhex r) x y | None => false end)
                      "model decoding of a packed value"
       | None => []
       end)
      ++ diff_if (obytes_eqb (option_map df_recipient m) (option_map unhex lib)) "recipient text vs go-ethereum Unpack"
      ++ match impl, m with
         | Some (r, a, t), Some f =>
             let '(x, y) := match packed with Some (_, _, x, y) => (x, y) | None => (df_amount f, df_tip f) end in
             spec_if ((a =? x / E12) && (t =? y / E12))
                     "decoded amount or tip is not the reported one divided by 10^12"
             ++ spec_if (bytes_eqb (map lower_byte (df_recipient f)) (str_bytes r))
                        "decoded recipient is not the account the reported recipient text names"
             ++ diff_if bech_ok "recipient accepted by the keeper, rejected by AccAddressFromBech32"
             ++ diff_if ((a =? to_loya (df_amount f)) && (t =? to_loya (df_tip f))) "DecodeDepositReportValue: amount / tip"
         | Some _, None => [Diff "DecodeDepositReportValue accepts a value the model rejects"]
         | None, Some _ => diff_if (negb bech_ok) "DecodeDepositReportValue rejects a value the model decodes"
         | None, None => []
         end
  end.

Definition c14i_classes (c : c14i_case) : list string := [].
