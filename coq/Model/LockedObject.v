(* C20 — a lock-protected object (definitions only; proofs in Proofs/PricefeedProofs.v).

   Every operation is   lock ; body-step* ; unlock.   The shared state [S] is touched only by
   the thread that owns the mutex.  Any number of threads interleave arbitrarily at the
   granularity of single body steps; the only synchronisation is the mutex.

   The Go memory model, sync.Mutex and the scheduler are NOT modelled: that the Go methods
   really are of the shape  Lock(); defer Unlock(); body  is established by the source scan of
   the harness (driver TestC20LockDiscipline, case [LockCase] of Model/Pricefeed.v). *)
From Coq Require Import List Arith Bool.
Import ListNotations.

Section LockedObject.
Variables (S L Op R : Type).
Variable l0 : Op -> L.                                  (* initial local state of a call *)
Variable bstep : Op -> L -> S -> (L * S) + R.           (* one atomic step of the body;
                                                            inr r = body finished with result r *)

(* sequential specification: run one operation to completion *)
Inductive runs (o : Op) : L -> S -> R -> S -> Prop :=
| runs_done l s r : bstep o l s = inr r -> runs o l s r s
| runs_step l s l' s' r s'' : bstep o l s = inl (l', s') -> runs o l' s' r s'' -> runs o l s r s''.

Inductive seq_run : S -> list (Op * R) -> S -> Prop :=
| seq_nil s : seq_run s [] s
| seq_cons s o r s' h s'' : runs o (l0 o) s r s' -> seq_run s' h s'' -> seq_run s ((o, r) :: h) s''.

(* the concurrent machine *)
Definition tid := nat.
Inductive tstate := Idle | Waiting (o : Op) | Running (o : Op) (l : L).

Record config := { sh : S; owner : option tid; th : tid -> tstate;
                   lin : list (Op * R) }.      (* completed calls in lock-release order *)

Definition upd (f : tid -> tstate) (t : tid) (x : tstate) : tid -> tstate :=
  fun u => if Nat.eqb u t then x else f u.

Inductive event := Inv (t : tid) (o : Op) | Acq (t : tid) | Tau (t : tid) | Res (t : tid) (o : Op) (r : R).

Inductive step : config -> event -> config -> Prop :=
| s_inv c t o : th c t = Idle ->
    step c (Inv t o) {| sh := sh c; owner := owner c; th := upd (th c) t (Waiting o); lin := lin c |}
| s_acq c t o : th c t = Waiting o -> owner c = None ->
    step c (Acq t) {| sh := sh c; owner := Some t; th := upd (th c) t (Running o (l0 o)); lin := lin c |}
| s_body c t o l l' s' : th c t = Running o l -> owner c = Some t -> bstep o l (sh c) = inl (l', s') ->
    step c (Tau t) {| sh := s'; owner := Some t; th := upd (th c) t (Running o l'); lin := lin c |}
| s_res c t o l r : th c t = Running o l -> owner c = Some t -> bstep o l (sh c) = inr r ->
    step c (Res t o r) {| sh := sh c; owner := None; th := upd (th c) t Idle; lin := lin c ++ [(o, r)] |}.

Inductive exec : config -> list event -> config -> Prop :=
| e_nil c : exec c [] c
| e_cons c e c' es c'' : step c e c' -> exec c' es c'' -> exec c (e :: es) c''.

(* invariant: the shared state is the sequential state after the completed calls, possibly
   advanced by a prefix of the (deterministic) body of the one call that holds the lock;
   nobody is Running without owning the lock *)
Definition Inv_ (s0 : S) (c : config) : Prop :=
  (forall t o l, th c t = Running o l -> owner c = Some t) /\
  match owner c with
  | None => seq_run s0 (lin c) (sh c)
  | Some t => exists o l sq, th c t = Running o l /\ seq_run s0 (lin c) sq /\
                (forall r s', runs o l (sh c) r s' -> runs o (l0 o) sq r s')
  end.

Definition init (s0 : S) : config := {| sh := s0; owner := None; th := fun _ => Idle; lin := [] |}.

(* the responses of a trace, in trace order *)
Fixpoint responses (es : list event) : list (Op * R) :=
  match es with [] => [] | Res _ o r :: t => (o, r) :: responses t | _ :: t => responses t end.

(* the events that read or write the shared state, with the acting thread *)
Definition accessor (e : event) : option tid :=
  match e with Tau t => Some t | Res t _ _ => Some t | _ => None end.

(* every access of the trace is made by the thread that holds the mutex at that moment *)
Inductive guarded : config -> list event -> Prop :=
| g_nil c : guarded c []
| g_cons c e c' es : step c e c' ->
    (forall t, accessor e = Some t -> owner c = Some t) -> guarded c' es -> guarded c (e :: es).
End LockedObject.

Arguments runs {S L Op R} bstep o _ _ _ _.
Arguments seq_run {S L Op R} l0 bstep _ _ _.
Arguments Idle {L Op}.
Arguments Waiting {L Op} o.
Arguments Running {L Op} o l.
Arguments Build_config {S L Op R} sh owner th lin.
Arguments sh {S L Op R} c.
Arguments owner {S L Op R} c.
Arguments th {S L Op R} c _.
Arguments lin {S L Op R} c.
Arguments upd {L Op} f t x _.
Arguments Inv {Op R} t o.
Arguments Acq {Op R} t.
Arguments Tau {Op R} t.
Arguments Res {Op R} t o r.
Arguments step {S L Op R} l0 bstep _ _ _.
Arguments exec {S L Op R} l0 bstep _ _ _.
Arguments Inv_ {S L Op R} l0 bstep s0 c.
Arguments init {S L Op R} s0.
Arguments responses {Op R} es.
Arguments accessor {Op R} e.
Arguments guarded {S L Op R} l0 bstep _ _.
