(* C12 — model of x/dispute/keeper/tally.go (Ratio, TallyVote, UpdateDispute), of the vote
   bookkeeping of x/dispute/keeper/vote.go + msg_server_vote.go and of the dispute lifecycle
   (dispute.go SetNewDispute/AddDisputeRound, msg_server_add_fee_to_dispute.go, abci.go,
   execute.go as far as status/flags go).

   math.Int is unbounded => Z.  LegacyDec (cosmossdk.io/math v1.3.0) is its value * 10^18 as
   an integer; Mul = banker's-rounded (a*b)/10^18; Quo = truncate (a*10^36)/b, then banker's
   round /10^18; TruncateInt = quot 10^18.  uint64 counters (StakeholderVoteCounts) are Z in
   [0, 2^64) with the wrap written out where the code adds/subtracts on uint64.
   Time is unix nanoseconds.  VoteResult: 0 NO_TALLY, 1 SUPPORT, 2 AGAINST, 3 INVALID,
   4/5/6 NO_QUORUM_MAJORITY_SUPPORT/AGAINST/INVALID.

   Variant flag [fx]:
     fx = false : the code as found — UpdateDispute returns the error "no majority" when no
                   choice is strictly ahead (finding F03);
     fx = true  : the proposed repair — no strict maximum resolves to INVALID
                   (NO_QUORUM_MAJORITY_INVALID without quorum).
   The correspondence cases are [TallyCase], [RatioCase], [VoteCase] and [LifeCase] (a history of lifecycle
   events on the real application with the dispute records observed after every event: [life_spec] is the
   executable reference of the lifecycle clause on those records, [life_diff] runs [step] on the same events).
   Definitions only; proofs are in Proofs/DisputeTallyProofs.v. *)
From Coq Require Import ZArith List Bool String.
From Verif Require Import Base.Harness.
Import ListNotations.
Open Scope Z_scope.

(* ---- LegacyDec ------------------------------------------------------------------------ *)
Definition P : Z := 1000000000000000000.
Definition HALF : Z := 500000000000000000.

(* chopPrecisionAndRound *)
Definition chop_round_nonneg (a : Z) : Z :=
  let (q, r) := Z.div_eucl a P in          (* quo.QuoRem(d, 10^18): one division *)
  if r =? 0 then q else
  match r ?= HALF with Lt => q | Gt => q + 1 | Eq => if Z.even q then q else q + 1 end.
Definition chop_round (d : Z) : Z := if d <? 0 then - chop_round_nonneg (- d) else chop_round_nonneg d.

Definition dec_mul (a b : Z) : Z := chop_round (a * b).
Definition dec_quo (a b : Z) : Z := chop_round (Z.quot (a * P * P) b).
Definition of_int (i : Z) : Z := i * P.
Definition truncate_int (a : Z) : Z := Z.quot a P.

(* layertypes.PowerReduction = sdk.DefaultPowerReduction = 10^6 *)
Definition PR : Z := 1000000.

(* ---- Ratio ------------------------------------------------------------------------------ *)
(* total = total.MulRaw(4); part.Mul(powerReduction).Quo(total).Mul(100).TruncateInt() *)
Definition ratio (total part : Z) : Z :=
  if total =? 0 then 0 else
  let total4 := total * 4 in
  truncate_int (dec_mul (dec_quo (dec_mul (of_int part) (of_int PR)) (of_int total4)) (of_int 100)).

(* ---- TallyVote -------------------------------------------------------------------------- *)
Inductive choice := Support | Against | Invalid.
Inductive dstatus := Prevote | Voting | Resolved | Unresolved | Failed.

(* a triple indexed by the three choices *)
Record counts := C3 { c_s : Z; c_a : Z; c_i : Z }.
Definition csum (c : counts) : Z := c_s c + c_a c + c_i c.

Record tally_in := TI {
  ti_prev : Z;                 (* Votes[id].VoteResult before the call *)
  ti_team : option choice;     (* Voter[(id, team address)] *)
  ti_users : counts;           (* VoteCountsByGroup[id] (absent record = zeros) *)
  ti_reps : counts;
  ti_holders : counts;
  ti_tips : Z;                 (* BlockInfo.TotalUserTips *)
  ti_power : Z;                (* BlockInfo.TotalReporterPower *)
  ti_supply : Z;               (* bank supply of loya at the time of the tally *)
  ti_now : Z;                  (* block time *)
  ti_vote_end : Z;             (* Votes[id].VoteEnd *)
  ti_disp_end : Z;             (* Disputes[id].DisputeEndTime *)
  ti_voters : Z;               (* number of Voter records of this dispute id *)
  ti_status : dstatus; ti_open : bool; ti_pending : bool }.

Inductive tally_err := TOk | TStillVoting | TNoMajority | TAlreadyTallied.

(* what TallyVote leaves behind: error class, Votes[id].{VoteResult,VoteEnd},
   Disputes[id].{DisputeStatus,Open,PendingExecution} *)
Record tally_out := TO {
  to_err : tally_err; to_result : Z; to_vote_end : Z;
  to_status : dstatus; to_open : bool; to_pending : bool }.

Definition team_scaled (t : option choice) : counts :=
  match t with
  | Some Support => C3 PR 0 0 | Some Against => C3 0 PR 0 | Some Invalid => C3 0 0 PR
  | None => C3 0 0 0
  end.
Definition team_ratio (t : option choice) : Z := match t with Some _ => 25 * PR | None => 0 end.

(* votes.Mul(powerReductionDec).Quo(sumDec) *)
Definition frac (v sum : Z) : Z := dec_quo (dec_mul (of_int v) (of_int PR)) (of_int sum).

Definition add_frac (acc g : counts) : counts :=
  let sum := csum g in
  C3 (c_s acc + frac (c_s g) sum) (c_a acc + frac (c_a g) sum) (c_i acc + frac (c_i g) sum).

Definition quorum_level : Z := 51 * PR.

(* UpdateDispute's switch; None = errors.New("no majority") *)
Definition update_dispute (fx quorum : bool) (s a i : Z) : option Z :=
  if (a <? s) && (i <? s) then Some (if quorum then 1 else 4)
  else if (s <? a) && (i <? a) then Some (if quorum then 2 else 5)
  else if (s <? i) && (a <? i) then Some (if quorum then 3 else 6)
  else if fx then Some (if quorum then 3 else 6) else None.

(* accumulators after the team, users and reporters sections *)
Definition acc_team (x : tally_in) : counts :=
  let t := team_scaled (ti_team x) in C3 (of_int (c_s t)) (of_int (c_a t)) (of_int (c_i t)).
Definition acc_users (x : tally_in) : counts :=
  if 0 <? csum (ti_users x) then add_frac (acc_team x) (ti_users x) else acc_team x.
Definition acc_reps (x : tally_in) : counts :=
  if 0 <? csum (ti_reps x) then add_frac (acc_users x) (ti_reps x) else acc_users x.
Definition acc_holders (x : tally_in) : counts :=
  if negb (csum (ti_holders x) =? 0) then add_frac (acc_reps x) (ti_holders x) else acc_reps x.

Definition ratio_users (x : tally_in) : Z :=
  team_ratio (ti_team x) + (if 0 <? csum (ti_users x) then ratio (ti_tips x) (csum (ti_users x)) else 0).
Definition ratio_reps (x : tally_in) : Z := ratio_users x + ratio (ti_power x) (csum (ti_reps x)).
Definition ratio_holders (x : tally_in) : Z := ratio_reps x + ratio (ti_supply x) (csum (ti_holders x)).

Definition first_quorum (x : tally_in) : bool := quorum_level <=? ratio_reps x.
Definition second_quorum (x : tally_in) : bool := quorum_level <=? ratio_holders x.

(* Disputes.Set happens inside UpdateDispute before the switch: on "no majority" the dispute
   record is written, the vote record is not (inside a transaction or BeginBlock the error
   discards both; the driver calls TallyVote directly and sees the write). *)
Definition finish (fx quorum : bool) (x : tally_in) (st : dstatus) (op : bool) (s a i : Z) : tally_out :=
  match update_dispute fx quorum s a i with
  | Some res => TO TOk res (ti_now x) st op true
  | None => TO TNoMajority (ti_prev x) (ti_vote_end x) st op true
  end.

Definition tally_vote (fx : bool) (x : tally_in) : tally_out :=
  let unchanged e := TO e (ti_prev x) (ti_vote_end x) (ti_status x) (ti_open x) (ti_pending x) in
  if negb (ti_prev x =? 0) then unchanged TAlreadyTallied
  else if first_quorum x then
    (* scaled*Dec.Quo(numGroupsDec).TruncateInt(): token holders are not looked at *)
    let a := acc_reps x in
    finish fx true x Resolved false
           (truncate_int (dec_quo (c_s a) (of_int 4))) (truncate_int (dec_quo (c_a a) (of_int 4)))
           (truncate_int (dec_quo (c_i a) (of_int 4)))
  else
    let a := acc_holders x in
    if second_quorum x then
      finish fx true x Resolved false (truncate_int (c_s a)) (truncate_int (c_a a)) (truncate_int (c_i a))
    else if ti_vote_end x <? ti_now x then
      let expired := ti_disp_end x <? ti_now x in
      let st := if expired then Resolved else Unresolved in
      let op := if expired then false else ti_open x in
      if ti_voters x =? 0 then TO TOk 6 (ti_now x) st op true
      else finish fx false x st op (truncate_int (c_s a)) (truncate_int (c_a a)) (truncate_int (c_i a))
    else unchanged TStillVoting.

(* ---- the property's formula, in exact rationals ------------------------------------------ *)
(* Every participating group g (cast_g > 0) contributes its fractions v_{g,c}/cast_g; the team
   is a group with one vote.  score_c = score_num c / score_den (common denominator). *)
Definition pos1 (z : Z) : Z := if z =? 0 then 1 else z.
Definition team_votes (t : option choice) : counts :=
  match t with
  | Some Support => C3 1 0 0 | Some Against => C3 0 1 0 | Some Invalid => C3 0 0 1 | None => C3 0 0 0
  end.

Definition score_den (x : tally_in) : Z :=
  pos1 (csum (ti_users x)) * pos1 (csum (ti_reps x)) * pos1 (csum (ti_holders x)).
Definition score_num (sel : counts -> Z) (x : tally_in) : Z :=
  let cu := pos1 (csum (ti_users x)) in let cr := pos1 (csum (ti_reps x)) in
  let ch := pos1 (csum (ti_holders x)) in
  sel (team_votes (ti_team x)) * (cu * cr * ch) + sel (ti_users x) * (cr * ch)
  + sel (ti_reps x) * (cu * ch) + sel (ti_holders x) * (cu * cr).

(* participation in percent = 25 * part_num / part_den; a group whose total is 0 adds nothing *)
Definition eff (total cast : Z) : Z := if total =? 0 then 0 else cast.
Definition part_den (x : tally_in) : Z := pos1 (ti_tips x) * pos1 (ti_power x) * pos1 (ti_supply x).
Definition part_num (x : tally_in) : Z :=
  let tu := pos1 (ti_tips x) in let tr := pos1 (ti_power x) in let th := pos1 (ti_supply x) in
  (match ti_team x with Some _ => 1 | None => 0 end) * (tu * tr * th)
  + eff (ti_tips x) (csum (ti_users x)) * (tr * th)
  + eff (ti_power x) (csum (ti_reps x)) * (tu * th)
  + eff (ti_supply x) (csum (ti_holders x)) * (tu * tr).

(* resolution of the code's fixed-point arithmetic: participation is summed from three
   ratios rounded to 10^-6 percent each (+-3 units); scores are compared after truncation to
   10^-6 of a quarter group (< 5 units of 10^-6 group) *)
Definition quorum_surely (x : tally_in) : bool := (51 * PR + 3) * part_den x <=? 25 * PR * part_num x.
Definition quorum_possibly (x : tally_in) : bool := (51 * PR - 3) * part_den x <=? 25 * PR * part_num x.

Definition score_tol : Z := 5.
(* a is ahead of b by at least the resolution *)
Definition ahead (na nb d : Z) : bool := nb * PR + score_tol * d <=? na * PR.
Definition clear_winner (x : tally_in) : option choice :=
  let s := score_num c_s x in let a := score_num c_a x in let i := score_num c_i x in
  let d := score_den x in
  if ahead s a d && ahead s i d then Some Support
  else if ahead a s d && ahead a i d then Some Against
  else if ahead i s d && ahead i a d then Some Invalid
  else None.
(* c is within the resolution of both others' scores (possible winner) *)
Definition near_max (sel : counts -> Z) (x : tally_in) : bool :=
  let d := score_den x in let n := score_num sel x in
  negb (ahead (score_num c_s x) n d) && negb (ahead (score_num c_a x) n d)
  && negb (ahead (score_num c_i x) n d).

Definition result_code (quorum : bool) (c : choice) : Z :=
  (if quorum then 0 else 3) + match c with Support => 1 | Against => 2 | Invalid => 3 end.

(* the result the formula allows: the clear winner; without one (tie within the resolution)
   INVALID or one of the choices within the resolution of the maximum *)
Definition result_allowed (quorum : bool) (x : tally_in) (res : Z) : bool :=
  match clear_winner x with
  | Some c => res =? result_code quorum c
  | None => (res =? result_code quorum Invalid)
            || ((res =? result_code quorum Support) && near_max c_s x)
            || ((res =? result_code quorum Against) && near_max c_a x)
  end.

(* two choices with exactly the same votes in every group: neither of them may win
   (a tie resolves to INVALID) *)
Definition same_votes (sa sb : counts -> Z) (x : tally_in) : bool :=
  (sa (ti_users x) =? sb (ti_users x)) && (sa (ti_reps x) =? sb (ti_reps x))
  && (sa (ti_holders x) =? sb (ti_holders x)) && (sa (team_votes (ti_team x)) =? sb (team_votes (ti_team x))).
Definition symmetric_ok (quorum : bool) (x : tally_in) (res : Z) : bool :=
  (negb (same_votes c_s c_a x)
   || (negb (res =? result_code quorum Support) && negb (res =? result_code quorum Against)))
  && (negb (same_votes c_s c_i x) || negb (res =? result_code quorum Support))
  && (negb (same_votes c_a c_i x) || negb (res =? result_code quorum Against)).

Definition dstatus_eqb (a b : dstatus) : bool :=
  match a, b with
  | Prevote, Prevote | Voting, Voting | Resolved, Resolved | Unresolved, Unresolved | Failed, Failed => true
  | _, _ => false
  end.
Definition err_eqb (a b : tally_err) : bool :=
  match a, b with
  | TOk, TOk | TStillVoting, TStillVoting | TNoMajority, TNoMajority | TAlreadyTallied, TAlreadyTallied => true
  | _, _ => false
  end.
Definition out_eqb (a b : tally_out) : bool :=
  err_eqb (to_err a) (to_err b) && (to_result a =? to_result b) && (to_vote_end a =? to_vote_end b)
  && dstatus_eqb (to_status a) (to_status b) && Bool.eqb (to_open a) (to_open b)
  && Bool.eqb (to_pending a) (to_pending b).

(* inputs the chain can produce: no voter record => nobody voted *)
Definition consistent (x : tally_in) : bool :=
  negb (ti_voters x =? 0)
  || ((csum (ti_users x) =? 0) && (csum (ti_reps x) =? 0) && (csum (ti_holders x) =? 0)
      && match ti_team x with None => true | Some _ => false end).

Definition unchanged_out (x : tally_in) (o : tally_out) : bool :=
  (to_result o =? ti_prev x) && (to_vote_end o =? ti_vote_end x) && dstatus_eqb (to_status o) (ti_status x)
  && Bool.eqb (to_open o) (ti_open x) && Bool.eqb (to_pending o) (ti_pending x).

(* executable specification of the tally, evaluated on the implementation's answer [o] *)
Definition tally_spec (x : tally_in) (o : tally_out) : issues :=
  if negb (ti_prev x =? 0) then
    spec_if (err_eqb (to_err o) TAlreadyTallied && unchanged_out x o)
            "lifecycle: a tallied vote was tallied again or its records changed"
  else if negb (consistent x) then []
  else match to_err o with
  | TNoMajority | TAlreadyTallied =>
      [Spec "undecided: the tally returns an error instead of a result for this vote distribution"]
  | TStillVoting =>
      spec_if (negb (quorum_surely x)) "quorum: participation is at least 51% but the vote is left open"
      ++ spec_if (ti_now x <=? ti_vote_end x) "quorum: voting period is over but no result was recorded"
      ++ spec_if (unchanged_out x o) "lifecycle: records changed although the vote is still open"
  | TOk =>
      let res := to_result o in
      let quorum := res <=? 3 in
      spec_if ((1 <=? res) && (res <=? 6)) "undecided: no vote result recorded by a successful tally"
      ++ spec_if (if quorum then quorum_possibly x else negb (quorum_surely x))
                 "quorum: decision differs from 51% of the four 25% group weights"
      ++ spec_if (quorum || (ti_vote_end x <? ti_now x)) "quorum: no-quorum result before the voting period ended"
      ++ spec_if (result_allowed quorum x res)
                 "result: recorded result is not the choice with the highest sum of group fractions"
      ++ spec_if (symmetric_ok quorum x res)
                 "tie: a choice wins although another choice has exactly the same votes in every group"
      ++ spec_if (to_vote_end o =? ti_now x) "lifecycle: vote end not set to the tally time"
      ++ spec_if (to_pending o &&
                  (if quorum || (ti_disp_end x <? ti_now x)
                   then dstatus_eqb (to_status o) Resolved && negb (to_open o)
                   else dstatus_eqb (to_status o) Unresolved && Bool.eqb (to_open o) (ti_open x)))
                 "lifecycle: dispute status/open/pending after the tally"
  end.

(* ---- vote bookkeeping (msg_server_vote.go, vote.go) -------------------------------------- *)
(* One dispute round.  Addresses are numbers; the neighbouring keepers are functions of the
   address ([account]): tips at the dispute block, current selection, reporter tokens and
   selector tokens at the dispute block; the bank balance is read at vote time and comes
   with the operation.  StakeholderVoteCounts are uint64: additions and the subtraction of a
   selector's tokens from its reporter's earlier vote wrap modulo 2^64; math.Int.Uint64()
   panics outside [0, 2^64) (the transaction fails). *)
Definition U64 : Z := 18446744073709551616.
Definition wrap64 (z : Z) : Z := z mod U64.
Definition is_u64 (z : Z) : bool := (0 <=? z) && (z <? U64).

Definition cget (c : choice) (t : counts) : Z :=
  match c with Support => c_s t | Against => c_a t | Invalid => c_i t end.
Definition cset (c : choice) (v : Z) (t : counts) : counts :=
  match c with
  | Support => C3 v (c_a t) (c_i t) | Against => C3 (c_s t) v (c_i t) | Invalid => C3 (c_s t) (c_a t) v
  end.
Definition cadd64 (c : choice) (amt : Z) (t : counts) : counts := cset c (wrap64 (cget c t + amt)) t.
Definition csub64 (c : choice) (amt : Z) (t : counts) : counts := cset c (wrap64 (cget c t - amt)) t.

Record account := AC {
  ac_tips : Z;              (* oracle GetTipsAtBlockForTipper(dispute block); 0 = none *)
  ac_sel : option Z;        (* reporter Delegation(addr): the reporter currently selected *)
  ac_rep_tokens : Z;        (* GetReporterTokensAtBlock(addr, dispute block) *)
  ac_sel_tokens : Z }.      (* GetDelegatorTokensAtBlock(addr, dispute block); ErrNotFound without selection *)

Record voter_rec := VR { vr_vote : choice; vr_power : Z; vr_rep : Z; vr_holder : Z }.

Fixpoint alookup {A} (k : Z) (l : list (Z * A)) : option A :=
  match l with
  | [] => None
  | (k', v) :: t => if k =? k' then Some v else alookup k t
  end.
Fixpoint aset {A} (k : Z) (v : A) (l : list (Z * A)) : list (Z * A) :=
  match l with
  | [] => [(k, v)]
  | (k', v') :: t => if k =? k' then (k, v) :: t else (k', v') :: aset k v t
  end.

Record round_state := RS {
  rs_team : counts; rs_users : counts; rs_reps : counts; rs_holders : counts;
  rs_voters : list (Z * voter_rec);
  rs_before : list (Z * Z);        (* ReportersWithDelegatorsVotedBefore[(reporter, id)] *)
  rs_result : Z; rs_vote_end : Z; rs_status : dstatus; rs_open : bool; rs_pending : bool }.

Record round_env := RE {
  re_team : Z;                       (* the team's address *)
  re_accounts : list (Z * account);
  re_tips : Z; re_power : Z;         (* BlockInfo of the dispute *)
  re_supply : Z; re_disp_end : Z }.

Definition account_of (env : round_env) (a : Z) : account :=
  match alookup a (re_accounts env) with Some x => x | None => AC 0 None 0 0 end.

Inductive vote_res :=
| VAccepted | VNotVoting | VAlreadyVoted | VPeriodEnded | VPanic | VZeroPower | VTallyError.

(* the four Set*Vote functions in the order of msgServer.Vote; None = panic in Uint64() *)
Definition vote_powers (env : round_env) (st : round_state) (who : Z) (c : choice) (bal : Z)
  : option (round_state * voter_rec) :=
  let acct := account_of env who in
  (* SetTeamVote *)
  let is_team := who =? re_team env in
  let team1 := if is_team then cset c 1 (rs_team st) else rs_team st in
  let tp := if is_team then 25000000 else 0 in
  (* SetVoterTips *)
  let tips := ac_tips acct in
  if negb (tips =? 0) && negb (is_u64 tips) then None else
  let users1 := if tips =? 0 then rs_users st else cadd64 c tips (rs_users st) in
  (* SetVoterReporterStake *)
  let stake : option (counts * list (Z * voter_rec) * list (Z * Z) * Z) :=
    match ac_sel acct with
    | None => Some (rs_reps st, rs_voters st, rs_before st, 0)
    | Some r =>
      if who =? r then
        let before := match alookup r (rs_before st) with Some b => b | None => 0 end in
        let tokens := ac_rep_tokens acct - before in
        if is_u64 tokens then Some (cadd64 c tokens (rs_reps st), rs_voters st, rs_before st, tokens) else None
      else
        let stok := ac_sel_tokens acct in
        if negb (is_u64 stok) then None else
        match alookup r (rs_voters st) with
        | Some rv =>
            let reps1 := csub64 (vr_vote rv) stok (rs_reps st) in
            let voters1 := aset r (VR (vr_vote rv) (vr_power rv) (vr_rep rv - stok) (vr_holder rv)) (rs_voters st) in
            Some (cadd64 c stok reps1, voters1, rs_before st, stok)
        | None =>
            let before := match alookup r (rs_before st) with Some b => b | None => 0 end in
            Some (cadd64 c stok (rs_reps st), rs_voters st, aset r (before + stok) (rs_before st), stok)
        end
    end in
  match stake with
  | None => None
  | Some (reps1, voters1, before1, repP) =>
    (* SetTokenholderVote *)
    let tb := bal + match ac_sel acct with Some _ => ac_sel_tokens acct | None => 0 end in
    if negb (is_u64 tb) then None else
    let holders1 := cadd64 c tb (rs_holders st) in
    let power := tp + tips + repP + tb in
    Some (RS team1 users1 reps1 holders1 voters1 before1 (rs_result st) (rs_vote_end st)
             (rs_status st) (rs_open st) (rs_pending st),
          VR c power repP tb)
  end.

Definition round_ti (env : round_env) (st : round_state) (now : Z) : tally_in :=
  TI (rs_result st) (option_map vr_vote (alookup (re_team env) (rs_voters st)))
     (rs_users st) (rs_reps st) (rs_holders st) (re_tips env) (re_power env) (re_supply env)
     now (rs_vote_end st) (re_disp_end env) (Z.of_nat (List.length (rs_voters st)))
     (rs_status st) (rs_open st) (rs_pending st).

(* msgServer.Vote as one atomic transaction *)
Definition vote_msg (fx : bool) (env : round_env) (st : round_state) (now who : Z) (c : choice) (bal : Z)
  : vote_res * round_state :=
  if negb (dstatus_eqb (rs_status st) Voting) then (VNotVoting, st)
  else match alookup who (rs_voters st) with
  | Some _ => (VAlreadyVoted, st)
  | None =>
    if rs_vote_end st <? now then (VPeriodEnded, st)
    else match vote_powers env st who c bal with
    | None => (VPanic, st)
    | Some (st1, rec) =>
      if vr_power rec =? 0 then (VZeroPower, st)
      else
        let st2 := RS (rs_team st1) (rs_users st1) (rs_reps st1) (rs_holders st1)
                      (aset who rec (rs_voters st1)) (rs_before st1) (rs_result st1) (rs_vote_end st1)
                      (rs_status st1) (rs_open st1) (rs_pending st1) in
        let o := tally_vote fx (round_ti env st2 now) in
        match to_err o with
        | TOk => (VAccepted, RS (rs_team st2) (rs_users st2) (rs_reps st2) (rs_holders st2) (rs_voters st2)
                                (rs_before st2) (to_result o) (to_vote_end o) (to_status o) (to_open o) (to_pending o))
        | TStillVoting => (VAccepted, st2)
        | TNoMajority | TAlreadyTallied => (VTallyError, st)
        end
    end
  end.

Record vote_op := VO { vo_now : Z; vo_who : Z; vo_choice : choice; vo_bal : Z }.

Fixpoint vote_run (fx : bool) (env : round_env) (st : round_state) (ops : list vote_op)
  : list vote_res * round_state :=
  match ops with
  | [] => ([], st)
  | o :: r =>
      let '(res, st1) := vote_msg fx env st (vo_now o) (vo_who o) (vo_choice o) (vo_bal o) in
      let '(rs, st2) := vote_run fx env st1 r in
      (res :: rs, st2)
  end.

Definition round_start (vote_end : Z) : round_state :=
  RS (C3 0 0 0) (C3 0 0 0) (C3 0 0 0) (C3 0 0 0) [] [] 0 vote_end Voting true false.

(* ---- dispute lifecycle ---------------------------------------------------------------------- *)
Definition ONE_DAY : Z := 86400 * 1000000000.
Definition TWO_DAYS : Z := 2 * ONE_DAY.
Definition THREE_DAYS : Z := 3 * ONE_DAY.

(* what a tally reads besides the dispute and vote records *)
Record tally_data := TD {
  td_team : option choice; td_users : counts; td_reps : counts; td_holders : counts;
  td_tips : Z; td_power : Z; td_supply : Z; td_voters : Z }.
Definition no_votes : tally_data := TD None (C3 0 0 0) (C3 0 0 0) (C3 0 0 0) 0 0 0 0.

Record dispute := DS {
  d_status : dstatus; d_open : bool; d_pending : bool;       (* Disputes[id] *)
  d_round : Z; d_end : Z; d_fee_total : Z; d_slash : Z; d_burn : Z;
  d_has_vote : bool; d_vote_end : Z; d_result : Z; d_executed : bool;   (* Votes[id] *)
  d_votes : tally_data }.

Record world := W { w_now : Z; w_ds : list dispute }.     (* dispute id = position + 1 *)

Inductive event :=
| EPropose (slash fee : Z)              (* MsgProposeDispute on a report without dispute *)
| EAddFee (id : nat) (amt : Z)          (* MsgAddFeeToDispute *)
| EVote (id : nat) (v : tally_data)     (* an accepted-power MsgVote: the counters it leaves *)
| ENewRound (id : nat) (fee : Z)        (* MsgProposeDispute on the report of dispute id *)
| EBlock (dt : Z).                      (* next block after dt ns: BeginBlocker *)

(* slashAmount.Mul(1).Quo(20).TruncateInt() *)
Definition five_percent (slash : Z) : Z :=
  truncate_int (dec_quo (dec_mul (of_int slash) (of_int 1)) (of_int 20)).
Definition round_fee (slash round : Z) : Z :=
  let f := five_percent slash * 2 ^ round in if slash <? f then slash else f.

Definition start_vote (d : dispute) (now : Z) (fee_total burn round : Z) (open pending : bool) : dispute :=
  DS Voting open pending round (now + THREE_DAYS) fee_total (d_slash d) burn
     true (now + TWO_DAYS) 0 false no_votes.

Definition dispute_ti (d : dispute) (now : Z) : tally_in :=
  let v := d_votes d in
  TI (d_result d) (td_team v) (td_users v) (td_reps v) (td_holders v) (td_tips v) (td_power v) (td_supply v)
     now (d_vote_end d) (d_end d) (td_voters v) (d_status d) (d_open d) (d_pending d).

Definition apply_tally (d : dispute) (o : tally_out) : dispute :=
  DS (to_status o) (to_open o) (to_pending o) (d_round d) (d_end d) (d_fee_total d) (d_slash d) (d_burn d)
     (d_has_vote d) (to_vote_end o) (to_result o) (d_executed d) (d_votes d).

Definition set_votes (d : dispute) (v : tally_data) : dispute :=
  DS (d_status d) (d_open d) (d_pending d) (d_round d) (d_end d) (d_fee_total d) (d_slash d) (d_burn d)
     (d_has_vote d) (d_vote_end d) (d_result d) (d_executed d) v.

Definition set_flags (d : dispute) (st : dstatus) (op pe ex : bool) : dispute :=
  DS st op pe (d_round d) (d_end d) (d_fee_total d) (d_slash d) (d_burn d)
     (d_has_vote d) (d_vote_end d) (d_result d) ex (d_votes d).

(* abci.go for one dispute: CheckOpenDisputesForExpiration, then CheckClosedDisputesForExecution;
   None = BeginBlocker returns an error (the chain halts) *)
Definition block_open (fx : bool) (now : Z) (d : dispute) : option dispute :=
  if negb (d_open d) then Some d
  else if (d_end d <? now) && dstatus_eqb (d_status d) Prevote then Some (set_flags d Failed false (d_pending d) (d_executed d))
  else if dstatus_eqb (d_status d) Voting then
    if negb (d_has_vote d) then None
    else if (d_vote_end d <? now) && (d_result d =? 0) then
      let o := tally_vote fx (dispute_ti d now) in
      match to_err o with TOk => Some (apply_tally d o) | _ => None end
    else Some d
  else Some d.

Definition block_pending (now : Z) (d : dispute) : option dispute :=
  if negb (d_pending d) then Some d
  else if (d_end d <? now) || dstatus_eqb (d_status d) Resolved then
    (* ExecuteVote *)
    if negb (d_has_vote d) then None else
    let st := if negb (d_result d =? 0) && (d_end d <? now) then Resolved else d_status d in
    if negb (dstatus_eqb st Resolved) then None
    else if d_executed d then None
    else if d_result d =? 0 then None
    else Some (set_flags d st (d_open d) false true)
  else Some d.

Definition block_dispute (fx : bool) (now : Z) (d : dispute) : option dispute :=
  match block_open fx now d with Some d1 => block_pending now d1 | None => None end.

Fixpoint map_opt {A B} (f : A -> option B) (l : list A) : option (list B) :=
  match l with
  | [] => Some []
  | x :: t => match f x, map_opt f t with Some y, Some r => Some (y :: r) | _, _ => None end
  end.

Fixpoint upd_nth {A} (n : nat) (v : A) (l : list A) : list A :=
  match l, n with
  | [], _ => []
  | _ :: t, O => v :: t
  | x :: t, S k => x :: upd_nth k v t
  end.

(* Some w' : the world after the event (a rejected transaction leaves it unchanged);
   None    : BeginBlocker failed *)
Definition step (fx : bool) (w : world) (e : event) : option world :=
  let now := w_now w in
  match e with
  | EPropose slash fee =>
      if (slash <? 1) || (fee <? 1) then Some w else
      let fee' := if slash <? fee then slash else fee in
      let d0 := DS Prevote true false 1 (now + ONE_DAY) fee' slash (five_percent slash) false 0 0 false no_votes in
      let d := if fee' =? slash then start_vote d0 now fee' (five_percent slash) 1 true false else d0 in
      Some (W now (w_ds w ++ [d]))
  | EAddFee id amt =>
      match nth_error (w_ds w) id with
      | None => Some w
      | Some d =>
        if (amt <? 1) || (d_end d <? now) || (d_slash d <=? d_fee_total d) then Some w else
        let amt' := if d_slash d <? d_fee_total d + amt then d_slash d - d_fee_total d else amt in
        let total := d_fee_total d + amt' in
        let d' := if total =? d_slash d
                  then start_vote d now total (d_burn d) (d_round d) (d_open d) (d_pending d)
                  else DS (d_status d) (d_open d) (d_pending d) (d_round d) (d_end d) total (d_slash d) (d_burn d)
                          (d_has_vote d) (d_vote_end d) (d_result d) (d_executed d) (d_votes d) in
        Some (W now (upd_nth id d' (w_ds w)))
      end
  | EVote id v =>
      match nth_error (w_ds w) id with
      | None => Some w
      | Some d =>
        if negb (dstatus_eqb (d_status d) Voting) || negb (d_has_vote d) || (d_vote_end d <? now) then Some w else
        let d1 := set_votes d v in
        let o := tally_vote fx (dispute_ti d1 now) in
        match to_err o with
        | TOk => Some (W now (upd_nth id (apply_tally d1 o) (w_ds w)))
        | TStillVoting => Some (W now (upd_nth id d1 (w_ds w)))
        | _ => Some w
        end
      end
  | ENewRound id fee =>
      match nth_error (w_ds w) id with
      | None => Some w
      | Some d =>
        if negb (dstatus_eqb (d_status d) Unresolved) || negb (d_open d) || (d_end d <? now)
           || (fee <? round_fee (d_slash d) (d_round d)) then Some w else
        let rf := round_fee (d_slash d) (d_round d) in
        let old := set_flags d (d_status d) false false (d_executed d) in
        let new := start_vote d now (d_fee_total d + rf) (d_burn d + rf) (d_round d + 1) (d_open d) (d_pending d) in
        Some (W now (upd_nth id old (w_ds w) ++ [new]))
      end
  | EBlock dt =>
      if dt <? 0 then Some w else
      match map_opt (block_dispute fx (now + dt)) (w_ds w) with
      | Some ds => Some (W (now + dt) ds)
      | None => None
      end
  end.

Fixpoint run (fx : bool) (w : world) (es : list event) : option world :=
  match es with
  | [] => Some w
  | e :: r => match step fx w e with Some w1 => run fx w1 r | None => None end
  end.

(* position in the lifecycle: strictly increasing along every transition *)
Definition rank (d : dispute) : Z :=
  match d_status d with
  | Prevote => 0
  | Voting => 1
  | Unresolved => if d_pending d then 2 else 3
  | Resolved => if d_executed d then 5 else 4
  | Failed => 5
  end.

(* the status graph of the property text *)
Definition status_step (a b : dstatus) : Prop :=
  a = b \/ (a = Prevote /\ b = Voting) \/ (a = Prevote /\ b = Failed) \/ (a = Voting /\ b = Unresolved)
  \/ (a = Voting /\ b = Resolved) \/ (a = Unresolved /\ b = Resolved).

(* ---- correspondence cases ----------------------------------------------------------------- *)
(* variant of the model that mirrors the working tree of /repo: [true] since the fix: commit
   "a tally without strict majority resolves to invalid instead of an error" (F03); with
   [false] the check reproduces the code as found (pinned snapshot) *)
Definition repo_fix_F03 : bool := true.

(* ---- executable specification of the vote bookkeeping, evaluated on the implementation's
   answers to a sequence of MsgVote and on the records it leaves --------------------------- *)
Definition choice_eqb (a b : choice) : bool :=
  match a, b with Support, Support | Against, Against | Invalid, Invalid => true | _, _ => false end.
Definition res_eqb (a b : vote_res) : bool :=
  match a, b with
  | VAccepted, VAccepted | VNotVoting, VNotVoting | VAlreadyVoted, VAlreadyVoted | VPeriodEnded, VPeriodEnded
  | VPanic, VPanic | VZeroPower, VZeroPower | VTallyError, VTallyError => true
  | _, _ => false
  end.
Definition counts_eqb (a b : counts) : bool := (c_s a =? c_s b) && (c_a a =? c_a b) && (c_i a =? c_i b).
Definition rec_eqb (a b : voter_rec) : bool :=
  choice_eqb (vr_vote a) (vr_vote b) && (vr_power a =? vr_power b) && (vr_rep a =? vr_rep b)
  && (vr_holder a =? vr_holder b).
(* two association lists with distinct keys describe the same map *)
Definition amap_eqb {A} (eqb : A -> A -> bool) (a b : list (Z * A)) : bool :=
  (Nat.eqb (List.length a) (List.length b))
  && forallb (fun kv => match alookup (fst kv) b with Some v => eqb (snd kv) v | None => false end) a.
Definition state_eqb (a b : round_state) : bool :=
  counts_eqb (rs_team a) (rs_team b) && counts_eqb (rs_users a) (rs_users b)
  && counts_eqb (rs_reps a) (rs_reps b) && counts_eqb (rs_holders a) (rs_holders b)
  && amap_eqb rec_eqb (rs_voters a) (rs_voters b) && amap_eqb Z.eqb (rs_before a) (rs_before b)
  && (rs_result a =? rs_result b) && (rs_vote_end a =? rs_vote_end b)
  && dstatus_eqb (rs_status a) (rs_status b) && Bool.eqb (rs_open a) (rs_open b)
  && Bool.eqb (rs_pending a) (rs_pending b).

(* accepted operations, in order *)
Fixpoint accepted_ops (ops : list vote_op) (rs : list vote_res) : list vote_op :=
  match ops, rs with
  | o :: ot, VAccepted :: rt => o :: accepted_ops ot rt
  | _ :: ot, _ :: rt => accepted_ops ot rt
  | _, _ => []
  end.
Fixpoint nodupb (l : list Z) : bool :=
  match l with [] => true | x :: t => negb (existsb (Z.eqb x) t) && nodupb t end.

Definition sumz (l : list Z) : Z := fold_right Z.add 0 l.

(* reporter-group weight of a voter, independent of the order of the votes: a reporter weighs
   its stake at the dispute block minus the tokens of its selectors who voted themselves; a
   selector weighs its own tokens *)
Definition rep_weight (env : round_env) (voters : list (Z * voter_rec)) (a : Z) : Z :=
  let acct := account_of env a in
  match ac_sel acct with
  | None => 0
  | Some r =>
      if a =? r then
        ac_rep_tokens acct
        - sumz (map (fun kv => let b := fst kv in
                               match ac_sel (account_of env b) with
                               | Some r' => if (r' =? a) && negb (b =? a) then ac_sel_tokens (account_of env b) else 0
                               | None => 0 end) voters)
      else ac_sel_tokens acct
  end.
Definition holder_weight (env : round_env) (bal a : Z) : Z :=
  bal + match ac_sel (account_of env a) with Some _ => ac_sel_tokens (account_of env a) | None => 0 end.

Definition sum_by (c : choice) (voters : list (Z * voter_rec)) (w : Z -> Z) : Z :=
  sumz (map (fun kv => if choice_eqb (vr_vote (snd kv)) c then w (fst kv) else 0) voters).

(* the environment the chain can produce: all amounts are non-negative uint64 values, and a
   reporter's tokens at the dispute block include the tokens of each of its selectors *)
Definition env_ok (env : round_env) : bool :=
  forallb (fun ka =>
    let a := fst ka in let acct := snd ka in
    is_u64 (ac_tips acct) && is_u64 (ac_rep_tokens acct) && is_u64 (ac_sel_tokens acct)
    && (sumz (map (fun kb => match ac_sel (snd kb) with
                             | Some r => if (r =? a) && negb (fst kb =? a) then ac_sel_tokens (snd kb) else 0
                             | None => 0 end) (re_accounts env)) <=? ac_rep_tokens acct)
    && match ac_sel acct with Some r => if r =? a then ac_sel_tokens acct <=? ac_rep_tokens acct else true | None => true end)
  (re_accounts env)
  && nodupb (map fst (re_accounts env)).

Definition bal_of (acc : list vote_op) (a : Z) : Z :=
  match find (fun o => vo_who o =? a) acc with Some o => vo_bal o | None => 0 end.

Definition small_sums (env : round_env) (acc : list vote_op) : bool :=
  (sumz (map (fun ka => ac_tips (snd ka) + ac_rep_tokens (snd ka) + ac_sel_tokens (snd ka)) (re_accounts env))
   + sumz (map vo_bal acc) <? U64)
  && forallb (fun o => 0 <=? vo_bal o) acc.

Definition last_now (acc : list vote_op) : Z := match rev acc with o :: _ => vo_now o | [] => 0 end.

Definition vote_spec (env : round_env) (vend : Z) (ops : list vote_op) (block_ok : bool)
                     (rs : list vote_res) (st : round_state) : issues :=
  let acc := accepted_ops ops rs in
  let voters := rs_voters st in
  spec_if (negb (existsb (res_eqb VTallyError) rs))
          "undecided: a vote is rejected because the tally returns an error instead of a result"
  ++ spec_if (nodupb (map vo_who acc)) "vote-once: an address was accepted twice"
  ++ spec_if (forallb (fun o => vo_now o <=? vend) acc) "vote-open: a vote was accepted after the vote end"
  ++ spec_if (if rs_result st =? 0 then dstatus_eqb (rs_status st) Voting
              else negb (dstatus_eqb (rs_status st) Voting) && (last_now acc =? rs_vote_end st))
             "vote-open: a vote was accepted after the tally, or status and result disagree"
  ++ spec_if ((Nat.eqb (List.length voters) (List.length acc))
              && forallb (fun o => match alookup (vo_who o) voters with
                                   | Some r => choice_eqb (vr_vote r) (vo_choice o) | None => false end) acc)
             "vote-once: voter records are not exactly the accepted votes"
  ++ spec_if block_ok "power-source: tips or stake looked up at a block other than the dispute's"
  ++ (if env_ok env && small_sums env acc then
        spec_if (forallb (fun c =>
                   (cget c (rs_reps st) =? sum_by c voters (rep_weight env voters))
                   && (cget c (rs_users st) =? sum_by c voters (fun a => ac_tips (account_of env a)))
                   && (cget c (rs_holders st) =? sum_by c voters (fun a => holder_weight env (bal_of acc a) a))
                   && (cget c (rs_team st) =? sum_by c voters (fun a => if a =? re_team env then 1 else 0)))
                 [Support; Against; Invalid])
                "no-double-count: a group counter is not the sum of its voters' weights (stake counted twice or a counter wrapped)"
        ++ spec_if (forallb (fun kv =>
                      let a := fst kv in let r := snd kv in
                      (0 <=? rep_weight env voters a)
                      && (vr_rep r =? rep_weight env voters a)
                      && (vr_holder r =? holder_weight env (bal_of acc a) a)
                      (* VoterPower is fixed at vote time; ReporterPower shrinks when selectors vote later *)
                      && ((if a =? re_team env then 25000000 else 0) + ac_tips (account_of env a)
                          + vr_rep r + vr_holder r <=? vr_power r)
                      && (vr_power r <=? (if a =? re_team env then 25000000 else 0) + ac_tips (account_of env a)
                                         + (match ac_sel (account_of env a) with
                                            | Some r' => if a =? r' then ac_rep_tokens (account_of env a)
                                                         else ac_sel_tokens (account_of env a)
                                            | None => 0 end) + vr_holder r)) voters)
                   "power-source: a voter record differs from team weight + tips + stake + balance"
      else []).

(* ---- lifecycle correspondence (TestC12Lifecycle) ------------------------------------------------
   One case = a history of lifecycle events run on the real application; after every event all
   dispute records of the store (Disputes[id] + Votes[id], ids 1..n, in this order) and the amount
   the payer was actually charged are observed.
   [life_spec]: the property's lifecycle clause as an executable reference on the observed records
   alone; [life_diff]: the lifecycle machine ([step]) run on the same events. *)
(* layertypes.OnePercent: smallest fee msgServer.ProposeDispute accepts *)
Definition MIN_FEE : Z := 10000.

(* Disputes[id] and Votes[id] as observed *)
Record drec := DR {
  r_id : Z; r_status : dstatus; r_open : bool; r_pending : bool; r_round : Z;
  r_start : Z; r_end : Z; r_fee_total : Z; r_slash : Z; r_burn : Z; r_dfee : Z;
  r_prev : list Z;                                                   (* PrevDisputeIds *)
  r_has_vote : bool; r_vote_start : Z; r_vote_end : Z; r_result : Z; r_executed : bool }.

Inductive levent :=
| LPropose (report slash fee : Z)   (* MsgProposeDispute on report #report (slash = GetDisputeFee of it):
                                       a new dispute, or the next round of the report's lineage *)
| LAddFee (id amt : Z)              (* MsgAddFeeToDispute *)
| LVote (id : Z) (eligible : bool) (v : tally_data)
                                    (* MsgVote by an address that has / has not (eligible) voted on id and has
                                       power; v = what a tally of id reads after the message *)
| LBlock (dt : Z) (env : list (Z * tally_data)).
                                    (* next block dt ns later: dispute.BeginBlocker; env = what a tally reads,
                                       for every dispute in voting *)

(* result: 0 accepted / block ran, 1 transaction rejected, 2 BeginBlocker failed in expiry / tally,
   3 BeginBlocker failed in the execution of a vote (settlement, property C13): the chain has halted *)
Record lstep := LS { ls_ev : levent; ls_res : Z; ls_charged : Z; ls_recs : list drec }.

(* The driver writes, for every event, the records that are new or differ (in any field) from the previous
   observation; [expand] rebuilds the full observation after every event. *)
Fixpoint rput (l : list drec) (r : drec) : list drec :=
  match l with
  | [] => [r]
  | x :: t => if r_id x =? r_id r then r :: t else x :: rput t r
  end.
Fixpoint expand (prev : list drec) (steps : list lstep) : list lstep :=
  match steps with
  | [] => []
  | s :: rest =>
      let full := fold_left rput (ls_recs s) prev in
      LS (ls_ev s) (ls_res s) (ls_charged s) full :: expand full rest
  end.

Definition status_code (s : dstatus) : Z :=
  match s with Prevote => 0 | Voting => 1 | Resolved => 2 | Unresolved => 3 | Failed => 4 end.

Definition drec_eqb (a b : drec) : bool :=
  (r_id a =? r_id b) && dstatus_eqb (r_status a) (r_status b) && Bool.eqb (r_open a) (r_open b)
  && Bool.eqb (r_pending a) (r_pending b) && (r_round a =? r_round b) && (r_start a =? r_start b)
  && (r_end a =? r_end b) && (r_fee_total a =? r_fee_total b) && (r_slash a =? r_slash b)
  && (r_burn a =? r_burn b) && (r_dfee a =? r_dfee b) && list_eqb Z.eqb (r_prev a) (r_prev b)
  && Bool.eqb (r_has_vote a) (r_has_vote b) && (r_vote_start a =? r_vote_start b)
  && (r_vote_end a =? r_vote_end b) && (r_result a =? r_result b) && Bool.eqb (r_executed a) (r_executed b).
Definition recs_eqb : list drec -> list drec -> bool := list_eqb drec_eqb.

(* the status graph of the property text, one edge or none *)
Definition status_edge (a b : dstatus) : bool :=
  match a, b with
  | Prevote, Prevote | Voting, Voting | Resolved, Resolved | Unresolved, Unresolved | Failed, Failed
  | Prevote, Voting | Prevote, Failed | Voting, Unresolved | Voting, Resolved | Unresolved, Resolved => true
  | _, _ => false
  end.

(* [rank] on an observed record *)
Definition rrank (r : drec) : Z :=
  match r_status r with
  | Prevote => 0
  | Voting => 1
  | Unresolved => if r_pending r then 2 else 3
  | Resolved => if r_executed r then 5 else 4
  | Failed => 5
  end.

Definition rlc_eqb (a b : drec) : bool :=
  dstatus_eqb (r_status a) (r_status b) && Bool.eqb (r_open a) (r_open b) && Bool.eqb (r_pending a) (r_pending b)
  && (r_result a =? r_result b) && Bool.eqb (r_executed a) (r_executed b) && (r_round a =? r_round b).

(* the property's amounts: 5 % of the slash amount (rounded down), the fee of the round that follows round
   [round] = 5 % doubled once per round so far, capped by the slash amount; sum of the round fees paid for rounds
   2 .. n+1; burn amount of a dispute in round [round] = 5 % + all round fees so far.
   (Proofs: [five_percent] and [round_fee], the code's Dec arithmetic, agree with them.) *)
Definition pct5 (slash : Z) : Z := slash / 20.
Definition rfee (slash round : Z) : Z := Z.min (pct5 slash * 2 ^ round) slash.
Fixpoint fee_sum (slash : Z) (n : nat) : Z :=
  match n with O => 0 | S k => fee_sum slash k + rfee slash (Z.of_nat (S k)) end.
Definition burn_at (slash round : Z) : Z := pct5 slash + fee_sum slash (Z.to_nat (round - 1)).

Definition funded (s : dstatus) : bool := match s with Prevote | Failed => false | _ => true end.

(* what holds of every stored record at block time [now] (after the block's BeginBlocker) *)
Definition rec_amounts_ok (r : drec) : bool :=
  (1 <=? r_slash r) && (1 <=? r_round r) && (r_dfee r =? r_slash r - pct5 (r_slash r))
  && (r_burn r =? burn_at (r_slash r) (r_round r))
  && (if funded (r_status r) then r_fee_total r =? r_slash r + r_burn r - pct5 (r_slash r)
      else (1 <=? r_fee_total r) && (r_fee_total r <? r_slash r) && (r_round r =? 1)).

Definition rec_flags_ok (r : drec) : bool :=
  match r_status r with
  | Prevote => r_open r && negb (r_pending r) && negb (r_has_vote r) && (r_result r =? 0) && negb (r_executed r)
  | Voting => r_open r && r_has_vote r && (r_result r =? 0) && negb (r_executed r)
  | Failed => negb (r_open r) && negb (r_pending r) && negb (r_has_vote r) && (r_result r =? 0) && negb (r_executed r)
  | Unresolved => r_has_vote r && (4 <=? r_result r) && (r_result r <=? 6) && negb (r_executed r)
                  && Bool.eqb (r_open r) (r_pending r)
  | Resolved => r_has_vote r && (1 <=? r_result r) && (r_result r <=? 6) && Bool.eqb (r_pending r) (negb (r_executed r))
                && (if r_result r <=? 3 then negb (r_open r) else true)
  end.

Definition rec_times_ok (now : Z) (r : drec) : bool :=
  (r_start r <=? now) &&
  match r_status r with
  | Prevote => (r_end r =? r_start r + ONE_DAY) && (now <=? r_end r)           (* else it has failed *)
  | Failed => (r_end r =? r_start r + ONE_DAY) && (r_end r <? now)
  | Voting => (r_start r <=? r_vote_start r) && (r_vote_end r =? r_vote_start r + TWO_DAYS)
              && (r_end r =? r_vote_start r + THREE_DAYS) && (now <=? r_vote_end r)   (* else it has been tallied *)
              && (if r_round r =? 1 then true else r_vote_start r =? r_start r)
  | Unresolved => (r_end r =? r_vote_start r + THREE_DAYS) && (r_vote_start r + TWO_DAYS <? r_vote_end r)
                  && (r_vote_end r <=? r_end r) && (r_vote_end r <=? now)
                  && (if r_pending r then now <=? r_end r else true)            (* else it has been executed *)
  | Resolved => (r_end r =? r_vote_start r + THREE_DAYS) && (r_vote_start r <=? r_vote_end r) && (r_vote_end r <=? now)
  end.

(* one record before / after one event *)
Definition rec_step_ok (p n : drec) : bool :=
  (r_id p =? r_id n) && status_edge (r_status p) (r_status n) && (rrank p <=? rrank n)
  && (if rrank p =? rrank n then rlc_eqb p n else true)
  && (r_slash p =? r_slash n) && (r_dfee p =? r_dfee n) && (r_start p =? r_start n) && (r_round p =? r_round n)
  && (r_burn p =? r_burn n) && list_eqb Z.eqb (r_prev p) (r_prev n)
  && (if r_has_vote p then r_has_vote n && (r_vote_start p =? r_vote_start n) else true)
  && (r_fee_total p <=? r_fee_total n)
  && (if dstatus_eqb (r_status p) Prevote then true else r_fee_total p =? r_fee_total n)
  && ((r_end p =? r_end n) || (dstatus_eqb (r_status p) Prevote && dstatus_eqb (r_status n) Voting))
  && (if r_result p =? 0 then true else (r_result p =? r_result n) && (r_vote_end p =? r_vote_end n))
  && (if r_executed p then r_executed n else true).

Fixpoint steps_ok (P N : list drec) : bool :=
  match P, N with
  | [], _ => true
  | p :: P', n :: N' => rec_step_ok p n && steps_ok P' N'
  | _ :: _, [] => false
  end.

Fixpoint ids_from (k : Z) (N : list drec) : bool :=
  match N with [] => true | n :: N' => (r_id n =? k) && ids_from (k + 1) N' end.

Definition zlen {A} (l : list A) : Z := Z.of_nat (List.length l).
Definition rnth (l : list drec) (id : Z) : option drec := if id <? 1 then None else nth_error l (Z.to_nat (id - 1)).
Definition rupd (l : list drec) (id : Z) (v : drec) : list drec := if id <? 1 then l else upd_nth (Z.to_nat (id - 1)) v l.
Fixpoint split_last {A} (l : list A) : list A * option A :=
  match l with
  | [] => ([], None)
  | [x] => ([], Some x)
  | x :: t => let (a, b) := split_last t in (x :: a, b)
  end.

Definition with_life (r : drec) (st : dstatus) (op pe : bool) (vend res : Z) (ex : bool) : drec :=
  DR (r_id r) st op pe (r_round r) (r_start r) (r_end r) (r_fee_total r) (r_slash r) (r_burn r) (r_dfee r) (r_prev r)
     (r_has_vote r) (r_vote_start r) vend res ex.

(* the record SetNewDispute / AddFeeToDispute leave when the fee is complete: voting starts at once *)
Definition rec_voting (id round start now fee_total slash burn : Z) (prev : list Z) (pe : bool) : drec :=
  DR id Voting true pe round start (now + THREE_DAYS) fee_total slash burn (slash - pct5 slash) prev
     true now (now + TWO_DAYS) 0 false.

(* new transitions (id, from, to) of one event *)
Fixpoint transitions (P N : list drec) : list (Z * Z * Z) :=
  match P, N with
  | p :: P', n :: N' =>
      (if dstatus_eqb (r_status p) (r_status n) then [] else [(r_id p, status_code (r_status p), status_code (r_status n))])
      ++ transitions P' N'
  | _, _ => []
  end.
Definition tr_eqb (a b : Z * Z * Z) : bool :=
  (fst (fst a) =? fst (fst b)) && (snd (fst a) =? snd (fst b)) && (snd a =? snd b).
Definition fresh_transitions (log new : list (Z * Z * Z)) : bool :=
  forallb (fun t => negb (existsb (tr_eqb t) log)) new.

(* ---- one event, accepted ---- *)
Definition propose_spec (now : Z) (prev : list drec) (lin : list (Z * Z)) (report slash fee ch : Z) (N : list drec) : issues :=
  let '(P', last) := split_last N in
  match last with
  | None => [Spec "propose: accepted but no dispute record was created"]
  | Some n =>
    let id := zlen prev + 1 in
    spec_if (MIN_FEE <=? fee) "propose: a fee below the minimum was accepted"
    ++ spec_if (r_id n =? id) "fresh-id: the new dispute does not take the id previous maximum + 1"
    ++ match alookup report lin with
       | None =>
           let paid := Z.min fee slash in
           spec_if (recs_eqb prev P') "propose: a new dispute changed an existing record"
           ++ spec_if (ch =? paid) "propose: the payer of a new dispute was not charged min(fee, dispute fee)"
           ++ spec_if (drec_eqb n (if paid =? slash
                                  then rec_voting id 1 now now slash slash (pct5 slash) [id] false
                                  else DR id Prevote true false 1 now (now + ONE_DAY) paid slash (pct5 slash)
                                          (slash - pct5 slash) [id] false 0 0 0 false))
                      "propose: record of the new dispute (prevote with one day to complete the fee, or voting at once)"
       | Some k =>
           match rnth prev k with
           | None => [Spec "new-round: the lineage's last dispute is missing"]
           | Some p =>
             let rf := rfee (r_slash p) (r_round p) in
             spec_if (dstatus_eqb (r_status p) Unresolved && r_open p && (now <=? r_end p))
                     "new-round: a round was opened on a dispute that is not unresolved and open before its end time"
             ++ spec_if (rf <=? fee) "new-round: a fee below the round fee was accepted"
             ++ spec_if (ch =? rf)
                        "round-fee: the payer was not charged min(5% of the slash amount * 2^(rounds so far), slash amount)"
             ++ spec_if (recs_eqb (rupd prev k (with_life p (r_status p) false false (r_vote_end p) (r_result p) (r_executed p))) P')
                        "new-round: the previous round was not closed (open and pending execution cleared) or another record changed"
             ++ spec_if (drec_eqb n (rec_voting id (r_round p + 1) now now (r_fee_total p + rf) (r_slash p) (r_burn p + rf)
                                               (r_prev p ++ [id]) (r_pending n)))
                        "new-round: record of the new round (voting, round + 1, fee total and burn amount + round fee, previous ids + new id)"
           end
       end
  end.

Definition addfee_spec (now : Z) (prev : list drec) (id amt ch : Z) (N : list drec) : issues :=
  match rnth prev id, rnth N id with
  | Some p, Some n =>
      let c := Z.min amt (r_slash p - r_fee_total p) in
      spec_if (dstatus_eqb (r_status p) Prevote && (now <=? r_end p) && (1 <=? amt))
              "add-fee: a fee was accepted for a dispute that is not in prevote before its end time"
      ++ spec_if (ch =? c) "add-fee: the payer was not charged min(amount, missing fee)"
      ++ spec_if (recs_eqb (rupd prev id n) N) "add-fee: another record changed"
      ++ spec_if (drec_eqb n (if r_fee_total p + c =? r_slash p
                             then rec_voting id (r_round p) (r_start p) now (r_slash p) (r_slash p) (r_burn p) (r_prev p) (r_pending p)
                             else DR id (r_status p) (r_open p) (r_pending p) (r_round p) (r_start p) (r_end p) (r_fee_total p + c)
                                     (r_slash p) (r_burn p) (r_dfee p) (r_prev p) (r_has_vote p) (r_vote_start p) (r_vote_end p)
                                     (r_result p) (r_executed p)))
                 "add-fee: record after the payment (fee total + charge; voting at once when complete)"
  | _, _ => [Spec "add-fee: a fee was accepted for an unknown dispute id"]
  end.

Definition vote_life_spec (now : Z) (prev : list drec) (id : Z) (eligible : bool) (ch : Z) (N : list drec) : issues :=
  match rnth prev id, rnth N id with
  | Some p, Some n =>
      spec_if (eligible && dstatus_eqb (r_status p) Voting && (now <=? r_vote_end p))
              "vote: a vote was accepted outside voting (status, vote end) or from an address that had voted"
      ++ spec_if (ch =? 0) "vote: the voter was charged"
      ++ spec_if (recs_eqb (rupd prev id n) N) "vote: another record changed"
      ++ spec_if (drec_eqb n p
                  || ((1 <=? r_result n) && (r_result n <=? 3)
                      && drec_eqb n (with_life p Resolved false true now (r_result n) false)))
                 "vote: a vote changed the dispute other than by resolving it with quorum"
  | _, _ => [Spec "vote: a vote was accepted for an unknown dispute id"]
  end.

(* dispute.BeginBlocker at time [now] for one record: expiry, tally, execution *)
Definition block_rec_ok (now : Z) (p n : drec) : bool :=
  match r_status p with
  | Prevote =>
      if r_end p <? now then drec_eqb n (with_life p Failed false (r_pending p) (r_vote_end p) (r_result p) (r_executed p))
      else drec_eqb n p
  | Voting =>
      if r_vote_end p <? now then
        (1 <=? r_result n) && (r_result n <=? 6) &&
        (if (r_result n <=? 3) || (r_end p <? now)
         then drec_eqb n (with_life p Resolved false false now (r_result n) true)
         else drec_eqb n (with_life p Unresolved (r_open p) true now (r_result n) false))
      else drec_eqb n p
  | Unresolved =>
      if r_pending p && (r_end p <? now)
      then drec_eqb n (with_life p Resolved (r_open p) false (r_vote_end p) (r_result p) true)
      else drec_eqb n p
  | Resolved =>
      if r_pending p then drec_eqb n (with_life p Resolved (r_open p) false (r_vote_end p) (r_result p) true)
      else drec_eqb n p
  | Failed => drec_eqb n p
  end.
Fixpoint block_recs_ok (now : Z) (P N : list drec) : bool :=
  match P, N with
  | [], [] => true
  | p :: P', n :: N' => block_rec_ok now p n && block_recs_ok now P' N'
  | _, _ => false
  end.

(* would the event have to be accepted (the payers of the driver are solvent, its reports real) *)
Definition must_accept (now : Z) (prev : list drec) (lin : list (Z * Z)) (e : levent) : bool :=
  match e with
  | LPropose report slash fee =>
      (MIN_FEE <=? fee) &&
      match alookup report lin with
      | None => 1 <=? slash
      | Some k => match rnth prev k with
                  | Some p => dstatus_eqb (r_status p) Unresolved && r_open p && (now <=? r_end p)
                              && (rfee (r_slash p) (r_round p) <=? fee)
                  | None => false end
      end
  | LAddFee id amt =>
      match rnth prev id with
      | Some p => dstatus_eqb (r_status p) Prevote && (now <=? r_end p) && (1 <=? amt)
      | None => false end
  | LVote id eligible _ =>
      match rnth prev id with
      | Some p => eligible && dstatus_eqb (r_status p) Voting && (now <=? r_vote_end p)
      | None => false end
  | LBlock _ _ => true
  end.

Definition lin_next (prev : list drec) (lin : list (Z * Z)) (s : lstep) : list (Z * Z) :=
  match ls_ev s with
  | LPropose report _ _ =>
      if (ls_res s =? 0) && (zlen prev <? zlen (ls_recs s)) then aset report (zlen (ls_recs s)) lin else lin
  | _ => lin
  end.

Definition step_spec (now : Z) (prev : list drec) (lin : list (Z * Z)) (log : list (Z * Z * Z)) (s : lstep) : issues :=
  let N := ls_recs s in let ch := ls_charged s in
  let now' := match ls_ev s with LBlock dt _ => now + dt | _ => now end in
  spec_if (ids_from 1 N) "fresh-id: the stored disputes are not numbered 1..n"
  ++ spec_if (steps_ok prev N)
             "transition: a dispute moved against prevote -> voting -> unresolved -> resolved | prevote -> failed, its rank decreased, or a fixed field changed"
  ++ spec_if (fresh_transitions log (transitions prev N)) "transition: the same transition happened twice for one dispute id"
  ++ spec_if (forallb rec_amounts_ok N)
             "amounts: slash amount, dispute fee, burn amount (5% + the round fees so far) or fee total of a record"
  ++ spec_if (forallb rec_flags_ok N) "flags: status, open, pending execution, vote result and executed of a record disagree"
  ++ spec_if (forallb (rec_times_ok now') N)
             "times: start / end / vote end of a record, or a dispute past its deadline that was not expired, tallied or executed"
  ++ (if ls_res s =? 1 then
        spec_if (recs_eqb prev N && (ch =? 0)) "rejected: a rejected event changed a record or charged the payer"
        ++ spec_if (negb (must_accept now prev lin (ls_ev s))) "rejected: an event that meets every condition was rejected"
      else match ls_ev s with
      | LPropose report slash fee => propose_spec now prev lin report slash fee ch N
      | LAddFee id amt => addfee_spec now prev id amt ch N
      | LVote id eligible _ => vote_life_spec now prev id eligible ch N
      | LBlock dt _ =>
          spec_if (0 <=? dt) "block: time went backwards"
          ++ spec_if (ch =? 0) "block: a payer was charged"
          ++ spec_if (block_recs_ok now' prev N)
                     "block: BeginBlocker did not fail expired prevotes / tally ended votes / execute pending disputes exactly"
      end).

Fixpoint life_spec (now : Z) (prev : list drec) (lin : list (Z * Z)) (log : list (Z * Z * Z)) (steps : list lstep) : issues :=
  match steps with
  | [] => []
  | s :: rest =>
      if ls_res s =? 3 then
        (* the execution of a vote failed inside BeginBlocker: the block is discarded and the chain halts;
           payouts are the subject of C13 (F22) *)
        spec_if (recs_eqb prev (ls_recs s) && match ls_ev s with LBlock _ _ => true | _ => false end)
                "halt: records changed although the block failed"
      else if ls_res s =? 2 then [Spec "halt: BeginBlocker failed while expiring or tallying disputes"]
      else
        match step_spec now prev lin log s with
        | [] =>
            let now' := match ls_ev s with LBlock dt _ => now + dt | _ => now end in
            life_spec now' (ls_recs s) (lin_next prev lin s) (transitions prev (ls_recs s) ++ log) rest
        | iss => iss
        end
  end.

(* ---- the lifecycle machine on the same events ---- *)
Definition idx (id : Z) : option nat := if id <? 1 then None else Some (Z.to_nat (id - 1)).

Definition refresh (env : list (Z * tally_data)) (ds : list dispute) : list dispute :=
  fold_left (fun ds kv => match idx (fst kv) with
                          | Some i => match nth_error ds i with
                                      | Some d => upd_nth i (set_votes d (snd kv)) ds
                                      | None => ds end
                          | None => ds end) env ds.

Definition ft_at (w : world) (i : nat) : Z := match nth_error (w_ds w) i with Some d => d_fee_total d | None => 0 end.
Definition grew (w w' : world) : bool := Nat.ltb (List.length (w_ds w)) (List.length (w_ds w')).
Definition last_ft (w : world) : Z := ft_at w (Nat.pred (List.length (w_ds w))).

(* Some (world, lineage map report -> last id, amount charged); None = BeginBlocker fails *)
Definition life_model_step (fx : bool) (w : world) (lin : list (Z * Z)) (e : levent) : option (world * list (Z * Z) * Z) :=
  match e with
  | LPropose report slash fee =>
      if fee <? MIN_FEE then Some (w, lin, 0) else
      match alookup report lin with
      | None =>
          match step fx w (EPropose slash fee) with
          | Some w' => if grew w w' then Some (w', aset report (zlen (w_ds w')) lin, last_ft w') else Some (w', lin, 0)
          | None => None end
      | Some k =>
          match idx k with
          | None => Some (w, lin, 0)
          | Some i =>
            match step fx w (ENewRound i fee) with
            | Some w' => if grew w w' then Some (w', aset report (zlen (w_ds w')) lin, last_ft w' - ft_at w i) else Some (w', lin, 0)
            | None => None end
          end
      end
  | LAddFee id amt =>
      match idx id with
      | None => Some (w, lin, 0)
      | Some i => match step fx w (EAddFee i amt) with Some w' => Some (w', lin, ft_at w' i - ft_at w i) | None => None end
      end
  | LVote id eligible v =>
      if negb eligible then Some (w, lin, 0) else
      match idx id with
      | None => Some (w, lin, 0)
      | Some i => match step fx w (EVote i v) with Some w' => Some (w', lin, 0) | None => None end
      end
  | LBlock dt env =>
      match step fx (W (w_now w) (refresh env (w_ds w))) (EBlock dt) with Some w' => Some (w', lin, 0) | None => None end
  end.

Definition dmatch (d : dispute) (r : drec) : bool :=
  dstatus_eqb (d_status d) (r_status r) && Bool.eqb (d_open d) (r_open r) && Bool.eqb (d_pending d) (r_pending r)
  && (d_round d =? r_round r) && (d_end d =? r_end r) && (d_fee_total d =? r_fee_total r) && (d_slash d =? r_slash r)
  && (d_burn d =? r_burn r) && Bool.eqb (d_has_vote d) (r_has_vote r)
  && (if d_has_vote d then d_vote_end d =? r_vote_end r else true)
  && (d_result d =? r_result r) && Bool.eqb (d_executed d) (r_executed r).

Fixpoint ds_match (ds : list dispute) (rs : list drec) : bool :=
  match ds, rs with
  | [], [] => true
  | d :: ds', r :: rs' => dmatch d r && ds_match ds' rs'
  | _, _ => false
  end.

Fixpoint life_diff (fx : bool) (w : world) (lin : list (Z * Z)) (steps : list lstep) : issues :=
  match steps with
  | [] => []
  | s :: rest =>
      if 2 <=? ls_res s then [] else
      match life_model_step fx w lin (ls_ev s) with
      | None => [Diff "lifecycle: BeginBlocker fails in the model"]
      | Some (w', lin', ch) =>
          match diff_if (ds_match (w_ds w') (ls_recs s)) "lifecycle records"
                ++ diff_if (ch =? ls_charged s) "charged fee" with
          | [] => life_diff fx w' lin' rest
          | iss => iss
          end
      end
  end.

Inductive c12_case :=
| TallyCase (x : tally_in) (impl : tally_out)
| RatioCase (total part impl : Z)
(* a sequence of MsgVote on one dispute round: environment, initial vote end, operations, whether
   every keeper lookup used the dispute's block, the implementation's answers and final records *)
| VoteCase (env : round_env) (vend : Z) (ops : list vote_op) (block_ok : bool)
           (impl_res : list vote_res) (impl : round_state)
(* a history of lifecycle events on the real application, from block time t0 and an empty dispute store
   (records delta-encoded, see [expand]) *)
| LifeCase (t0 : Z) (steps : list lstep).

Definition ratio_spec (total part impl : Z) : issues :=
  if total =? 0 then spec_if (impl =? 0) "ratio: zero total must give 0"
  else if (0 <? total) && (0 <=? part) then
    let fl := (25 * PR * part) / total in
    if total <? 20000000000000000
    then spec_if (impl =? fl) "ratio: not floor(25*10^6*part/total)"
    else spec_if ((fl <=? impl) && (impl <=? fl + 1)) "ratio: not within one unit of 25*10^6*part/total"
  else [].

Definition c12_check (c : c12_case) : issues :=
  match c with
  | TallyCase x impl =>
      tally_spec x impl ++ diff_if (out_eqb (tally_vote repo_fix_F03 x) impl) "tally outcome"
  | RatioCase total part impl =>
      ratio_spec total part impl ++ diff_if (ratio total part =? impl) "ratio"
  | VoteCase env vend ops block_ok impl_res impl =>
      vote_spec env vend ops block_ok impl_res impl
      ++ (let '(rs, st) := vote_run repo_fix_F03 env (round_start vend) ops in
          diff_if (list_eqb res_eqb rs impl_res) "vote results"
          ++ diff_if (state_eqb st impl) "vote records")
  | LifeCase t0 steps =>
      let full := expand [] steps in
      life_spec t0 [] [] [] full ++ life_diff repo_fix_F03 (W t0 []) [] full
  end.

(* signature predicates of the known findings:
   F03 — no choice strictly ahead at the code's resolution: the code as found returns "no majority";
   F24 — team + users + reporters reach quorum while token holders have voted: their votes
         are not part of the result *)
Definition class_F03 (x : tally_in) : bool := err_eqb (to_err (tally_vote false x)) TNoMajority.
Definition class_F24 (x : tally_in) : bool :=
  (ti_prev x =? 0) && first_quorum x && negb (csum (ti_holders x) =? 0).

Definition tally_classes (x : tally_in) : list string :=
  (if class_F03 x then ["F03"%string] else []) ++ (if class_F24 x then ["F24"%string] else []).

(* only cases on which the specification fails are classified (the judge looks at nothing
   else, and the signature predicates re-run the tally) *)
Definition c12_classes (c : c12_case) : list string :=
  match c with
  | TallyCase x impl => match tally_spec x impl with [] => [] | _ => tally_classes x end
  | RatioCase _ _ _ => []
  | VoteCase _ _ _ _ impl_res _ => if existsb (res_eqb VTallyError) impl_res then ["F03"%string] else []
  | LifeCase _ _ => []
  end.
