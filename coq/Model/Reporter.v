(* C10 — model of the reporter module's selection / stake-counting logic:

     x/reporter/keeper/reporter.go   HasMin, CheckSelectorsDelegations, ReporterStake (both
                                     iteration strategies, lock filter, jail check, snapshot)
     x/reporter/keeper/msg_server.go CreateReporter, SelectReporter, SwitchReporter,
                                     RemoveSelector, UnjailReporter
     x/reporter/keeper/hooks.go      BeforeDelegationCreated / BeforeDelegationRemoved
                                     (DelegationsCount, uint64, decrement written with its wrap)
     x/reporter/keeper/jail.go       JailReporter, UnjailReporter
     x/reporter/keeper/indexes.go    reporter -> selectors multi index (= filter of the table,
                                     iterated in selector-address order), reporter/block index
                                     (latest snapshot at or below a height)
     x/oracle/keeper/msg_server_submit_value.go   stake >= MinStakeAmount, power = stake / 10^6

   The staking module is the ENVIRONMENT: a [sview] is what the reporter module can read from
   it (validators with status / jailed / tokens / delegator shares, delegations with shares, the
   iteration order of the validator power index, MaxValidators, UnbondingTime).  Staking
   messages, slashing and the validator-set update of the staking EndBlocker are the single
   operation [OEnv v'] "the staking state is now v'"; the two reporter hooks are applied to the
   difference of the delegation sets.

   Addresses are numbered in ascending byte order (accounts; a validator has the number of its
   operator account), so that collection iteration order = ascending number.
   Times are unix nanoseconds; the zero time.Time is written 0.  Amounts are math.Int => Z;
   shares are LegacyDec => Z scaled by 10^18 (Base/Dec.v).

   Variant flag [fx] (DESIGN 2.3): [false] = the code as it is: the by-power strategy values a
   delegation with TokensFromSharesTruncated, every other place with
   TokensFromShares(..).TruncateInt(); [true] = both strategies use the latter (finding F43). *)
From Coq Require Import ZArith List Bool String.
From Verif Require Import Base.Harness Base.Dec.
Import ListNotations.
Open Scope Z_scope.

(* ---------------------------------------------------------------------------------------- *)
(* staking view                                                                               *)
(* ---------------------------------------------------------------------------------------- *)
Record validator := mkVal { v_id : Z; v_status : Z; v_jailed : bool; v_tokens : Z; v_shares : Z }.
Record delegation := mkDel { d_del : Z; d_val : Z; d_shares : Z }.
Record sview := mkView {
  sv_vals : list validator;        (* all validators *)
  sv_dels : list delegation;       (* all delegations of the tracked accounts, in store order *)
  sv_power : list Z;               (* validator numbers in power-index iteration order *)
  sv_maxvals : Z;                  (* staking MaxValidators *)
  sv_unbond : Z }.                 (* staking UnbondingTime, ns *)

Definition BONDED : Z := 3.
Definition bonded (v : validator) : bool := v_status v =? BONDED.

Fixpoint find_val (vs : list validator) (id : Z) : option validator :=
  match vs with
  | [] => None
  | v :: r => if v_id v =? id then Some v else find_val r id
  end.

Definition dels_of (ds : list delegation) (a : Z) : list delegation :=
  filter (fun d => d_del d =? a) ds.

Fixpoint find_del (ds : list delegation) (a v : Z) : option Z :=
  match ds with
  | [] => None
  | d :: r => if (d_del d =? a) && (d_val d =? v) then Some (d_shares d) else find_del r a v
  end.

(* Validator.TokensFromShares(s).TruncateInt()  and  TokensFromSharesTruncated(s).TruncateInt() *)
Definition val_round (v : validator) (sh : Z) : Z := truncate_int (dec_quo (sh * v_tokens v) (v_shares v)).
Definition val_trunc (v : validator) (sh : Z) : Z := truncate_int (dec_quo_trunc (sh * v_tokens v) (v_shares v)).

Fixpoint zsum (l : list Z) : Z := match l with [] => 0 | x :: r => x + zsum r end.

(* value of one delegation if its validator is bonded (the module's convention) *)
Definition bonded_value (vw : sview) (d : delegation) : Z :=
  match find_val (sv_vals vw) (d_val d) with
  | Some v => if bonded v then val_round v (d_shares d) else 0
  | None => 0
  end.

(* CheckSelectorsDelegations: (bonded tokens, number of delegations) *)
Definition bonded_tokens (vw : sview) (a : Z) : Z := zsum (map (bonded_value vw) (dels_of (sv_dels vw) a)).
Definition del_count (vw : sview) (a : Z) : Z := Z.of_nat (List.length (dels_of (sv_dels vw) a)).

(* HasMin, with its short circuit *)
Fixpoint has_min_loop (vw : sview) (minr acc : Z) (ds : list delegation) : bool :=
  match ds with
  | [] => minr <=? acc
  | d :: r =>
    match find_val (sv_vals vw) (d_val d) with
    | None => false
    | Some v =>
      if bonded v then
        let acc' := acc + val_round v (d_shares d) in
        if minr <=? acc' then true else has_min_loop vw minr acc' r
      else has_min_loop vw minr acc r
    end
  end.
Definition has_min (vw : sview) (a minr : Z) : bool := has_min_loop vw minr 0 (dels_of (sv_dels vw) a).

(* IterateBondedValidatorsByPower: bonded validators in index order, at most MaxValidators *)
Fixpoint bonded_by_power (vs : list validator) (order : list Z) (room : nat) : list validator :=
  match order, room with
  | [], _ => []
  | _, O => []
  | id :: rest, S room' =>
    match find_val vs id with
    | None => bonded_by_power vs rest room
    | Some v => if bonded v then v :: bonded_by_power vs rest room' else bonded_by_power vs rest room
    end
  end.

(* ---------------------------------------------------------------------------------------- *)
(* reporter module state                                                                       *)
(* ---------------------------------------------------------------------------------------- *)
Record selection := mkSel { s_addr : Z; s_reporter : Z; s_count : Z; s_locked : Z }.
Record reporter := mkRep { r_addr : Z; r_min : Z; r_jailed : bool; r_until : Z }.
Record snap := mkSnap { sn_q : Z; sn_r : Z; sn_h : Z; sn_total : Z }.
Record params := mkPar { p_min_trb : Z; p_max_sel : Z; p_min_stake : Z }.

Definition origin := (Z * Z * Z)%type.            (* selector, validator, amount *)
Definition o_amount (o : origin) : Z := snd o.
Definition o_sel (o : origin) : Z := fst (fst o).
Definition o_val (o : origin) : Z := snd (fst o).

Record state := mkState {
  st_sel : list selection;          (* ascending s_addr *)
  st_rep : list reporter;           (* ascending r_addr *)
  st_snaps : list snap;
  st_par : params;
  st_view : sview;
  st_height : Z;
  st_now : Z }.

Fixpoint sel_get (l : list selection) (a : Z) : option selection :=
  match l with [] => None | s :: r => if s_addr s =? a then Some s else sel_get r a end.
Fixpoint sel_set (l : list selection) (n : selection) : list selection :=
  match l with
  | [] => [n]
  | s :: r => if s_addr s =? s_addr n then n :: r
              else if s_addr n <? s_addr s then n :: s :: r else s :: sel_set r n
  end.
Definition sel_remove (l : list selection) (a : Z) : list selection :=
  filter (fun s => negb (s_addr s =? a)) l.
Definition selectors_of (l : list selection) (r : Z) : list selection :=
  filter (fun s => s_reporter s =? r) l.
Definition sel_count (l : list selection) (r : Z) : Z := Z.of_nat (List.length (selectors_of l r)).

Fixpoint rep_get (l : list reporter) (a : Z) : option reporter :=
  match l with [] => None | s :: r => if r_addr s =? a then Some s else rep_get r a end.
Fixpoint rep_set (l : list reporter) (n : reporter) : list reporter :=
  match l with
  | [] => [n]
  | s :: r => if r_addr s =? r_addr n then n :: r
              else if r_addr n <? r_addr s then n :: s :: r else s :: rep_set r n
  end.

(* Report.Set under the key (query, reporter, height) *)
Definition snap_same (a b : snap) : bool := (sn_q a =? sn_q b) && (sn_r a =? sn_r b) && (sn_h a =? sn_h b).
Definition snap_set (l : list snap) (n : snap) : list snap := n :: filter (fun s => negb (snap_same s n)) l.

(* GetReporterTokensAtBlock: the last entry of the reporter/block index at or below the height
   (descending (height, query id)); zero when there is none *)
Definition snap_later (a b : snap) : bool :=
  (sn_h b <? sn_h a) || ((sn_h a =? sn_h b) && (sn_q b <? sn_q a)).
Fixpoint latest_snap (l : list snap) (r h : Z) (best : option snap) : option snap :=
  match l with
  | [] => best
  | s :: rest =>
    if (sn_r s =? r) && (sn_h s <=? h)
    then latest_snap rest r h (match best with
                               | None => Some s
                               | Some b => if snap_later s b then Some s else Some b end)
    else latest_snap rest r h best
  end.
Definition tokens_at_block (l : list snap) (r h : Z) : Z :=
  match latest_snap l r h None with Some s => sn_total s | None => 0 end.

(* ---------------------------------------------------------------------------------------- *)
(* ReporterStake                                                                              *)
(* ---------------------------------------------------------------------------------------- *)
Definition origins_B (vw : sview) (s : Z) : list origin :=
  flat_map (fun d => match find_val (sv_vals vw) (d_val d) with
                     | Some v => if bonded v then [(s, d_val d, val_round v (d_shares d))] else []
                     | None => []
                     end) (dels_of (sv_dels vw) s).

Definition origins_A (fx : bool) (vw : sview) (s : Z) : list origin :=
  flat_map (fun v => match find_del (sv_dels vw) s (v_id v) with
                     | Some sh => [(s, v_id v, if fx then val_round v sh else val_trunc v sh)]
                     | None => []
                     end) (bonded_by_power (sv_vals vw) (sv_power vw) (Z.to_nat (sv_maxvals vw))).

Definition by_power (vw : sview) (s : selection) : bool := sv_maxvals vw <? s_count s.

Definition selector_origins (fx : bool) (vw : sview) (s : selection) : list origin :=
  if by_power vw s then origins_A fx vw (s_addr s) else origins_B vw (s_addr s).

Definition unlocked (now : Z) (s : selection) : bool := negb (now <? s_locked s).

Definition stake_origins (fx : bool) (vw : sview) (now : Z) (sels : list selection) (r : Z) : list origin :=
  flat_map (fun s => if (s_reporter s =? r) && unlocked now s then selector_origins fx vw s else []) sels.

Definition total_of (os : list origin) : Z := zsum (map o_amount os).

(* ---------------------------------------------------------------------------------------- *)
(* operations                                                                                 *)
(* ---------------------------------------------------------------------------------------- *)
Inductive op :=
| OCreate (a minreq : Z) (comm_ok : bool)
| OSelect (a r : Z)
| OSwitch (a r : Z)
| ORemove (a : Z)
| OJail (r dur : Z)
| OUnjail (r : Z)
| OReport (r q : Z)
| OEnv (v : sview)
| OParams (p : params)
| OBlock (h now : Z).

Record result := mkRes { rs_code : Z; rs_total : Z; rs_power : Z; rs_origins : list origin }.
Definition res_code (c : Z) : result := mkRes c 0 0 [].

(* result codes *)
Definition OK := 0.
Definition E_CREATE_MIN := 1.       (* address does not have min tokens required ... *)
Definition E_CREATE_CHOSEN := 2.    (* reporters chosen min to join must be gte the min requirement *)
Definition E_EXISTS := 3.           (* address already exists *)
Definition E_COMMISSION := 4.
Definition E_SEL_EXISTS := 5.       (* selector already exists *)
Definition E_NO_REPORTER := 6.      (* collections: not found (Reporters) *)
Definition E_CAP := 7.              (* reporter has reached max selectors *)
Definition E_MIN := 8.              (* reporter's min requirement not met by selector *)
Definition E_NO_SELECTOR := 9.      (* collections: not found (Selectors) *)
Definition E_SELF := 10.            (* cannot switch reporter if selector is a reporter *)
Definition E_HAS_MIN := 11.         (* selector can't be removed if reporter's min requirement is met *)
Definition E_NOT_CAPPED := 12.      (* selector can only be removed if reporter has reached max selectors ... *)
Definition E_NOT_JAILED := 13.
Definition E_JAIL_TIME := 14.       (* cannot unjail reporter before jail time is up *)
Definition E_ALREADY_JAILED := 15.
Definition E_JAILED := 16.          (* reporter is in jail *)
Definition E_STAKE := 17.           (* not enough stake *)

Definition two64 : Z := 18446744073709551616.
Definition two63 : Z := 9223372036854775808.
Definition wrap_u64 (x : Z) : Z := x mod two64.
Definition wrap_i64 (x : Z) : Z := (x + two63) mod two64 - two63.
(* time.Second * time.Duration(jailDuration) *)
Definition jail_ns (dur : Z) : Z := wrap_i64 (1000000000 * dur).
Definition POWER_REDUCTION : Z := 1000000.

Definition set_sel (st : state) (l : list selection) : state :=
  mkState l (st_rep st) (st_snaps st) (st_par st) (st_view st) (st_height st) (st_now st).
Definition set_rep (st : state) (l : list reporter) : state :=
  mkState (st_sel st) l (st_snaps st) (st_par st) (st_view st) (st_height st) (st_now st).
Definition set_snaps (st : state) (l : list snap) : state :=
  mkState (st_sel st) (st_rep st) l (st_par st) (st_view st) (st_height st) (st_now st).

(* the two staking hooks applied to the difference of the delegation sets *)
Definition created (old new : list delegation) (a : Z) : Z :=
  Z.of_nat (List.length (filter (fun d => match find_del old a (d_val d) with None => true | Some _ => false end) (dels_of new a))).
Definition hook_count (old new : list delegation) (s : selection) : selection :=
  mkSel (s_addr s) (s_reporter s)
        (wrap_u64 (s_count s + created old new (s_addr s) - created new old (s_addr s))) (s_locked s).

Definition step (fx : bool) (st : state) (o : op) : state * result :=
  let vw := st_view st in
  let par := st_par st in
  match o with
  | OCreate a minreq comm_ok =>
      if bonded_tokens vw a <? p_min_trb par then (st, res_code E_CREATE_MIN)
      else if minreq <? p_min_trb par then (st, res_code E_CREATE_CHOSEN)
      else match sel_get (st_sel st) a with
           | Some _ => (st, res_code E_EXISTS)
           | None =>
             if negb comm_ok then (st, res_code E_COMMISSION)
             else (set_sel (set_rep st (rep_set (st_rep st) (mkRep a minreq false 0)))
                           (sel_set (st_sel st) (mkSel a a (del_count vw a) 0)), res_code OK)
           end
  | OSelect a r =>
      match sel_get (st_sel st) a with
      | Some _ => (st, res_code E_SEL_EXISTS)
      | None =>
        match rep_get (st_rep st) r with
        | None => (st, res_code E_NO_REPORTER)
        | Some rp =>
          if p_max_sel par <=? sel_count (st_sel st) r then (st, res_code E_CAP)
          else if bonded_tokens vw a <? r_min rp then (st, res_code E_MIN)
          else (set_sel st (sel_set (st_sel st) (mkSel a r (del_count vw a) 0)), res_code OK)
        end
      end
  | OSwitch a r =>
      match sel_get (st_sel st) a with
      | None => (st, res_code E_NO_SELECTOR)
      | Some s =>
        if s_reporter s =? a then (st, res_code E_SELF)
        else match rep_get (st_rep st) r with
        | None => (st, res_code E_NO_REPORTER)
        | Some rp =>
          if p_max_sel par <=? sel_count (st_sel st) r then (st, res_code E_CAP)
          else if negb (has_min vw a (r_min rp)) then (st, res_code E_MIN)
          else
            let lock := if tokens_at_block (st_snaps st) (s_reporter s) (st_height st) =? 0
                        then s_locked s else st_now st + sv_unbond vw in
            (set_sel st (sel_set (st_sel st) (mkSel a r (s_count s) lock)), res_code OK)
        end
      end
  | ORemove a =>
      match sel_get (st_sel st) a with
      | None => (st, res_code E_NO_SELECTOR)
      | Some s =>
        match rep_get (st_rep st) (s_reporter s) with
        | None => (st, res_code E_NO_REPORTER)
        | Some rp =>
          if has_min vw a (r_min rp) then (st, res_code E_HAS_MIN)
          else if sel_count (st_sel st) (s_reporter s) <=? p_max_sel par then (st, res_code E_NOT_CAPPED)
          else (set_sel st (sel_remove (st_sel st) a), res_code OK)
        end
      end
  | OJail r dur =>
      match rep_get (st_rep st) r with
      | None => (st, res_code E_NO_REPORTER)
      | Some rp =>
        if r_jailed rp then (st, res_code E_ALREADY_JAILED)
        else (set_rep st (rep_set (st_rep st) (mkRep r (r_min rp) true (st_now st + jail_ns dur))), res_code OK)
      end
  | OUnjail r =>
      match rep_get (st_rep st) r with
      | None => (st, res_code E_NO_REPORTER)
      | Some rp =>
        if negb (r_jailed rp) then (st, res_code E_NOT_JAILED)
        else if st_now st <? r_until rp then (st, res_code E_JAIL_TIME)
        else (set_rep st (rep_set (st_rep st) (mkRep r (r_min rp) false (r_until rp))), res_code OK)
      end
  | OReport r q =>
      match rep_get (st_rep st) r with
      | None => (st, res_code E_NO_REPORTER)
      | Some rp =>
        if r_jailed rp then (st, res_code E_JAILED)
        else
          let os := stake_origins fx vw (st_now st) (st_sel st) r in
          let total := total_of os in
          if total <? p_min_stake par then (st, res_code E_STAKE)     (* the transaction is rolled back *)
          else (set_snaps st (snap_set (st_snaps st) (mkSnap q r (st_height st) total)),
                mkRes OK total (wrap_u64 (Z.quot total POWER_REDUCTION)) os)
      end
  | OEnv v =>
      (mkState (map (hook_count (sv_dels vw) (sv_dels v)) (st_sel st)) (st_rep st) (st_snaps st) par v
               (st_height st) (st_now st), res_code OK)
  | OParams p =>
      (mkState (st_sel st) (st_rep st) (st_snaps st) p vw (st_height st) (st_now st), res_code OK)
  | OBlock h now =>
      (mkState (st_sel st) (st_rep st) (st_snaps st) par vw h now, res_code OK)
  end.

Definition run (fx : bool) (st : state) (ops : list op) : state :=
  fold_left (fun s o => fst (step fx s o)) ops st.

Definition empty_view : sview := mkView [] [] [] 0 0.
Definition init_state : state := mkState [] [] [] (mkPar 0 0 0) empty_view 0 0.

(* ---------------------------------------------------------------------------------------- *)
(* the property's executable specification (evaluated on the implementation's observations)  *)
(* ---------------------------------------------------------------------------------------- *)
(* the bonded whole-loya stake behind reporter r at time now: every unlocked selector of r,
   every delegation of it to a validator with status bonded, valued once *)
Definition spec_origins (vw : sview) (now : Z) (sels : list selection) (r : Z) : list origin :=
  flat_map (fun s => if (s_reporter s =? r) && unlocked now s then origins_B vw (s_addr s) else []) sels.
Definition spec_stake (vw : sview) (now : Z) (sels : list selection) (r : Z) : Z :=
  total_of (spec_origins vw now sels r).

Definition origin_leb (a b : origin) : bool :=
  (o_sel a <? o_sel b) || ((o_sel a =? o_sel b) && (o_val a <=? o_val b)).
Fixpoint oinsert (x : origin) (l : list origin) : list origin :=
  match l with [] => [x] | y :: r => if origin_leb x y then x :: l else y :: oinsert x r end.
Definition osort (l : list origin) : list origin := fold_right oinsert [] l.
Definition origin_eqb (a b : origin) : bool :=
  (o_sel a =? o_sel b) && (o_val a =? o_val b) && (o_amount a =? o_amount b).

Definition sel_eqb (a b : selection) : bool :=
  (s_addr a =? s_addr b) && (s_reporter a =? s_reporter b) && (s_count a =? s_count b) && (s_locked a =? s_locked b).
Definition rep_eqb (a b : reporter) : bool :=
  (r_addr a =? r_addr b) && (r_min a =? r_min b) && Bool.eqb (r_jailed a) (r_jailed b) && (r_until a =? r_until b).

Fixpoint strictly_ascending (l : list Z) : bool :=
  match l with
  | x :: ((y :: _) as r) => (x <? y) && strictly_ascending r
  | _ => true
  end.

(* what the harness read back after an operation *)
Record obs := mkObs {
  ob_code : Z; ob_total : Z; ob_power : Z; ob_origins : list origin;
  ob_sel : list selection;                 (* Selectors, walked in key order *)
  ob_idx : list (Z * list Z);              (* per reporter: the selectors its index yields *)
  ob_rep : list reporter }.

(* ghost data the specification needs along a history *)
Record ghost := mkGhost {
  g_counted : list (Z * Z * Z);            (* selector, reporter, time: stake counted in a report *)
  g_reported : list Z;                     (* reporters with an accepted report *)
  g_removed : list Z;                      (* selectors removed by RemoveSelector *)
  g_lowered : bool }.                      (* MaxSelectors was lowered / below 1 *)

Definition mem (x : Z) (l : list Z) : bool := existsb (Z.eqb x) l.
Fixpoint dedup (l : list Z) : list Z :=
  match l with [] => [] | x :: r => if mem x r then dedup r else x :: dedup r end.

Definition idx_ok (sels : list selection) (reps : list reporter) (idx : list (Z * list Z)) : bool :=
  list_eqb Z.eqb (map fst idx) (map r_addr reps) &&
  forallb (fun p => list_eqb Z.eqb (snd p) (map s_addr (selectors_of sels (fst p)))) idx.

Definition counted_ok (unbond now r : Z) (log : list (Z * Z * Z)) (s : Z) : bool :=
  forallb (fun e => match e with (s', r', t') =>
                      negb (s' =? s) || (r' =? r) || (unbond <=? now - t') end) log.

Definition released_ok (o : op) (code now : Z) (before after : list reporter) : bool :=
  forallb (fun rb => negb (r_jailed rb) ||
             match rep_get after (r_addr rb) with
             | None => false
             | Some ra => r_jailed ra ||
                 (match o with OUnjail r => (r =? r_addr rb) && (code =? OK) && (r_until rb <=? now) | _ => false end)
             end) before.

(* Spec issues of one operation: [vw now par] context, [sels reps] the implementation's tables
   before the operation, [ob] what it answered and left behind *)
Definition spec_step (vw : sview) (now : Z) (par : params) (g : ghost)
           (sels : list selection) (reps : list reporter) (o : op) (ob : obs) : issues :=
  let ok := ob_code ob =? OK in
  spec_if (strictly_ascending (map s_addr (ob_sel ob)) && idx_ok (ob_sel ob) (ob_rep ob) (ob_idx ob))
          "unique: a selector is listed twice or the reporter index disagrees with the selector table"
  ++ spec_if (released_ok o (ob_code ob) now reps (ob_rep ob))
          "jail: a jailed reporter was released without an unjail at or after its jail time"
  ++ spec_if (g_lowered g || forallb (fun rp => sel_count (ob_sel ob) (r_addr rp) <=? p_max_sel par) (ob_rep ob))
          "cap: a reporter has more selectors than the cap although the cap was never lowered"
  ++ match o with
     | OReport r q =>
       if ok then
         spec_if (match rep_get reps r with Some rp => negb (r_jailed rp) | None => false end)
                 "jail: a jailed (or unknown) reporter reported"
         ++ spec_if (ob_total ob =? spec_stake vw now sels r)
                 "power: reported stake is not the bonded whole-loya value of the reporter's unlocked selectors"
         ++ spec_if (list_eqb origin_eqb (osort (ob_origins ob)) (osort (spec_origins vw now sels r)))
                 "power: token origins are not the bonded delegations of the reporter's unlocked selectors"
         ++ spec_if (total_of (ob_origins ob) =? ob_total ob)
                 "sum: token origins do not add up to the recorded stake"
         ++ spec_if (ob_power ob =? Z.quot (ob_total ob) POWER_REDUCTION)
                 "sum: report power is not stake / 10^6"
         ++ spec_if (p_min_stake par <=? ob_total ob)
                 "sum: report accepted below the minimum stake"
         ++ spec_if (forallb (counted_ok (sv_unbond vw) now r (g_counted g)) (dedup (map o_sel (ob_origins ob))))
                 "once: a selector's stake is counted for two reporters within the unbonding period"
       else if ob_code ob =? E_STAKE then
         spec_if (spec_stake vw now sels r <? p_min_stake par)
                 "power: report rejected as under-staked although the bonded whole-loya stake of the unlocked selectors reaches the minimum"
       else if ob_code ob =? E_JAILED then
         spec_if (match rep_get reps r with Some rp => r_jailed rp | None => false end)
                 "jail: report rejected as jailed although the reporter is not in jail"
       else []
     | OSelect a r =>
       if ok then
         spec_if (sel_count (ob_sel ob) r <=? p_max_sel par) "cap: join accepted beyond the selector cap"
         ++ spec_if (match rep_get reps r with Some rp => r_min rp <=? bonded_tokens vw a | None => false end)
                 "join: selector accepted below the reporter's minimum bonded amount"
         ++ spec_if (match sel_get sels a with None => true | Some _ => false end)
                 "unique: an address that already had a reporter selected another one"
       else []
     | OSwitch a r =>
       if ok then
         spec_if (sel_count (ob_sel ob) r <=? p_max_sel par) "cap: join accepted beyond the selector cap"
         ++ spec_if (match rep_get reps r with Some rp => r_min rp <=? bonded_tokens vw a | None => false end)
                 "join: selector accepted below the reporter's minimum bonded amount"
         ++ spec_if (match sel_get sels a, sel_get (ob_sel ob) a with
                     | Some s0, Some s1 =>
                         negb (mem (s_reporter s0) (g_reported g)) || (now + sv_unbond vw <=? s_locked s1)
                     | _, _ => false end)
                 "lock: a selector leaving a reporter that has reported is not locked for the unbonding period"
       else []
     | OCreate a minreq _ =>
       if ok then
         spec_if ((p_min_trb par <=? bonded_tokens vw a) && (p_min_trb par <=? minreq))
                 "join: reporter created below the minimum bonded amount"
         ++ spec_if (match sel_get sels a with None => true | Some _ => false end)
                 "unique: an address that already had a reporter became a reporter"
       else []
     | _ => []
     end.

Definition ghost_step (vw : sview) (now : Z) (g : ghost) (o : op) (ob : obs) : ghost :=
  let ok := ob_code ob =? OK in
  match o with
  | OReport r q =>
      if ok then mkGhost (map (fun s => (s, r, now)) (dedup (map o_sel (ob_origins ob))) ++ g_counted g)
                         (r :: g_reported g) (g_removed g) (g_lowered g)
      else g
  | ORemove a => if ok then mkGhost (g_counted g) (g_reported g) (a :: g_removed g) (g_lowered g) else g
  | _ => g
  end.

(* ---------------------------------------------------------------------------------------- *)
(* correspondence cases: one generated history on the real application                       *)
(* ---------------------------------------------------------------------------------------- *)
(* To keep the case terms small the harness writes a changed staking view as a difference to
   the previous one ([CEnv]) and the module's tables only when they changed ([co_tabs]). *)
Inductive cop :=
| COp (o : op)
| CEnv (vals : list validator) (gone_vals : list Z) (dels : list delegation) (gone_dels : list (Z * Z))
       (power : list Z) (maxvals unbond : Z).

Definition tables := (list selection * list (Z * list Z) * list reporter)%type.
Record cobs := mkCObs { co_code : Z; co_total : Z; co_power : Z; co_origins : list origin; co_tabs : option tables }.

Fixpoint val_insert (v : validator) (l : list validator) : list validator :=
  match l with
  | [] => [v]
  | x :: r => if v_id x =? v_id v then v :: r
              else if v_id v <? v_id x then v :: l else x :: val_insert v r
  end.
Definition del_same (a b : delegation) : bool := (d_del a =? d_del b) && (d_val a =? d_val b).
Definition del_before (a b : delegation) : bool :=
  (d_del a <? d_del b) || ((d_del a =? d_del b) && (d_val a <? d_val b)).
Fixpoint del_insert (d : delegation) (l : list delegation) : list delegation :=
  match l with
  | [] => [d]
  | x :: r => if del_same x d then d :: r
              else if del_before d x then d :: l else x :: del_insert d r
  end.
Definition apply_env (vw : sview) (vals : list validator) (gone_vals : list Z) (dels : list delegation)
           (gone_dels : list (Z * Z)) (power : list Z) (maxvals unbond : Z) : sview :=
  mkView (fold_left (fun l v => val_insert v l) vals
                    (filter (fun v => negb (mem (v_id v) gone_vals)) (sv_vals vw)))
         (fold_left (fun l d => del_insert d l) dels
                    (filter (fun d => negb (existsb (fun k => (fst k =? d_del d) && (snd k =? d_val d)) gone_dels)) (sv_dels vw)))
         power maxvals unbond.

Definition op_of (vw : sview) (c : cop) : op :=
  match c with
  | COp o => o
  | CEnv vals gv dels gd power maxvals unbond => OEnv (apply_env vw vals gv dels gd power maxvals unbond)
  end.

Definition obs_of (prev : tables) (c : cobs) : obs :=
  let t := match co_tabs c with Some t => t | None => prev end in
  mkObs (co_code c) (co_total c) (co_power c) (co_origins c) (fst (fst t)) (snd (fst t)) (snd t).

Inductive c10_case := Hist (steps : list (cop * cobs)).

Definition res_diff (m : result) (ob : obs) : issues :=
  diff_if (rs_code m =? ob_code ob) "result code"
  ++ diff_if (rs_total m =? ob_total ob) "stake"
  ++ diff_if (rs_power m =? ob_power ob) "power"
  ++ diff_if (list_eqb origin_eqb (rs_origins m) (ob_origins ob)) "token origins".

(* the variant is inferred from the implementation's answer: the code as it is ([fx = false]) unless
   only the repaired valuation ([fx = true], finding F43) reproduces the answer *)
Definition infer_fx (st : state) (o : op) (ob : obs) : bool :=
  match res_diff (snd (step false st o)) ob with
  | [] => false
  | _ => match res_diff (snd (step true st o)) ob with [] => true | _ => false end
  end.

Definition check_step (st : state) (g : ghost) (o : op) (ob : obs) : issues * state * ghost :=
  let '(st', res) := step (infer_fx st o ob) st o in
  let lowered := g_lowered g ||
                 (match o with OParams p => (p_max_sel p <? p_max_sel (st_par st)) || (p_max_sel p <? 1) | _ => false end) in
  let g0 := mkGhost (g_counted g) (g_reported g) (g_removed g) lowered in
  let iss :=
      spec_step (st_view st) (st_now st) (st_par st') g0 (st_sel st) (st_rep st) o ob
      ++ res_diff res ob
      ++ diff_if (list_eqb sel_eqb (st_sel st') (ob_sel ob)) "selectors"
      ++ diff_if (list_eqb rep_eqb (st_rep st') (ob_rep ob)) "reporters" in
  (iss, set_rep (set_sel st' (ob_sel ob)) (ob_rep ob), ghost_step (st_view st) (st_now st) g0 o ob).

(* the check stops at the first operation with an issue (so that a case carries the issues of
   one operation); [failing_from] returns that operation with its context for the classification *)
Fixpoint failing_from (st : state) (g : ghost) (prev : tables) (steps : list (cop * cobs))
  : option (issues * state * ghost * op * obs) :=
  match steps with
  | [] => None
  | (c, co) :: rest =>
    let o := op_of (st_view st) c in
    let ob := obs_of prev co in
    let '(iss, st', g') := check_step st g o ob in
    match iss with
    | [] => failing_from st' g' (ob_sel ob, ob_idx ob, ob_rep ob) rest
    | _ => Some (iss, st, g, o, ob)
    end
  end.

Definition ghost0 : ghost := mkGhost [] [] [] false.
Definition tables0 : tables := ([], [], []).
Definition c10_failing (c : c10_case) := match c with Hist steps => failing_from init_state ghost0 tables0 steps end.
Definition c10_check (c : c10_case) : issues :=
  match c10_failing c with Some (iss, _, _, _, _) => iss | None => [] end.

(* ---- signature predicates of the known-finding classes ---------------------------------- *)
(* F43: the by-power walk values a delegation with TokensFromSharesTruncated, everything else
        with TokensFromShares().TruncateInt(): the stake differs from the specification, and
        valuing both walks alike ([fx = true]) removes the difference *)
Definition f40_report (vw : sview) (now : Z) (sels : list selection) (r : Z) : bool :=
  negb (list_eqb origin_eqb (stake_origins false vw now sels r) (stake_origins true vw now sels r))
  && list_eqb origin_eqb (osort (stake_origins true vw now sels r)) (osort (spec_origins vw now sels r)).
(* F44: a selector counted by the by-power walk has a delegation to a validator with status
        bonded that the power-index walk does not reach (jailed in this block and therefore
        out of the index, or beyond a MaxValidators lowered in this block) *)
Definition f41_selector (vw : sview) (s : selection) : bool :=
  by_power vw s &&
  existsb (fun d => match find_val (sv_vals vw) (d_val d) with
                    | Some v => bonded v &&
                        negb (mem (v_id v) (map v_id (bonded_by_power (sv_vals vw) (sv_power vw) (Z.to_nat (sv_maxvals vw)))))
                    | None => false end) (dels_of (sv_dels vw) (s_addr s)).

Definition counted_selectors (now : Z) (sels : list selection) (r : Z) : list selection :=
  filter (fun s => (s_reporter s =? r) && unlocked now s) sels.

Definition c10_classes (c : c10_case) : list string :=
  match c10_failing c with
  | None => []
  | Some (_, st, g, o, ob) =>
    match o with
    | OReport r q =>
        (if f40_report (st_view st) (st_now st) (st_sel st) r then ["F43"%string] else [])
        ++ (if existsb (f41_selector (st_view st)) (counted_selectors (st_now st) (st_sel st) r) then ["F44"%string] else [])
        ++ (if existsb (fun s => mem s (g_removed g) &&
                                 negb (counted_ok (sv_unbond (st_view st)) (st_now st) r (g_counted g) s))
                       (dedup (map o_sel (ob_origins ob))) then ["F17"%string] else [])
    | OCreate a _ _ => if mem a (g_removed g) then ["F17"%string] else []
    | _ => []
    end
  end.
