(* C03 — model of the token-supply events of tellor-io/layer.

   x/mint/types/minter.go      Minter.CalculateBlockProvision        -> [calc_block_provision]
   x/mint/keeper/keeper.go     Keeper.MintCoins / SendInflationaryRewards -> [send_inflationary]
   x/mint/abci.go              BeginBlocker / MintBlockProvision / SetPreviousBlockTime -> [begin_block]
   x/mint/keeper/msg_server.go msgServer.Init                        -> [msg_init]
   x/oracle/keeper/tip.go (transfer), x/bridge/keeper/claim_deposit.go, withdraw_tokens.go,
   x/dispute/keeper/execute.go, msg_server_withdraw_fee_refund.go     -> the bank effects in [lstep_opt]

   Times are unix nanoseconds (Z, unbounded: the Go value is time.Time).  Amounts of the
   bank are math.Int (unbounded) => Z.  The provision itself is computed by Go in int64:
       timeElapsed := current.Sub(previous).Milliseconds()        (Sub saturates at +-2^63 ns,
                                                                   Milliseconds truncates)
       mintAmount  := DailyMintRate * timeElapsed / MillisecondsInDay   (int64: the product wraps,
                                                                   `/` truncates toward zero)
       sdk.NewCoin(denom, NewInt(mintAmount))                     (panics on a negative amount)
   so the wrap is written out here.

   Variant flag [fx] (finding F37): [false] = the code as found: bank.InputOutputCoins rejects
   an output whose coins are empty, so a provision of 1, 2 or 3 loya (quarter = 0) makes
   SendInflationaryRewards - and with it BeginBlocker - return an error; [true] = the zero
   output is left out (the code after the repair). *)
From Coq Require Import ZArith List Bool String.
From Verif Require Import Base.Harness.
Import ListNotations.
Open Scope Z_scope.

(* ---- constants --------------------------------------------------------------------- *)
Definition daily_mint_rate : Z := 146940000.      (* loya per day *)
Definition ms_in_day : Z := 86400000.
Definition ns_in_ms : Z := 1000000.
Definition two63 : Z := 9223372036854775808.
Definition two64 : Z := 18446744073709551616.
(* time.Time{} (IsZero): 0001-01-01T00:00:00Z in unix nanoseconds *)
Definition zero_time : Z := -62135596800000000000.

Definition wrap_s64 (x : Z) : Z := (x + two63) mod two64 - two63.
(* time.Time.Sub returns minDuration / maxDuration when the difference does not fit *)
Definition sat_s64 (x : Z) : Z :=
  if x <? - two63 then - two63 else if two63 - 1 <? x then two63 - 1 else x.
(* current.Sub(previous).Milliseconds() *)
Definition elapsed_ms (cur prev : Z) : Z := Z.quot (sat_s64 (cur - prev)) ns_in_ms.

(* ---- Minter.CalculateBlockProvision ------------------------------------------------ *)
Inductive prov_result :=
| PErr                   (* current.Before(previous) *)
| PPanic                 (* sdk.NewCoin: negative coin amount *)
| PCoin (amount : Z).

(* DailyMintRate * timeElapsed / MillisecondsInDay in int64 *)
Definition provision_raw (ms : Z) : Z := Z.quot (wrap_s64 (daily_mint_rate * ms)) ms_in_day.

Definition calc_block_provision (cur prev : Z) : prov_result :=
  if cur <? prev then PErr
  else let a := provision_raw (elapsed_ms cur prev) in
       if a <? 0 then PPanic else PCoin a.

(* what the property says: elapsed milliseconds times the daily rate, rounded down *)
Definition provision_spec (ms : Z) : Z := daily_mint_rate * ms / ms_in_day.
(* the int64 product does not wrap: ms <= 62 769 647 725 (726.5 days) *)
Definition in_range (ms : Z) : bool := (0 <=? ms) && (daily_mint_rate * ms <? two63).

(* ---- Keeper.SendInflationaryRewards -------------------------------------------------- *)
(* quarter := amount.QuoRaw(4); threequarters := amount.Sub(quarter);
   outputs [time_based_rewards: threequarters; fee_collector: quarter]; input mint: threequarters+quarter *)
Definition split (p : Z) : Z * Z := let q := Z.quot p 4 in (p - q, q).

Inductive send_result :=
| SNone                       (* coins.Empty(): no bank call *)
| SOk (tbr fee : Z)
| SErr.                       (* bank.InputOutputCoins: ValidateInputOutputs fails *)

Definition send_inflationary (fx : bool) (p : Z) : send_result :=
  if p =? 0 then SNone
  else let t := fst (split p) in
       let q := snd (split p) in
       if (q =? 0) || (t =? 0)
       then (if fx then SOk t q else SErr)      (* Output.ValidateBasic: !Coins.IsAllPositive() *)
       else SOk t q.

(* ---- BeginBlocker -------------------------------------------------------------------- *)
Record minter := { m_init : bool; m_prev : option Z }.

Inductive bb_result :=
| BBOk (minted tbr fee : Z) (m' : minter)   (* minted = amount given to bank.MintCoins (0: no call) *)
| BBErr (minted : Z)                        (* BeginBlocker returns an error (the chain halts);
                                               [minted] was already passed to bank.MintCoins *)
| BBPanic.

Definition begin_block (fx : bool) (m : minter) (now : Z) : bb_result :=
  if negb (m_init m) then BBOk 0 0 0 m
  else if now =? zero_time then BBOk 0 0 0 m
  else
    let m' := {| m_init := m_init m; m_prev := Some now |} in
    match m_prev m with
    | None => BBOk 0 0 0 m'
    | Some prev =>
        match calc_block_provision now prev with
        | PErr => BBErr 0
        | PPanic => BBPanic
        | PCoin p =>
            match send_inflationary fx p with
            | SNone => BBOk 0 0 0 m'
            | SOk t q => BBOk p t q m'
            | SErr => BBErr p
            end
        end
    end.

(* msgServer.Init; [auth_ok] = the signer is the module authority *)
Definition msg_init (auth_ok : bool) (m : minter) : option minter :=
  if negb auth_ok then None
  else if m_init m then None
  else Some {| m_init := true; m_prev := m_prev m |}.

(* runs of blocks (for the theorems over block-time sequences) *)
Definition minted_of (r : bb_result) : Z := match r with BBOk p _ _ _ => p | _ => 0 end.
Definition minter_after (m : minter) (r : bb_result) : minter := match r with BBOk _ _ _ m' => m' | _ => m end.

Fixpoint run_blocks (fx : bool) (m : minter) (times : list Z) : Z * minter :=
  match times with
  | [] => (0, m)
  | t :: r => let res := begin_block fx m t in
              let '(s, m') := run_blocks fx (minter_after m res) r in
              (minted_of res + s, m')
  end.

(* statements over block-time sequences *)
Fixpoint nondecr (p : Z) (ts : list Z) : Prop :=
  match ts with [] => True | t :: r => p <= t /\ nondecr t r end.
Fixpoint sumZ (l : list Z) : Z := match l with [] => 0 | x :: r => x + sumZ r end.
(* states reachable from genesis: no block time is recorded before minting was switched on *)
Definition minter_wf (m : minter) : Prop := m_init m = false -> m_prev m = None.

(* ---- abstract ledger of the documented supply events ------------------------------------ *)
Definition addr := Z.
Definition a_rest : addr := 0.        (* every account the histories do not touch, lumped *)
Definition a_mint : addr := 1.
Definition a_tbr : addr := 2.         (* time_based_rewards *)
Definition a_fee : addr := 3.         (* fee_collector *)
Definition a_oracle : addr := 4.
Definition a_bridge : addr := 5.
Definition a_dispute : addr := 6.
Definition a_funder : addr := 7.      (* genesis / the test fixture's funding account *)
Definition module_addrs : list addr := [a_mint; a_tbr; a_fee; a_oracle; a_bridge; a_dispute; a_funder].

Record bank := { bal : addr -> Z; supply : Z }.

Definition upd (f : addr -> Z) (a : addr) (v : Z) : addr -> Z := fun x => if x =? a then v else f x.

(* x/bank: MintCoins, BurnCoins (subUnlockedCoins: insufficient funds), SendCoins *)
Definition b_mint (b : bank) (a : addr) (v : Z) : option bank :=
  if v <? 0 then None
  else Some {| bal := upd (bal b) a (bal b a + v); supply := supply b + v |}.
Definition b_burn (b : bank) (a : addr) (v : Z) : option bank :=
  if (v <? 0) || (bal b a <? v) then None
  else Some {| bal := upd (bal b) a (bal b a - v); supply := supply b - v |}.
Definition b_send (b : bank) (from to : addr) (v : Z) : option bank :=
  if (v <? 0) || (bal b from <? v) then None
  else let f := upd (bal b) from (bal b from - v) in
       Some {| bal := upd f to (f to + v); supply := supply b |}.

Definition bind {A B} (o : option A) (f : A -> option B) : option B :=
  match o with Some x => f x | None => None end.

Inductive lop :=
| LInit (auth_ok : bool)                               (* mint MsgInit *)
| LBeginBlock (now : Z)                                (* mint BeginBlocker *)
| LClaim (fresh : bool) (claimer recipient : addr) (amount_wei tip_wei : Z)
      (* bridge ClaimDeposit of a reported deposit (amounts as reported, 18 decimals);
         fresh = not claimed before and the oracle-side conditions of C14 hold *)
| LWithdraw (sender : addr) (amount : Z)               (* bridge MsgWithdrawTokens *)
| LTip (tipper : addr) (amount : Z)                    (* oracle MsgTip *)
| LDisputeBurn (amount : Z)                            (* dispute ExecuteVote: half (or all) of BurnAmount *)
| LDustBurn (amount : Z)                               (* dispute WithdrawFeeRefund: floor(dust/10^6) *)
| LSend (from to : addr) (amount : Z)                  (* every other operation: transfers only *)
| LFund (to : addr) (amount : Z).                      (* genesis / fixture funding (not a chain event) *)

Record ledger := { l_bank : bank; l_minter : minter }.

Definition tip_burn (amount : Z) : Z := Z.quot (amount * 2) 100.
(* DecodeDepositReportValue: big.Int.Div by 10^12 (the reported amounts are non-negative:
   uint256; the Int64() conversion that follows is the subject of C14 - amounts < 2^63 * 10^12 here) *)
Definition to_loya (wei : Z) : Z := wei / 1000000000000.

(* [None] = the operation fails; a failed transaction leaves no trace (atomicity) *)
Definition lstep_opt (fx : bool) (l : ledger) (op : lop) : option ledger :=
  let b := l_bank l in
  let keep := fun b' => Some {| l_bank := b'; l_minter := l_minter l |} in
  match op with
  | LInit auth_ok =>
      match msg_init auth_ok (l_minter l) with
      | Some m => Some {| l_bank := b; l_minter := m |}
      | None => None
      end
  | LBeginBlock now =>
      match begin_block fx (l_minter l) now with
      | BBOk minted t q m' =>
          bind (b_mint b a_mint minted) (fun b1 =>
          bind (b_send b1 a_mint a_tbr t) (fun b2 =>
          bind (b_send b2 a_mint a_fee q) (fun b3 =>
          Some {| l_bank := b3; l_minter := m' |})))
      | _ => None
      end
  | LClaim fresh claimer recipient amount_wei tip_wei =>
      let amount := to_loya amount_wei in
      let tip := to_loya tip_wei in
      if negb fresh || (tip <? 0) || (amount <? tip) then None   (* amount.Sub(tip) panics when negative *)
      else bind (b_mint b a_bridge amount) (fun b1 =>
           bind (b_send b1 a_bridge claimer tip) (fun b2 =>
           bind (b_send b2 a_bridge recipient (amount - tip)) keep))
  | LWithdraw sender amount =>
      if amount <=? 0 then None
      else bind (b_send b sender a_bridge amount) (fun b1 =>
           bind (b_burn b1 a_bridge amount) keep)
  | LTip tipper amount =>
      if amount <=? 0 then None
      else bind (b_send b tipper a_oracle amount) (fun b1 =>
           bind (b_burn b1 a_oracle (tip_burn amount)) keep)
  | LDisputeBurn v | LDustBurn v =>
      if v <=? 0 then None else bind (b_burn b a_dispute v) keep
  | LSend from to v => bind (b_send b from to v) keep
  | LFund to v =>
      bind (b_mint b a_funder v) (fun b1 => bind (b_send b1 a_funder to v) keep)
  end.

Definition lstep (fx : bool) (l : ledger) (op : lop) : ledger :=
  match lstep_opt fx l op with Some l' => l' | None => l end.

Definition lsupply (l : ledger) : Z := supply (l_bank l).

(* the documented, exactly quantified change of total supply of one operation *)
Definition nominal_delta (fx : bool) (l : ledger) (op : lop) : Z :=
  match op with
  | LBeginBlock now => minted_of (begin_block fx (l_minter l) now)
  | LClaim _ _ _ amount_wei _ => to_loya amount_wei
  | LWithdraw _ amount => - amount
  | LTip _ amount => - tip_burn amount
  | LDisputeBurn v | LDustBurn v => - v
  | LFund _ v => v
  | LInit _ | LSend _ _ _ => 0
  end.

Definition supply_delta (fx : bool) (l : ledger) (op : lop) : Z :=
  match lstep_opt fx l op with Some _ => nominal_delta fx l op | None => 0 end.

Definition sum_over (dom : list addr) (f : addr -> Z) : Z := fold_right (fun a s => f a + s) 0 dom.

Fixpoint sum_deltas (fx : bool) (l : ledger) (ops : list lop) : Z :=
  match ops with
  | [] => 0
  | op :: r => supply_delta fx l op + sum_deltas fx (lstep fx l op) r
  end.

(* the bank invariant: balances are non-negative, vanish outside [dom], and add up to the supply *)
Definition bank_ok (dom : list addr) (b : bank) : Prop :=
  (forall a, ~ In a dom -> bal b a = 0) /\ (forall a, 0 <= bal b a) /\ sum_over dom (bal b) = supply b.
Definition ledger_ok (dom : list addr) (l : ledger) : Prop :=
  bank_ok dom (l_bank l) /\ minter_wf (l_minter l).

Definition op_addrs (op : lop) : list addr :=
  match op with
  | LClaim _ c r _ _ => [c; r]
  | LWithdraw s _ => [s]
  | LTip t _ => [t]
  | LSend f t _ => [f; t]
  | LFund t _ => [t]
  | _ => []
  end.

(* ---- mint / burn call sites (go/ast scan) ------------------------------------------------ *)
(* (package directory, enclosing function, callee) of every `x.MintCoins(...)` / `x.BurnCoins(...)`
   call in non-test files under x/ and app/ that the model covers *)
Definition modelled_sites : list (string * string * string) :=
  [ ("x/mint", "MintBlockProvision", "MintCoins");                      (* LBeginBlock *)
    ("x/mint/keeper", "Keeper.MintCoins", "MintCoins");                 (* LBeginBlock *)
    ("x/oracle/keeper", "Keeper.transfer", "BurnCoins");                (* LTip *)
    ("x/bridge/keeper", "Keeper.ClaimDeposit", "MintCoins");            (* LClaim *)
    ("x/bridge/keeper", "Keeper.WithdrawTokens", "BurnCoins");          (* LWithdraw *)
    ("x/dispute/keeper", "Keeper.ExecuteVote", "BurnCoins");            (* LDisputeBurn (three branches) *)
    ("x/dispute/keeper", "msgServer.WithdrawFeeRefund", "BurnCoins") ]%string.  (* LDustBurn *)

(* module accounts that may hold the Minter / Burner permission in app.go's maccPerms *)
Definition allowed_minters : list string := ["mint"; "bridge"; "oracle"; "dispute"; "transfer"]%string.
Definition allowed_burners : list string :=
  ["bridge"; "oracle"; "dispute"; "transfer"; "gov"; "bonded_tokens_pool"; "not_bonded_tokens_pool"]%string.

Definition site_eqb (a b : string * string * string) : bool :=
  let '(a1, a2, a3) := a in let '(b1, b2, b3) := b in
  String.eqb a1 b1 && String.eqb a2 b2 && String.eqb a3 b3.
Definition site_known (s : string * string * string) : bool := existsb (site_eqb s) modelled_sites.
Definition str_in (s : string) (l : list string) : bool := existsb (String.eqb s) l.

(* ---- correspondence cases ------------------------------------------------------------------ *)
(* one BeginBlocker / MsgInit call of a block sequence on the real mint keeper (mock bank):
   status 0 = ok, 1 = error returned, 2 = panic; minted = sum of the bank.MintCoins amounts,
   tbr/fee = the outputs of the (validated) bank.InputOutputCoins call; init/prev = the stored
   Minter after the call *)
Inductive bstep :=
| BInit (auth_ok : bool) (impl_err : bool) (impl_init : bool) (impl_prev : option Z)
| BBlock (now : Z) (status minted tbr fee : Z) (impl_init : bool) (impl_prev : option Z).

(* one operation of a history on the full fixture (real bank): the operation, whether the
   implementation returned an error, total supply after it, the sum of all bank balances
   after it, whether the SDK's TotalSupply invariant reports "broken", the balances of the
   tracked accounts after it, the stored Minter after it *)
Inductive lobs :=
| LObs (op : lop) (impl_err : bool) (impl_supply impl_sum : Z) (impl_inv_broken : bool)
       (impl_bals : list Z) (impl_init : bool) (impl_prev : option Z).

Inductive c03_case :=
| ProvCase (prev cur : Z) (impl : prov_result)
| BlocksCase (init0 : bool) (prev0 : option Z) (steps : list bstep)
| LedgerCase (tracked : list addr) (bals0 : list Z) (supply0 : Z) (init0 : bool) (prev0 : option Z)
             (steps : list lobs)
| SitesCase (sites : list (string * string * string)) (minters burners : list string).

(* the variant of the mint module that /repo implements now (F37 repaired by commit eb517ad:
   the fee-collector output is only added when the quarter is positive) *)
Definition repo_fix : bool := true.

Definition prov_eqb (a b : prov_result) : bool :=
  match a, b with
  | PErr, PErr | PPanic, PPanic => true
  | PCoin x, PCoin y => x =? y
  | _, _ => false
  end.

Definition minter_eqb (a b : minter) : bool :=
  Bool.eqb (m_init a) (m_init b) && Zeqb_opt (m_prev a) (m_prev b).

(* -- specification of one BeginBlocker call, on the implementation's own pre-state and outputs *)
Definition forward_in_range (prev now : Z) : bool := (prev <=? now) && in_range (elapsed_ms now prev).

Definition spec_block (pre : minter) (now status minted tbr fee : Z) (post : minter) : issues :=
  let unchanged := minter_eqb pre post in
  let nothing := (minted =? 0) && (tbr =? 0) && (fee =? 0) in
  spec_if (Bool.eqb (m_init pre) (m_init post)) "BeginBlocker changed the Initialized switch"
  ++ (if negb (m_init pre)
      then spec_if ((status =? 0) && nothing && unchanged) "minting before governance started it (MsgInit)"
      else if now =? zero_time then []
      else match m_prev pre with
           | None => spec_if ((status =? 0) && nothing && Zeqb_opt (m_prev post) (Some now))
                             "first block after MsgInit must mint nothing and record the block time"
           | Some prev =>
               if forward_in_range prev now then
                 let p := provision_spec (elapsed_ms now prev) in
                 spec_if (status =? 0) "BeginBlocker fails on a forward block-time gap below the int64 range"
                 ++ spec_if (minted =? p) "minted amount is not floor(146940000 * elapsed_ms / 86400000)"
                 ++ (if status =? 0
                     then spec_if ((fee =? p / 4) && (tbr =? p - p / 4))
                                  "split is not (total - total/4) to time_based_rewards and total/4 to fee_collector"
                          ++ spec_if (Zeqb_opt (m_prev post) (Some now)) "previous block time not recorded"
                     else [])
               else []
           end)
  ++ (if status =? 0 then spec_if (tbr + fee =? minted) "minted coins not fully distributed" else []).

(* the class of finding F37: an in-range forward gap whose provision is 1, 2 or 3 loya *)
Definition f37_block (pre : minter) (now : Z) : bool :=
  m_init pre && negb (now =? zero_time) &&
  match m_prev pre with
  | Some prev => forward_in_range prev now &&
                 (let p := provision_spec (elapsed_ms now prev) in (1 <=? p) && (p <=? 3))
  | None => false
  end.

(* cumulative bound over the recorded sequence: from the first recorded block time on,
   while times do not go backwards, total minted <= floor(rate * elapsed_ms(last, first) / day) *)
Record cum := { c_first : option Z; c_last : Z; c_total : Z; c_valid : bool }.
Definition cum0 (prev0 : option Z) : cum :=
  {| c_first := prev0; c_last := match prev0 with Some p => p | None => 0 end; c_total := 0; c_valid := true |}.
Definition cum_block (c : cum) (pre post : minter) (now status minted : Z) : cum :=
  if negb (m_init pre) || (now =? zero_time) then
    {| c_first := c_first c; c_last := c_last c; c_total := c_total c + (if status =? 0 then minted else 0); c_valid := c_valid c |}
  else match c_first c with
       | None => {| c_first := m_prev post; c_last := now; c_total := c_total c + (if status =? 0 then minted else 0); c_valid := c_valid c |}
       | Some _ =>
           {| c_first := c_first c;
              c_last := if status =? 0 then now else c_last c;
              c_total := c_total c + (if status =? 0 then minted else 0);
              c_valid := c_valid c && (c_last c <=? now) |}
       end.
Definition cum_spec (c : cum) : issues :=
  match c_first c with
  | Some f =>
      if c_valid c && in_range (elapsed_ms (c_last c) f)
      then spec_if (c_total c <=? provision_spec (elapsed_ms (c_last c) f))
                   "cumulative minting exceeds the daily rate times the elapsed time"
      else []
  | None => spec_if (c_total c =? 0) "minting without a recorded previous block time"
  end.

Definition status_of (r : bb_result) : Z := match r with BBOk _ _ _ _ => 0 | BBErr _ => 1 | BBPanic => 2 end.
Definition minted_any (r : bb_result) : Z := match r with BBOk p _ _ _ => p | BBErr p => p | BBPanic => 0 end.
Definition tbr_of (r : bb_result) : Z := match r with BBOk _ t _ _ => t | _ => 0 end.
Definition fee_of (r : bb_result) : Z := match r with BBOk _ _ q _ => q | _ => 0 end.

(* walk the steps: [mi] = the implementation's stored Minter before the step (pre-state of the
   specification), [mm] = the model's *)
Fixpoint check_blocks (mi mm : minter) (c : cum) (steps : list bstep) : issues :=
  match steps with
  | [] => cum_spec c
  | BInit auth_ok err i p :: r =>
      let post := {| m_init := i; m_prev := p |} in
      let mm' := match msg_init auth_ok mm with Some m => m | None => mm end in
      spec_if (if err then minter_eqb mi post
               else auth_ok && negb (m_init mi) && i && Zeqb_opt p (m_prev mi))
              "MsgInit: only the authority may switch minting on, once, and nothing else changes"
      ++ diff_if (Bool.eqb err (match msg_init auth_ok mm with Some _ => false | None => true end)) "MsgInit result"
      ++ diff_if (minter_eqb mm' post) "minter after MsgInit"
      ++ check_blocks post mm' c r
  | BBlock now status minted tbr fee i p :: r =>
      let post := {| m_init := i; m_prev := p |} in
      let res := begin_block repo_fix mm now in
      let mm' := minter_after mm res in
      spec_block mi now status minted tbr fee post
      ++ diff_if (status_of res =? status) "BeginBlocker status"
      ++ diff_if (minted_any res =? minted) "minted amount"
      ++ diff_if ((tbr_of res =? tbr) && (fee_of res =? fee)) "reward transfers"
      ++ diff_if (minter_eqb mm' post) "minter after BeginBlocker"
      ++ check_blocks post mm' (cum_block c mi post now status minted) r
  end.

Fixpoint classes_blocks (mi : minter) (steps : list bstep) : bool :=
  match steps with
  | [] => false
  | BInit _ _ i p :: r => classes_blocks {| m_init := i; m_prev := p |} r
  | BBlock now _ _ _ _ i p :: r => f37_block mi now || classes_blocks {| m_init := i; m_prev := p |} r
  end.

(* -- histories on the real bank -------------------------------------------------------------- *)
Fixpoint assoc_bal (tracked : list addr) (bals : list Z) : addr -> Z :=
  match tracked, bals with
  | a :: tr, v :: bs => upd (assoc_bal tr bs) a v
  | _, _ => fun _ => 0
  end.

(* specification of the supply change of one operation, from the operation, the
   implementation's verdict and the implementation's own Minter before it *)
Definition spec_delta (pre : minter) (op : lop) (err : bool) : option Z :=
  if err then Some 0 else
  match op with
  | LBeginBlock now =>
      if negb (m_init pre) || (now =? zero_time) then Some 0
      else match m_prev pre with
           | None => Some 0
           | Some prev => if forward_in_range prev now then Some (provision_spec (elapsed_ms now prev)) else None
           end
  | LClaim _ _ _ amount_wei _ => Some (amount_wei / 1000000000000)
  | LWithdraw _ amount => Some (- amount)
  | LTip _ amount => Some (- (2 * amount / 100))
  | LDisputeBurn v | LDustBurn v => Some (- v)
  | LFund _ v => Some v
  | LInit _ | LSend _ _ _ => Some 0
  end.

(* BeginBlocker must not fail: not started, or first block, or a forward gap in range *)
Definition must_succeed (pre : minter) (now : Z) : bool :=
  negb (m_init pre) || (now =? zero_time) ||
  match m_prev pre with None => true | Some prev => forward_in_range prev now end.

Definition f37_op (pre : minter) (op : lop) : bool :=
  match op with LBeginBlock now => f37_block pre now | _ => false end.

Fixpoint check_ledger (tracked : list addr) (mi : minter) (sup : Z) (lm : ledger) (steps : list lobs) : issues :=
  match steps with
  | [] => []
  | LObs op err s sum broken bals i p :: r =>
      let post := {| m_init := i; m_prev := p |} in
      let res := lstep_opt repo_fix lm op in
      let lm' := lstep repo_fix lm op in
      spec_if ((sum =? s) && negb broken) "sum of all account balances differs from the recorded total supply"
      ++ (match spec_delta mi op err with
          | Some d => spec_if (s - sup =? d) "total supply changed by something else than the documented amount of the operation"
          | None => []
          end)
      ++ (match op with
          | LBeginBlock now =>
              if must_succeed mi now
              then spec_if (negb err) "BeginBlocker fails on a forward block-time gap below the int64 range"
              else []
          | _ => []
          end)
      ++ diff_if (Bool.eqb err (match res with Some _ => false | None => true end)) "operation verdict"
      ++ diff_if (lsupply lm' =? s) "total supply"
      ++ diff_if (list_eqb Z.eqb (map (bal (l_bank lm')) tracked) bals) "tracked balances"
      ++ diff_if (minter_eqb (l_minter lm') post) "minter"
      ++ check_ledger tracked post s lm' r
  end.

Fixpoint classes_ledger (mi : minter) (steps : list lobs) : bool :=
  match steps with
  | [] => false
  | LObs op _ _ _ _ _ i p :: r => f37_op mi op || classes_ledger {| m_init := i; m_prev := p |} r
  end.

Definition c03_check (c : c03_case) : issues :=
  match c with
  | ProvCase prev cur impl =>
      (if forward_in_range prev cur
       then spec_if (prov_eqb impl (PCoin (provision_spec (elapsed_ms cur prev))))
                    "provision is not floor(146940000 * elapsed_ms / 86400000) for a forward gap below the int64 range"
       else [])
      ++ diff_if (prov_eqb (calc_block_provision cur prev) impl) "block provision"
  | BlocksCase init0 prev0 steps =>
      let m0 := {| m_init := init0; m_prev := prev0 |} in
      check_blocks m0 m0 (cum0 prev0) steps
  | LedgerCase tracked bals0 supply0 init0 prev0 steps =>
      let m0 := {| m_init := init0; m_prev := prev0 |} in
      spec_if (fold_right Z.add 0 bals0 =? supply0) "sum of all account balances differs from the recorded total supply"
      ++ check_ledger tracked m0 supply0
           {| l_bank := {| bal := assoc_bal tracked bals0; supply := supply0 |}; l_minter := m0 |} steps
  | SitesCase sites minters burners =>
      spec_if (forallb site_known sites) "a MintCoins/BurnCoins call site outside the documented supply events"
      ++ spec_if (forallb (fun m => str_in m allowed_minters) minters) "Minter permission granted to an undocumented module account"
      ++ spec_if (forallb (fun m => str_in m allowed_burners) burners) "Burner permission granted to an undocumented module account"
      ++ diff_if (forallb (fun s => existsb (site_eqb s) sites) modelled_sites) "a modelled mint/burn site no longer exists"
  end.

Definition c03_classes (c : c03_case) : list string :=
  match c with
  | ProvCase prev cur _ =>
      if (prev <=? cur) && negb (in_range (elapsed_ms cur prev)) then ["gap-beyond-int64-range"%string] else []
  | BlocksCase init0 prev0 steps =>
      if classes_blocks {| m_init := init0; m_prev := prev0 |} steps then ["F37"%string] else []
  | LedgerCase _ _ _ init0 prev0 steps =>
      if classes_ledger {| m_init := init0; m_prev := prev0 |} steps then ["F37"%string] else []
  | SitesCase _ _ _ => []
  end.

(* what an empty result of [check_ledger] says about the recorded history (Prop level) *)
Fixpoint ledger_obs_ok (mi : minter) (sup : Z) (steps : list lobs) : Prop :=
  match steps with
  | [] => True
  | LObs op err s sum broken _ i p :: r =>
      sum = s /\ broken = false /\
      (forall d, spec_delta mi op err = Some d -> s = sup + d) /\
      ledger_obs_ok {| m_init := i; m_prev := p |} s r
  end.
