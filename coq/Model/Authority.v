(* C19 — governance gating, team address, registry re-registration; case types of the drivers. *)
From Coq Require Import ZArith List Bool String.
From Verif Require Import Base.Harness.
Import ListNotations.
Open Scope Z_scope.

(* a governance-gated handler: `if k.GetAuthority() != req.Authority { return nil, err }` and then
   the update.  State is whatever the handler edits; None = rejected (the transaction's cache
   context is dropped: no state change) *)
Definition gated {S P : Type} (authority : string) (apply : S -> P -> option S) (st : S) (req_authority : string) (payload : P) : option S :=
  if String.eqb authority req_authority then apply st payload else None.

(* MsgUpdateTeam: only the current team address can replace itself *)
Definition update_team (team current new : Z) : option Z := if team =? current then Some new else None.

(* MsgRegisterSpec: a query type that already has a spec (HasSpec lower-cases) cannot be re-registered *)
Definition lower_ascii (c : Ascii.ascii) : Ascii.ascii :=
  let n := Ascii.N_of_ascii c in if (N.leb 65 n && N.leb n 90)%bool then Ascii.ascii_of_N (n + 32) else c.
Fixpoint lower_str (s : string) : string :=
  match s with EmptyString => EmptyString | String c r => String (lower_ascii c) (lower_str r) end.
Definition register_spec (specs : list (string * Z)) (qtype : string) (spec : Z) : option (list (string * Z)) :=
  if existsb (fun e => String.eqb (fst e) (lower_str qtype)) specs then None else Some ((lower_str qtype, spec) :: specs).

Inductive c19_case :=
| PrivCase (name : string) (by_authority accepted state_changed : bool)
| GuardCase (handlers : list (string * bool)).

Definition c19_check (c : c19_case) : issues :=
  match c with
  | PrivCase name by_auth accepted changed =>
      spec_if (by_auth || negb accepted) ("a privileged change was accepted from a sender that is not the authority: " ++ name)
      ++ spec_if (accepted || negb changed) ("a rejected privileged message changed state: " ++ name)
  | GuardCase hs =>
      diff_if (forallb snd hs) "a governance-gated handler does not start with the authority comparison"
  end.

Definition c19_classes (c : c19_case) : list string := [].
