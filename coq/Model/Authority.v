(* C19 — governance gating, team address, registry re-registration; case types of the drivers. *)
From Coq Require Import ZArith List Bool String.
From Verif Require Import Base.Harness.
Import ListNotations.
Open Scope Z_scope.

(* a governance-gated handler: `if k.GetAuthority() != req.Authority { return nil, err }` and then
   the update.  State is whatever the handler edits; None = rejected (the transaction's cache
   context is dropped: no state change) *)
Definition gated {S P : Type} (authority : string) (apply : S -> P -> option S) (st : S) (req_authority : string) (payload : P) : option S :=
  if String.eqb authority req_authority then apply st payload else None.

(* MsgUpdateTeam: only the current team address can replace itself *)
Definition update_team (team current new : Z) : option Z := if team =? current then Some new else None.

(* MsgRegisterSpec: a query type that already has a spec (HasSpec lower-cases) cannot be re-registered *)
Definition lower_ascii (c : Ascii.ascii) : Ascii.ascii :=
  let n := Ascii.N_of_ascii c in if (N.leb 65 n && N.leb n 90)%bool then Ascii.ascii_of_N (n + 32) else c.
Fixpoint lower_str (s : string) : string :=
  match s with EmptyString => EmptyString | String c r => String (lower_ascii c) (lower_str r) end.
Definition register_spec (specs : list (string * Z)) (qtype : string) (spec : Z) : option (list (string * Z)) :=
  if existsb (fun e => String.eqb (fst e) (lower_str qtype)) specs then None else Some ((lower_str qtype, spec) :: specs).

(* MsgRemoveSelector (anybody may send it): the selection is deleted only if the selector's bonded stake
   is below the reporter's minimum and the reporter holds more selectors than the cap *)
Definition remove_selector (selections : list (Z * Z)) (selector : Z) (stake mn nsel cap : Z) : option (list (Z * Z)) :=
  if (stake <? mn) && (cap <? nsel) then Some (filter (fun e => negb (fst e =? selector)) selections) else None.

Inductive c19_case :=
| PrivCase (name : string) (by_authority accepted state_changed : bool)
| GuardCase (handlers : list (string * bool))
(* a query type [registered] has a spec; MsgRegisterSpec is sent with the spelling [attempt] and another
   spec: was it accepted, and is the spec stored for [registered] still the original one? *)
| RegCase (registered attempt : string) (accepted original_spec_changed : bool)
(* MsgRemoveSelector sent by a third party for a selector whose bonded stake (recomputed from the
   staking keeper) is [stake], whose reporter asks for [min], has [nsel] selectors under cap [cap] *)
| RemoveCase (stake min nsel cap : Z) (accepted selection_changed : bool).

Definition c19_check (c : c19_case) : issues :=
  match c with
  | PrivCase name by_auth accepted changed =>
      spec_if (by_auth || negb accepted) ("a privileged change was accepted from a sender that is not the authority: " ++ name)
      ++ spec_if (accepted || negb changed) ("a rejected privileged message changed state: " ++ name)
  | GuardCase hs =>
      diff_if (forallb snd hs) "a governance-gated handler does not start with the authority comparison"
  | RegCase registered attempt accepted changed =>
      spec_if (negb changed) "a registered data spec was replaced by a re-registration"
      ++ diff_if (Bool.eqb accepted (match register_spec [(lower_str registered, 1)] attempt 2 with Some _ => true | None => false end))
                 "MsgRegisterSpec accept/reject"
  | RemoveCase stake mn nsel cap accepted changed =>
      spec_if (negb accepted || ((stake <? mn) && (cap <? nsel)))
              "somebody else removed a selector that meets its reporter's minimum or whose reporter is not over the selector cap"
      ++ spec_if (accepted || negb changed) "a rejected MsgRemoveSelector changed the selection"
      ++ diff_if (Bool.eqb accepted (match remove_selector [] 0 stake mn nsel cap with Some _ => true | None => false end)) "MsgRemoveSelector accept/reject"
  end.

Definition c19_classes (c : c19_case) : list string := [].
