(* C17 — model of app/proposal_handler.go (PrepareProposalHandler, ProcessProposalHandler,
   PreBlocker, Check*FromLastCommit, SetEVMAddresses), of app/extend_vote.go
   (VerifyVoteExtensionHandler) and of the bridge keeper functions they call
   (x/bridge/keeper/keeper.go: EVMAddressFromSignatures / TryRecoverAddressWithBothIDs,
   SetEVMAddressByOperator, SetBridgeValsetSignature, SetOracleAttestation, with
   types.BridgeValsetSignatures.SetSignature / types.OracleAttestations.SetAttestation).

   Representation.
   * a byte string is a [hex = Z]: the big-endian number of the bytes behind a leading 0x01 byte
     (0x01 = empty, 0x01ab00 = the two bytes ab 00): equality is Z.eqb, the length is log2 / 8, and
     the case terms stay small.  A Go byte slice is [obytes = option hex]: [None] = nil,
     [Some 1] = empty, non-nil.  reflect.DeepEqual distinguishes the two; len does not.
   * a hex string inside the injected tx is a [sigstr]: [SHex b] = the canonical lower-case encoding of
     b (what hex.EncodeToString returns), [SRaw s] = any other string (the harness prints canonical
     strings as SHex only).
   * a Go slice that is compared with reflect.DeepEqual is [option (list _)] ([None] = nil).
   * collections.Map = association list with functional lookup / update.
   * not interpreted, supplied with every case by the harness (measured on the real code):
       - json.Unmarshal of a vote extension ([v_ext = None]: error) and of the injected tx ([BadTx]);
       - baseapp.ValidateVoteExtensions on the embedded extended commit ([c_valid]);
       - staking GetValidatorByConsAddr ([v_op]);
       - secp256k1 recovery: [v_aok] = TryRecoverAddressWithBothIDs succeeds on signature A,
         [v_addr] = result of EVMAddressFromSignatures when both signatures have >= 64 bytes;
       - common.HexToAddress on the injected address strings (table [tbl]).

   The handlers of the model are functions of (state, request) only: a ProposalHandler instance carries
   nothing from one block to the next.  The harness checks that too: case [CPeer] holds the outputs of
   several real handler instances with different histories on one state, and the measured facts above
   (in particular [v_op]) are those of the state at the time of the call.

   Variant flags ([true] = repaired behaviour, DESIGN 2.3):
     g_len  (F27) ProcessProposalHandler indexes req.Txs[0] of an empty proposal; PreBlocker indexes the
                  parallel lists of the injected tx without length checks;
     g_sig  (F41) TryRecoverAddressWithBothIDs slices sig[:64] without a length check (repair: the caller,
                  CheckInitialSignaturesFromLastCommit, skips signatures shorter than 64 bytes; the keeper's
                  own unit tests pin the keeper-level panic);
     g_slot (F42) SetOracleAttestation takes the slot index from the *current* validator set although the
                  attestation array belongs to the validator set the snapshot was created under. *)
From Coq Require Import ZArith List Bool String Ascii.
From Verif Require Import Base.Harness.
Import ListNotations.
Open Scope string_scope.
Open Scope list_scope.
Open Scope Z_scope.

(* ---------------------------------------------------------------------------------------- *)
(* generic                                                                                   *)
(* ---------------------------------------------------------------------------------------- *)
Definition hex := Z.
Definition obytes := option hex.
Definition bempty : hex := 1.

Definition blen (b : obytes) : Z :=
  match b with None => 0 | Some z => Z.log2 z / 8 end.
(* the stored bytes / the collections key: nil and empty coincide *)
Definition bkey (b : obytes) : hex := match b with None => bempty | Some z => z end.

Definition option_eqb {A} (e : A -> A -> bool) (a b : option A) : bool :=
  match a, b with Some x, Some y => e x y | None, None => true | _, _ => false end.
Definition olist {A} (o : option (list A)) : list A := match o with Some l => l | None => [] end.
(* a slice built with append from a nil slice: nil when nothing was appended *)
Definition nil_or {A} (l : list A) : option (list A) := match l with [] => None | _ => Some l end.
Definition obytes_eqb : obytes -> obytes -> bool := option_eqb Z.eqb.
Definition ol_eqb {A} (e : A -> A -> bool) : option (list A) -> option (list A) -> bool :=
  option_eqb (list_eqb e).

Fixpoint lookup {K V} (e : K -> K -> bool) (k : K) (m : list (K * V)) : option V :=
  match m with
  | [] => None
  | (k', v) :: r => if e k k' then Some v else lookup e k r
  end.
Fixpoint update {K V} (e : K -> K -> bool) (k : K) (v : V) (m : list (K * V)) : list (K * V) :=
  match m with
  | [] => [(k, v)]
  | (k', v') :: r => if e k k' then (k, v) :: r else (k', v') :: update e k v r
  end.

Definition two63 : Z := 9223372036854775808.
Definition two64 : Z := 18446744073709551616.
Definition to_int64 (z : Z) : Z := if z <? two63 then z else z - two64.   (* int64(uint64) *)
Definition to_uint64 (z : Z) : Z := if z <? 0 then z + two64 else z.      (* uint64(int64) *)

(* hex.DecodeString *)
Inductive sigstr := SHex (b : hex) | SRaw (s : string).
Definition sig_eqb (a b : sigstr) : bool :=
  match a, b with
  | SHex x, SHex y => Z.eqb x y
  | SRaw x, SRaw y => String.eqb x y
  | _, _ => false
  end.
Definition hex_digit (c : ascii) : option Z :=
  let n := Z.of_nat (nat_of_ascii c) in
  if (48 <=? n) && (n <=? 57) then Some (n - 48)
  else if (97 <=? n) && (n <=? 102) then Some (n - 87)
  else if (65 <=? n) && (n <=? 70) then Some (n - 55) else None.
Fixpoint hex_norm_aux (acc : Z) (s : string) : option hex :=
  match s with
  | EmptyString => Some acc
  | String c r => match hex_digit c with
                  | Some d => hex_norm_aux (acc * 16 + d) r
                  | None => None
                  end
  end.
Definition hex_decode (s : sigstr) : option hex :=
  match s with
  | SHex b => Some b
  | SRaw r => if Nat.even (String.length r) then hex_norm_aux 1 r else None
  end.

(* ---------------------------------------------------------------------------------------- *)
(* data                                                                                      *)
(* ---------------------------------------------------------------------------------------- *)
Record variant := { g_len : bool; g_sig : bool; g_slot : bool }.
Definition as_found : variant := {| g_len := false; g_sig := false; g_slot := false |}.
Definition repaired : variant := {| g_len := true; g_sig := true; g_slot := true |}.

(* app.BridgeVoteExtension after json.Unmarshal *)
Record att := { a_snap : obytes; a_sig : obytes }.
Record vext := { x_atts : list att; x_sigA : obytes; x_sigB : obytes; x_vsig : obytes; x_vts : Z }.

(* abci.ExtendedVoteInfo with the harness-measured facts about it *)
Record vote := {
  v_flag : Z;                 (* BlockIdFlag: 0 unknown 1 absent 2 commit 3 nil *)
  v_ext  : option vext;       (* None: json.Unmarshal of the extension fails *)
  v_op   : option string;     (* operator address of the validator with this consensus address *)
  v_aok  : bool;
  v_addr : option string      (* .Hex() of the recovered address *)
}.
Record commit := { c_votes : list vote; c_valid : bool }.

(* the bridge keeper's state as far as the handlers read or write it *)
Record bstate := {
  s_evm     : list (string * hex);        (* OperatorToEVMAddressMap *)
  s_vsigs   : list (Z * list hex);        (* BridgeValsetSignaturesMap: timestamp -> signature array *)
  s_tsidx   : list (Z * Z);               (* ValsetTimestampToIdxMap *)
  s_idxts   : list (Z * Z);               (* ValidatorCheckpointIdxMap *)
  s_valsets : list (Z * list hex);        (* BridgeValsetByTimestampMap: EVM addresses in order *)
  s_cur     : option (list hex);          (* BridgeValset (last saved) *)
  s_atts    : list (hex * list hex);      (* SnapshotToAttestationsMap *)
  s_snapvs  : list (hex * list hex)       (* ghost: validator set each snapshot was created under *)
}.
Definition with_evm (st : bstate) (m : list (string * hex)) : bstate :=
  {| s_evm := m; s_vsigs := s_vsigs st; s_tsidx := s_tsidx st; s_idxts := s_idxts st;
     s_valsets := s_valsets st; s_cur := s_cur st; s_atts := s_atts st; s_snapvs := s_snapvs st |}.
Definition with_vsigs (st : bstate) (m : list (Z * list hex)) : bstate :=
  {| s_evm := s_evm st; s_vsigs := m; s_tsidx := s_tsidx st; s_idxts := s_idxts st;
     s_valsets := s_valsets st; s_cur := s_cur st; s_atts := s_atts st; s_snapvs := s_snapvs st |}.
Definition with_atts (st : bstate) (m : list (hex * list hex)) : bstate :=
  {| s_evm := s_evm st; s_vsigs := s_vsigs st; s_tsidx := s_tsidx st; s_idxts := s_idxts st;
     s_valsets := s_valsets st; s_cur := s_cur st; s_atts := m; s_snapvs := s_snapvs st |}.

(* the bridge data of app.VoteExtTx after json.Unmarshal (BlockHeight is not looked at by any handler) *)
Record itx := {
  t_ops   : option (list string);  t_evms  : option (list string);
  t_vops  : option (list string);  t_vts   : option (list Z);      t_vsigs : option (list sigstr);
  t_aops  : option (list string);  t_atts  : option (list obytes); t_snaps : option (list obytes)
}.
Definition itx_eqb (a b : itx) : bool :=
  ol_eqb String.eqb (t_ops a) (t_ops b) && ol_eqb String.eqb (t_evms a) (t_evms b) &&
  ol_eqb String.eqb (t_vops a) (t_vops b) && ol_eqb Z.eqb (t_vts a) (t_vts b) &&
  ol_eqb sig_eqb (t_vsigs a) (t_vsigs b) && ol_eqb String.eqb (t_aops a) (t_aops b) &&
  ol_eqb obytes_eqb (t_atts a) (t_atts b) && ol_eqb obytes_eqb (t_snaps a) (t_snaps b).

Inductive proposal :=
| NoTx                          (* len(req.Txs) = 0 *)
| BadTx                         (* req.Txs[0] does not unmarshal *)
| Tx (l : itx) (c : commit).    (* decoded lists and the embedded ExtendedCommitInfo *)

Inductive verdict := ACCEPT | REJECT | PANIC.
Inductive prep_res := PPanic | PNone | PInj (l : itx).
Inductive pre_res := PHalt | PErr | POk (st : bstate).

(* ---------------------------------------------------------------------------------------- *)
(* Check*FromLastCommit                                                                      *)
(* ---------------------------------------------------------------------------------------- *)
Inductive rres := RPanic | RErr | ROk (a : string).

(* bridge keeper EVMAddressFromSignatures: A is recovered first, then B; each recovery starts with sig[:64]
   (panic when the capacity is below 64: for a json-decoded slice exactly when fewer than 64 bytes) *)
Definition recover (g : variant) (v : vote) (x : vext) : rres :=
  if blen (x_sigA x) <? 64 then (if g_sig g then RErr else RPanic)
  else if negb (v_aok v) then RErr
  else if blen (x_sigB x) <? 64 then (if g_sig g then RErr else RPanic)
  else match v_addr v with Some a => ROk a | None => RErr end.

(* contribution of one vote to (operatorAddresses, evmAddresses); None = panic *)
Definition init_step (g : variant) (st : bstate) (v : vote) : option (list (string * string)) :=
  if negb (v_flag v =? 2) then Some [] else
  match v_ext v with
  | None => Some []
  | Some x =>
    if 0 <? blen (x_sigA x) then
      match recover g v x with
      | RPanic => None
      | RErr => Some []
      | ROk a =>
        match v_op v with
        | None => Some []
        | Some o => match lookup String.eqb o (s_evm st) with
                    | Some _ => Some []            (* already registered *)
                    | None => Some [(o, a)]
                    end
        end
      end
    else Some []
  end.
Fixpoint check_initial (g : variant) (st : bstate) (vs : list vote) : option (list (string * string)) :=
  match vs with
  | [] => Some []
  | v :: r => match init_step g st v with
              | None => None
              | Some l => match check_initial g st r with None => None | Some l' => Some (l ++ l') end
              end
  end.

Definition vsig_step (v : vote) : list (string * Z * sigstr) :=
  if negb (v_flag v =? 2) then [] else
  match v_ext v with
  | None => []
  | Some x => if 0 <? blen (x_vsig x) then
                match v_op v with
                | None => []
                | Some o => [(o, to_int64 (x_vts x), SHex (bkey (x_vsig x)))]   (* hex.EncodeToString *)
                end
              else []
  end.
Definition check_valset (vs : list vote) : list (string * Z * sigstr) := flat_map vsig_step vs.

Definition att_step (v : vote) : list (string * obytes * obytes) :=     (* operator, snapshot, attestation *)
  if negb (v_flag v =? 2) then [] else
  match v_ext v with
  | None => []
  | Some x => match v_op v with
              | None => []
              | Some o => map (fun a => (o, a_snap a, a_sig a)) (x_atts x)
              end
  end.
Definition check_atts (vs : list vote) : list (string * obytes * obytes) := flat_map att_step vs.

Definition fst3 {A B C} (p : A * B * C) : A := fst (fst p).
Definition snd3 {A B C} (p : A * B * C) : B := snd (fst p).
Definition thd3 {A B C} (p : A * B * C) : C := snd p.

Definition lists_of (i : list (string * string)) (s : list (string * Z * sigstr))
           (a : list (string * obytes * obytes)) : itx :=
  {| t_ops := Some (map fst i); t_evms := Some (map snd i);         (* make([]string, 0) when empty *)
     t_vops := nil_or (map fst3 s); t_vts := nil_or (map snd3 s); t_vsigs := nil_or (map thd3 s);
     t_aops := nil_or (map fst3 a); t_atts := nil_or (map thd3 a); t_snaps := nil_or (map snd3 a) |}.

(* the three checks of Prepare/ProcessProposal; None = panic *)
Definition check_all (g : variant) (st : bstate) (vs : list vote) : option itx :=
  match check_initial g st vs with
  | None => None
  | Some i => Some (lists_of i (check_valset vs) (check_atts vs))
  end.

(* PrepareProposalHandler; [en] = req.Height > VoteExtensionsEnableHeight.  The validity of the local
   commit is only logged. *)
Definition prepare (g : variant) (en : bool) (st : bstate) (c : commit) : prep_res :=
  if negb en then PNone else
  match check_all g st (c_votes c) with None => PPanic | Some l => PInj l end.

(* ProcessProposalHandler *)
Definition process (g : variant) (en : bool) (st : bstate) (p : proposal) : verdict :=
  if negb en then ACCEPT else
  match p with
  | NoTx => if g_len g then REJECT else PANIC
  | BadTx => REJECT
  | Tx l c =>
    if negb (c_valid c) then REJECT else
    match check_all g st (c_votes c) with
    | None => PANIC
    | Some l' => if itx_eqb l' l then ACCEPT else REJECT
    end
  end.

(* ---------------------------------------------------------------------------------------- *)
(* PreBlocker                                                                                *)
(* ---------------------------------------------------------------------------------------- *)
Definition parse (tbl : list (string * hex)) (s : string) : hex :=      (* common.HexToAddress(s).Bytes() *)
  match lookup String.eqb s tbl with Some b => b | None => bempty end.

(* for i, val := range vs { if val = own { arr.Set(i, v) } }   (Set ignores i >= len arr) *)
Fixpoint set_where (own : hex) (vs : list hex) (v : hex) (arr : list hex) : list hex :=
  match vs, arr with
  | e :: vs', a :: arr' => (if Z.eqb e own then v else a) :: set_where own vs' v arr'
  | _, _ => arr
  end.

Definition prev_valset (st : bstate) (ts : Z) : option (list hex) :=
  match lookup Z.eqb ts (s_tsidx st) with
  | None => None
  | Some idx => if idx =? 0 then None else
                match lookup Z.eqb (idx - 1) (s_idxts st) with
                | None => None
                | Some pts => lookup Z.eqb pts (s_valsets st)
                end
  end.

(* SetBridgeValsetSignature; every error is only logged by the PreBlocker *)
Definition set_vsig (st : bstate) (o : string) (ts : Z) (sg : sigstr) : bstate :=
  match lookup Z.eqb ts (s_vsigs st), lookup String.eqb o (s_evm st), prev_valset st ts, hex_decode sg with
  | Some arr, Some e, Some pv, Some b => with_vsigs st (update Z.eqb ts (set_where e pv b arr) (s_vsigs st))
  | _, _, _, _ => st
  end.

(* the validator set whose order gives the slot of an attestation *)
Definition slot_valset (g : variant) (st : bstate) (snap : hex) : option (list hex) :=
  if g_slot g then lookup Z.eqb snap (s_snapvs st) else s_cur st.

(* SetOracleAttestation *)
Definition set_att (g : variant) (st : bstate) (o : string) (snap sg : obytes) : bstate :=
  match lookup String.eqb o (s_evm st), slot_valset g st (bkey snap), lookup Z.eqb (bkey snap) (s_atts st) with
  | Some e, Some vs, Some arr =>
      with_atts st (update Z.eqb (bkey snap) (set_where e vs (bkey sg) arr) (s_atts st))
  | _, _, _ => st
  end.

Definition reg_step (tbl : list (string * hex)) (st : bstate) (p : string * string) : bstate :=
  with_evm st (update String.eqb (fst p) (parse tbl (snd p)) (s_evm st)).
Definition vsig_apply (st : bstate) (p : string * Z * sigstr) : bstate :=
  set_vsig st (fst3 p) (to_uint64 (snd3 p)) (thd3 p).
Definition att_apply (g : variant) (st : bstate) (p : string * obytes * obytes) : bstate :=
  set_att g st (fst3 p) (snd3 p) (thd3 p).

Fixpoint zip3 {A B C} (a : list A) (b : list B) (c : list C) : list (A * B * C) :=
  match a, b, c with
  | x :: a', y :: b', z :: c' => (x, y, z) :: zip3 a' b' c'
  | _, _, _ => []
  end.

(* the three loops of the PreBlocker on lists that are long enough *)
Definition apply_lists (g : variant) (tbl : list (string * hex)) (st : bstate) (l : itx) : bstate :=
  let st1 := fold_left (reg_step tbl) (combine (olist (t_ops l)) (olist (t_evms l))) st in
  let st2 := fold_left vsig_apply (zip3 (olist (t_vops l)) (olist (t_vts l)) (olist (t_vsigs l))) st1 in
  fold_left (att_apply g) (zip3 (olist (t_aops l)) (olist (t_snaps l)) (olist (t_atts l))) st2.

Definition shorter {A B} (a : list A) (b : list B) : bool := Nat.ltb (List.length a) (List.length b).
Definition samelen {A B} (a : list A) (b : list B) : bool := Nat.eqb (List.length a) (List.length b).

(* some secondary list is shorter than its operator list: index out of range in the code as found *)
Definition lists_short (l : itx) : bool :=
  shorter (olist (t_evms l)) (olist (t_ops l)) ||
  shorter (olist (t_vts l)) (olist (t_vops l)) || shorter (olist (t_vsigs l)) (olist (t_vops l)) ||
  shorter (olist (t_snaps l)) (olist (t_aops l)) || shorter (olist (t_atts l)) (olist (t_aops l)).
Definition lists_aligned (l : itx) : bool :=
  samelen (olist (t_evms l)) (olist (t_ops l)) &&
  samelen (olist (t_vts l)) (olist (t_vops l)) && samelen (olist (t_vsigs l)) (olist (t_vops l)) &&
  samelen (olist (t_snaps l)) (olist (t_aops l)) && samelen (olist (t_atts l)) (olist (t_aops l)).

Definition pre_block (g : variant) (tbl : list (string * hex)) (en : bool) (st : bstate) (p : proposal) : pre_res :=
  match p with
  | NoTx => POk st                                  (* len(req.Txs) == 0 *)
  | BadTx => if en then PErr else POk st
  | Tx l _ =>
    if negb en then POk st
    else if g_len g then (if lists_aligned l then POk (apply_lists g tbl st l) else PErr)
    else (if lists_short l then PHalt else POk (apply_lists g tbl st l))
  end.

(* ---------------------------------------------------------------------------------------- *)
(* VerifyVoteExtensionHandler                                                                *)
(* ---------------------------------------------------------------------------------------- *)
(* [has_evm]: GetEVMAddressByOperator succeeds for the address the handler derives from
   req.ValidatorAddress; [nreq]: number of attestation requests at height-1 (None: ErrNotFound) *)
Definition verify_ext (ext : option vext) (has_evm : bool) (nreq : option Z) : verdict :=
  match ext with
  | None => if has_evm then REJECT else ACCEPT
  | Some x =>
    let n := Z.of_nat (List.length (x_atts x)) in
    if match nreq with None => 0 <? n | Some k => k <? n end then REJECT
    else if (65 <? blen (x_sigA x)) || (65 <? blen (x_sigB x)) then REJECT
    else if 65 <? blen (x_vsig x) then REJECT
    else ACCEPT
  end.

(* ---------------------------------------------------------------------------------------- *)
(* the property's executable specification                                                   *)
(* ---------------------------------------------------------------------------------------- *)
(* "what the commit's vote extensions contain" *)
Definition expected (st : bstate) (c : commit) : option itx :=
  check_all {| g_len := true; g_sig := true; g_slot := true |} st (c_votes c).

(* "data is attributed to the validator that sent it": every operator named in one of the three operator
   lists of injected data is the operator that the staking state the proposal is checked against gives for the
   consensus address of some commit-flag vote of the extended commit.  (A handler that resolves votes
   from anything else than that state, e.g. from what it saw in earlier blocks, names other operators.) *)
Definition names_sender (vs : list vote) (o : string) : bool :=
  existsb (fun v => (v_flag v =? 2) && option_eqb String.eqb (v_op v) (Some o)) vs.
Definition attributed (vs : list vote) (l : itx) : bool :=
  forallb (names_sender vs) (olist (t_ops l) ++ olist (t_vops l) ++ olist (t_aops l)).

Fixpoint nodupb (l : list hex) : bool :=
  match l with [] => true | x :: r => negb (existsb (Z.eqb x) r) && nodupb r end.

Definition nth_is (l : list hex) (i : nat) (e : hex) : bool :=
  match nth_error l i with Some x => Z.eqb x e | None => false end.

(* positions whose value differs, with the new value; None when the lengths differ *)
Fixpoint changed_from (i : nat) (old new : list hex) : option (list (nat * hex)) :=
  match old, new with
  | [], [] => Some []
  | a :: old', b :: new' =>
      match changed_from (S i) old' new' with
      | None => None
      | Some r => Some (if Z.eqb a b then r else (i, b) :: r)
      end
  | _, _ => None
  end.

(* implementation's projected state after the PreBlocker *)
Record post := { q_evm : list (string * hex); q_vsigs : list (Z * list hex); q_atts : list (hex * list hex) }.
Definition post_of (st : bstate) : post := {| q_evm := s_evm st; q_vsigs := s_vsigs st; q_atts := s_atts st |}.

(* a commit vote of operator [o] whose initial signatures recover the address with bytes [a] *)
Definition vote_registers (tbl : list (string * hex)) (o : string) (a : hex) (v : vote) : bool :=
  (v_flag v =? 2) &&
  match v_ext v, v_op v with
  | Some x, Some o' =>
      String.eqb o o' && (0 <? blen (x_sigA x)) &&
      match recover repaired v x with ROk s => Z.eqb (parse tbl s) a | _ => false end
  | _, _ => false
  end.

Definition reg_kept (st : bstate) (q : post) : bool :=
  forallb (fun p => option_eqb Z.eqb (lookup String.eqb (fst p) (q_evm q)) (Some (snd p))) (s_evm st).
Definition reg_signed (tbl : list (string * hex)) (st : bstate) (vs : list vote) (q : post) : bool :=
  forallb (fun p => match lookup String.eqb (fst p) (s_evm st) with
                    | Some _ => true
                    | None => existsb (vote_registers tbl (fst p) (snd p)) vs
                    end) (q_evm q).
Definition reg_unique (st : bstate) (q : post) : bool :=
  negb (nodupb (map snd (s_evm st))) || nodupb (map snd (q_evm q)).

(* a commit vote carrying valset signature [nv] for timestamp [ts] whose sender owns slot [i] *)
Definition vote_signs (st : bstate) (q : post) (ts : Z) (i : nat) (nv : hex) (v : vote) : bool :=
  (v_flag v =? 2) &&
  match v_ext v, v_op v with
  | Some x, Some o =>
      (x_vts x =? ts) && (0 <? blen (x_vsig x)) && Z.eqb (bkey (x_vsig x)) nv &&
      match lookup String.eqb o (q_evm q), prev_valset st ts with
      | Some e, Some pv => nth_is pv i e
      | _, _ => false
      end
  | _, _ => false
  end.
Definition vsigs_ok (st : bstate) (vs : list vote) (q : post) : bool :=
  list_eqb Z.eqb (map fst (s_vsigs st)) (map fst (q_vsigs q)) &&
  forallb (fun p => match lookup Z.eqb (fst p) (s_vsigs st) with
                    | None => false
                    | Some old => match changed_from 0 old (snd p) with
                                  | None => false
                                  | Some ch => forallb (fun c => existsb (vote_signs st q (fst p) (fst c) (snd c)) vs) ch
                                  end
                    end) (q_vsigs q).

(* a commit vote carrying attestation [nv] on snapshot [s] whose sender owns slot [i] of that snapshot *)
Definition vote_attests (st : bstate) (q : post) (s : hex) (i : nat) (nv : hex) (v : vote) : bool :=
  (v_flag v =? 2) &&
  match v_ext v, v_op v with
  | Some x, Some o =>
      existsb (fun a => Z.eqb (bkey (a_snap a)) s && Z.eqb (bkey (a_sig a)) nv) (x_atts x) &&
      match lookup String.eqb o (q_evm q), lookup Z.eqb s (s_snapvs st) with
      | Some e, Some sv => nth_is sv i e
      | _, _ => false
      end
  | _, _ => false
  end.
Definition atts_ok (st : bstate) (vs : list vote) (q : post) : bool :=
  list_eqb Z.eqb (map fst (s_atts st)) (map fst (q_atts q)) &&
  forallb (fun p => match lookup Z.eqb (fst p) (s_atts st) with
                    | None => false
                    | Some old => match changed_from 0 old (snd p) with
                                  | None => false
                                  | Some ch => forallb (fun c => existsb (vote_attests st q (fst p) (fst c) (snd c)) vs) ch
                                  end
                    end) (q_atts q).

Definition spec_state (tbl : list (string * hex)) (st : bstate) (vs : list vote) (q : post) (other : bool) : issues :=
  spec_if (reg_kept st q) "state: a registered EVM address was overwritten or removed" ++
  spec_if (reg_signed tbl st vs q) "state: EVM address registered without the operator's signed initial signatures" ++
  spec_if (reg_unique st q) "state: one EVM address is held by two operators" ++
  spec_if (vsigs_ok st vs q) "state: validator-set signature outside the slot of the validator that sent it" ++
  spec_if (atts_ok st vs q) "state: attestation outside the slot of the validator that sent it" ++
  spec_if other "state: store entries outside the three bridge maps changed".

(* ---------------------------------------------------------------------------------------- *)
(* cases                                                                                     *)
(* ---------------------------------------------------------------------------------------- *)
Inductive pre_out := QHalt | QErr | QOk (q : post).

Record mutant := {
  m_prop : proposal;
  m_verdict : verdict;            (* real ProcessProposalHandler *)
  m_pre : option pre_out;         (* real PreBlocker on it (run when accepted, and in the arbitrary driver) *)
  m_other : bool
}.

Inductive c17_case :=
| CPipe (en : bool) (tbl : list (string * hex)) (st : bstate) (c : commit)
        (prep : prep_res)         (* real PrepareProposalHandler on the commit *)
        (main : option mutant)    (* real ProcessProposalHandler / PreBlocker on Prepare's own output *)
        (muts : list mutant)      (* the same on single-field mutations of it *)
| CArb (en : bool) (tbl : list (string * hex)) (st : bstate) (m : mutant)
(* several handler instances with different histories (one that has processed earlier blocks on other
   staking states, one created for this block) on ONE state and ONE extended commit *)
| CPeer (en : bool) (tbl : list (string * hex)) (st : bstate) (c : commit)
        (preps : list prep_res)   (* real PrepareProposalHandler of every instance *)
        (runs : list mutant)      (* real ProcessProposalHandler / PreBlocker of every instance on every instance's proposal *)
| CVerify (ext : option vext) (has_evm : bool) (nreq : option Z) (v : verdict).

(* ---- comparison of maps as maps ---- *)
Definition sub_map {K} (e : K -> K -> bool) (a b : list (K * list hex)) : bool :=
  forallb (fun p => match lookup e (fst p) b with Some v => list_eqb Z.eqb (snd p) v | None => false end) a.
Definition map_eqb {K} (e : K -> K -> bool) (a b : list (K * list hex)) : bool := sub_map e a b && sub_map e b a.
Definition sub_evm (a b : list (string * hex)) : bool :=
  forallb (fun p => option_eqb Z.eqb (lookup String.eqb (fst p) b) (Some (snd p))) a.
Definition post_eqb (a b : post) : bool :=
  sub_evm (q_evm a) (q_evm b) && sub_evm (q_evm b) (q_evm a) &&
  map_eqb Z.eqb (q_vsigs a) (q_vsigs b) && map_eqb Z.eqb (q_atts a) (q_atts b).

Definition verdict_eqb (a b : verdict) : bool :=
  match a, b with ACCEPT, ACCEPT | REJECT, REJECT | PANIC, PANIC => true | _, _ => false end.
Definition prep_eqb (a b : prep_res) : bool :=
  match a, b with
  | PPanic, PPanic | PNone, PNone => true
  | PInj x, PInj y => itx_eqb x y
  | _, _ => false
  end.
Definition pre_agree (model : pre_res) (impl : pre_out) : bool :=
  match model, impl with
  | PHalt, QHalt | PErr, QErr => true
  | POk st, QOk q => post_eqb (post_of st) q
  | _, _ => false
  end.

(* ---- (ii) model against implementation, for one variant ---- *)
Definition diff_mutant (g : variant) (en : bool) (tbl : list (string * hex)) (st : bstate) (m : mutant) : issues :=
  diff_if (verdict_eqb (process g en st (m_prop m)) (m_verdict m)) "ProcessProposalHandler verdict" ++
  match m_pre m with
  | None => []
  | Some o => diff_if (pre_agree (pre_block g tbl en st (m_prop m)) o) "PreBlocker state"
  end.

Definition diffs (g : variant) (c : c17_case) : issues :=
  match c with
  | CPipe en tbl st cm prep main muts =>
      diff_if (prep_eqb (prepare g en st cm) prep) "PrepareProposalHandler output" ++
      match main with None => [] | Some m => diff_mutant g en tbl st m end ++
      flat_map (diff_mutant g en tbl st) muts
  | CArb en tbl st m => diff_mutant g en tbl st m
  | CPeer en tbl st cm preps runs =>
      flat_map (fun prep => diff_if (prep_eqb (prepare g en st cm) prep) "PrepareProposalHandler output") preps ++
      flat_map (diff_mutant g en tbl st) runs
  | CVerify ext has_evm nreq v => diff_if (verdict_eqb (verify_ext ext has_evm nreq) v) "VerifyVoteExtensionHandler verdict"
  end.

(* the code variants the implementation may be in: F42 as found; F27 and F41 as found or repaired *)
Definition impl_variants : list variant :=
  [ {| g_len := true;  g_sig := true;  g_slot := false |};
    {| g_len := false; g_sig := false; g_slot := false |};
    {| g_len := true;  g_sig := false; g_slot := false |};
    {| g_len := false; g_sig := true;  g_slot := false |} ].

Definition is_nil {A} (l : list A) : bool := match l with [] => true | _ => false end.
Definition c17_diffs (c : c17_case) : issues :=
  let ds := map (fun g => diffs g c) impl_variants in
  if existsb is_nil ds then [] else hd [] ds.

(* ---- (i) the specification on the implementation's own outputs ---- *)
(* a commit vote whose initial signatures make sig[:64] fail (signature of finding F41) *)
Definition vote_short_sig (v : vote) : bool :=
  (v_flag v =? 2) &&
  match v_ext v with
  | Some x => (0 <? blen (x_sigA x)) && match recover as_found v x with RPanic => true | _ => false end
  | None => false
  end.
Definition prop_commit (p : proposal) : list vote := match p with Tx _ c => c_votes c | _ => [] end.
(* an empty proposal or parallel lists of different length (signature of finding F27) *)
Definition prop_malformed (p : proposal) : bool :=
  match p with NoTx => true | BadTx => false | Tx l _ => negb (lists_aligned l) end.

Definition panic_process (p : proposal) : issues :=
  match p with
  | NoTx => [Spec "panic in ProcessProposalHandler: empty proposal"]
  | _ => if existsb vote_short_sig (prop_commit p)
         then [Spec "panic in ProcessProposalHandler: initial signature shorter than 64 bytes"]
         else [Spec "panic in ProcessProposalHandler"]
  end.
Definition panic_preblock (p : proposal) : issues :=
  if prop_malformed p then [Spec "panic in PreBlocker: parallel lists of different length"]
  else [Spec "panic in PreBlocker"].

Definition spec_mutant (main : bool) (en : bool) (tbl : list (string * hex)) (st : bstate) (m : mutant) : issues :=
  (if verdict_eqb (m_verdict m) PANIC then panic_process (m_prop m) else []) ++
  match m_pre m with Some QHalt => panic_preblock (m_prop m) | _ => [] end ++
  match m_prop m with
  | Tx l c =>
      if negb en then [] else
      (if main then spec_if (negb (c_valid c) || verdict_eqb (m_verdict m) ACCEPT || verdict_eqb (m_verdict m) PANIC)
                            "coherence: the proposal built from a valid extended commit is not accepted" else []) ++
      if verdict_eqb (m_verdict m) ACCEPT then
        spec_if (c_valid c && option_eqb itx_eqb (expected st c) (Some l))
                "tamper: an accepted proposal differs from what its commit's vote extensions contain" ++
        match m_pre m with
        | Some (QOk q) => spec_state tbl st (c_votes c) q (m_other m)
        | Some QErr => [Spec "state: PreBlocker failed on an accepted proposal"]
        | _ => []
        end
      else []
  | _ => if en then spec_if (negb (verdict_eqb (m_verdict m) ACCEPT)) "tamper: a proposal without decodable bridge data is accepted" else []
  end.

(* one output of PrepareProposalHandler on the commit [cm] *)
Definition spec_prep (en : bool) (st : bstate) (cm : commit) (prep : prep_res) : issues :=
  match prep with
  | PPanic => if existsb vote_short_sig (c_votes cm)
              then [Spec "panic in PrepareProposalHandler: initial signature shorter than 64 bytes"]
              else [Spec "panic in PrepareProposalHandler"]
  | PNone => spec_if (negb en) "coherence: no bridge data injected although vote extensions are enabled"
  | PInj l => spec_if (en && option_eqb itx_eqb (expected st cm) (Some l))
                      "injected data differs from what the commit's vote extensions contain" ++
              spec_if (attributed (c_votes cm) l)
                      "attribution: injected data is attributed to another validator than the one that sent it"
  end.

Definition preps_agree (preps : list prep_res) : bool :=
  match preps with [] => true | p :: r => forallb (prep_eqb p) r end.

(* the proposal is what an honest proposer builds on this state: a valid commit and exactly its data *)
Definition honest_proposal (st : bstate) (p : proposal) : bool :=
  match p with
  | Tx l c => c_valid c && option_eqb itx_eqb (expected st c) (Some l)
  | _ => false
  end.

(* one run of some instance's ProcessProposalHandler / PreBlocker on some instance's proposal *)
Definition spec_peer_run (en : bool) (tbl : list (string * hex)) (st : bstate) (m : mutant) : issues :=
  spec_if (negb en || negb (honest_proposal st (m_prop m)) || verdict_eqb (m_verdict m) ACCEPT)
          "coherence: an honest proposal built on the same state was rejected by an honest validator" ++
  spec_mutant false en tbl st m.

Definition c17_specs (c : c17_case) : issues :=
  match c with
  | CPipe en tbl st cm prep main muts =>
      spec_prep en st cm prep ++
      match main with None => [] | Some m => spec_mutant true en tbl st m end ++
      flat_map (spec_mutant false en tbl st) muts
  | CArb en tbl st m => spec_mutant false en tbl st m
  | CPeer en tbl st cm preps runs =>
      flat_map (spec_prep en st cm) preps ++
      spec_if (preps_agree preps)
              "coherence: two honest proposers on the same state and extended commit built different proposals" ++
      flat_map (spec_peer_run en tbl st) runs
  | CVerify ext has_evm nreq v =>
      spec_if (negb (verdict_eqb v PANIC)) "panic in VerifyVoteExtensionHandler" ++
      match ext with
      | Some x =>
          let oversized := (65 <? blen (x_sigA x)) || (65 <? blen (x_sigB x)) || (65 <? blen (x_vsig x)) in
          let n := Z.of_nat (List.length (x_atts x)) in
          let too_many := match nreq with None => 0 <? n | Some k => k <? n end in
          spec_if (negb oversized || verdict_eqb v REJECT) "verify: an oversized signature field is accepted" ++
          spec_if (negb too_many || verdict_eqb v REJECT) "verify: more attestations than requests are accepted" ++
          spec_if (oversized || too_many || verdict_eqb v ACCEPT) "verify: an extension within the size and count limits is not accepted"
      | None => []
      end
  end.

Definition c17_check (c : c17_case) : issues := c17_specs c ++ c17_diffs c.

(* ---------------------------------------------------------------------------------------- *)
(* signature predicates of the known-finding classes                                         *)
(* ---------------------------------------------------------------------------------------- *)
(* F28: the registrations of an accepted proposal give one address to two operators *)
Definition dup_registration (tbl : list (string * hex)) (st : bstate) (p : proposal) : bool :=
  match p with
  | Tx l c => nodupb (map snd (s_evm st)) &&
              negb (nodupb (map snd (s_evm (fold_left (reg_step tbl) (combine (olist (t_ops l)) (olist (t_evms l))) st))))
  | _ => false
  end.
(* F42: an attestation of the proposal lands in another slot (or in none) when the slot is taken from the
   snapshot's own validator set instead of the current one *)
Definition stale_slot (tbl : list (string * hex)) (st : bstate) (p : proposal) : bool :=
  match p with
  | Tx l c => lists_aligned l &&
              negb (map_eqb Z.eqb
                      (s_atts (apply_lists {| g_len := true; g_sig := true; g_slot := false |} tbl st l))
                      (s_atts (apply_lists {| g_len := true; g_sig := true; g_slot := true |} tbl st l)))
  | _ => false
  end.

Definition mutants_of (c : c17_case) : list mutant :=
  match c with
  | CPipe _ _ _ _ _ main muts => match main with Some m => m :: muts | None => muts end
  | CArb _ _ _ m => [m]
  | CPeer _ _ _ _ _ runs => runs
  | CVerify _ _ _ _ => []
  end.
Definition case_env (c : c17_case) : list (string * hex) * bstate :=
  match c with
  | CPipe _ tbl st _ _ _ _ | CArb _ tbl st _ | CPeer _ tbl st _ _ _ => (tbl, st)
  | CVerify _ _ _ _ => ([], {| s_evm := []; s_vsigs := []; s_tsidx := []; s_idxts := []; s_valsets := [];
                                s_cur := None; s_atts := []; s_snapvs := [] |})
  end.
Definition case_votes (c : c17_case) : list vote :=
  match c with CPipe _ _ _ cm _ _ _ | CPeer _ _ _ cm _ _ => c_votes cm | _ => [] end ++
  flat_map (fun m => prop_commit (m_prop m)) (mutants_of c).

Definition c17_classes (c : c17_case) : list string :=
  let (tbl, st) := case_env c in
  let accepted := filter (fun m => verdict_eqb (m_verdict m) ACCEPT) (mutants_of c) in
  (if existsb vote_short_sig (case_votes c) then ["F41"] else []) ++
  (if existsb (fun m => prop_malformed (m_prop m)) (mutants_of c) then ["F27"] else []) ++
  (if existsb (fun m => dup_registration tbl st (m_prop m)) accepted then ["F28"] else []) ++
  (if existsb (fun m => stale_slot tbl st (m_prop m)) accepted then ["F42"] else []).
