(* C01 — determinism.  Every Go construct whose behaviour may differ between two executions of
   the same input (map iteration, wall clock, goroutines) is an explicit parameter of the
   model; the theorems say the results do not depend on it.  Which such constructs exist in the
   consensus packages is re-extracted from the source on every run (SitesCase). *)
From Coq Require Import ZArith List Bool String.
From Verif Require Import Base.Harness Model.OracleAgg Model.Rewards.
Import ListNotations.
Open Scope Z_scope.

(* ---- bridge PowerDiff: sum of |v| over a Go map, any iteration order ---------------------- *)
Fixpoint pd_set (m : list (Z * Z)) (k v : Z) : list (Z * Z) :=
  match m with
  | [] => [(k, v)]
  | x :: t => if fst x =? k then (k, v) :: t else x :: pd_set t k v
  end.
Fixpoint pd_get (m : list (Z * Z)) (k : Z) : option Z :=
  match m with [] => None | x :: t => if fst x =? k then Some (snd x) else pd_get t k end.

Definition pd_map (b c : list (Z * Z)) : list (Z * Z) :=
  let m1 := fold_left (fun m bv => pd_set m (fst bv) (snd bv)) b [] in
  fold_left (fun m bv => match pd_get m (fst bv) with
                         | Some v => pd_set m (fst bv) (v - snd bv)
                         | None => pd_set m (fst bv) (- snd bv) end) c m1.

Definition pd_delta (values_in_order : list Z) : Z := fold_left (fun d v => d + Z.abs v) values_in_order 0.

Definition pd_total (b : list (Z * Z)) : Z := fold_left (fun s bv => s + snd bv) b 0.

(* [order] = the map's values in iteration order *)
Definition power_diff_ord (order : list Z) (b : list (Z * Z)) : Z :=
  if pd_total b =? 0 then 0 else Z.quot (pd_delta order * 1000000) (pd_total b).

Definition power_diff (b c : list (Z * Z)) : Z := power_diff_ord (map snd (pd_map b c)) b.

(* ---- sites covered by a theorem or an off-consensus justification -------------------------- *)
Definition covered_map_sites : list string :=
  [ "x/oracle/keeper:Keeper.WeightedMode";      (* C01_mode_order_independent *)
    "x/oracle/keeper:Keeper.AllocateRewards";   (* C01_rewards_order_independent: sorted by address before use *)
    "x/bridge/keeper:Keeper.PowerDiff";         (* C01_powerdiff_order_independent: commutative sum *)
    "daemons/server/types/pricefeed:ExchangeToPrice.GetValidPrices";  (* price daemon, off-chain; median sorts (C20) *)
    "lib:GetSortedKeys";                        (* collect-then-sort helper *)
    "app:App.AutoCliOpts"; "app:App.ModuleAccountAddrs" (* start-up wiring: map to map / set *)
  ]%string.

Definition covered_nondet : list string :=
  [ "time.Now:x/mint:BeginBlocker";             (* telemetry only: value passed to ModuleMeasureSince *)
    "time.Now:lib/time:TimeProviderImpl.Now";   (* daemons only *)
    "crypto/rand.Read:x/oracle/utils:Salt";     (* client-side helper, not called by keepers *)
    "go:app:New"                                (* daemon start-up in app.New, off the ABCI call graph *)
  ]%string.

(* in-memory state of consensus objects (struct fields and package variables that are, or contain, a map, a channel,
   a sync primitive or a pointer to a struct of the module), as the scanner reports them.  None of these is written
   or read on the path of a block: *)
Definition covered_state : list string :=
  [ (* the application object: daemon clients / servers (off the ABCI path) and the store-key tables built once in New *)
    "field:app:App.DaemonHealthMonitor (pointer to HealthMonitor)"; "field:app:App.PriceFeedClient (pointer to Client)";
    "field:app:App.ReporterClient (pointer to Client)"; "field:app:App.Server (pointer to Server)";
    "field:app:App.TokenBridgeClient (pointer to Client)";
    "field:app:App.keys (map)"; "field:app:App.memKeys (map)"; "field:app:App.tkeys (map)";
    (* the price daemon's store: off consensus, subject of C20 *)
    "field:daemons/server/types/pricefeed:ExchangeToPrice.exchangeToPriceTimestamp (map)";
    "field:daemons/server/types/pricefeed:MarketToExchangePrices.Mutex (sync)";
    "field:daemons/server/types/pricefeed:MarketToExchangePrices.marketToExchangePrices (map)";
    (* depinject wiring inputs (start-up only) *)
    "field:x/bridge:BridgeInputs.Config (pointer to Module)"; "field:x/dispute:DisputeInputs.Config (pointer to Module)";
    "field:x/mint:MintInputs.Config (pointer to Module)"; "field:x/oracle:OracleInputs.Config (pointer to Module)";
    "field:x/registry/module:RegistryInputs.Config (pointer to Module)"; "field:x/reporter/module:ModuleInputs.Config (pointer to Module)";
    (* module-account permission table (read only after start-up) and a memo of powers of ten (a pure function's table) *)
    "var:app:maccPerms (map)"; "var:lib:bigPow10Memo (map)"
  ]%string.

Definition mem_str (s : string) (l : list string) : bool := existsb (String.eqb s) l.

(* ---- node-local state, abstractly ------------------------------------------------------------------------
   a block handler of a node: [h local store block = (local', store', output)]; [local] is whatever the node keeps in
   memory between blocks.  [local_free]: store and output do not depend on it. *)
Section NodeLocal.
  Context {L S B O : Type} (h : L -> S -> B -> L * S * O).
  Definition local_free : Prop :=
    forall l l' s b, snd (fst (h l s b)) = snd (fst (h l' s b)) /\ snd (h l s b) = snd (h l' s b).
  Fixpoint run_node (l : L) (s : S) (bs : list B) : S * list O :=
    match bs with
    | [] => (s, [])
    | b :: t => let '(l', s', o) := h l s b in let '(sf, os) := run_node l' s' t in (sf, o :: os)
    end.
End NodeLocal.

(* the shape of a cached read that goes wrong: the store holds a number, block [true] writes store := 1 and refreshes
   the cache but the write is then rolled back (store unchanged), block [false] outputs the cached value (filled from
   the store when empty) *)
Definition cached_handler (l : option Z) (s : Z) (b : bool) : option Z * Z * Z :=
  if b then (Some 1, s, 0)
  else match l with Some c => (l, s, c) | None => (Some s, s, s) end.

Inductive c01_case :=
| PowerDiffCase (b c : list (Z * Z)) (impls : list Z)      (* distinct answers of repeated calls *)
| SitesCase (map_sites nondet state : list string)
(* one history executed on two fresh applications: per block (store digest, event digest) *)
| ReplayCase (run1 run2 : list string).

Definition c01_check (c : c01_case) : issues :=
  match c with
  | PowerDiffCase b c impls =>
      spec_if (Nat.leb (List.length impls) 1) "repeated executions of PowerDiff on the same input differ"
      ++ diff_if (forallb (Z.eqb (power_diff b c)) impls) "PowerDiff"
  | SitesCase ms nd st =>
      diff_if (forallb (fun s => mem_str s covered_map_sites) ms) "a map-range site without an order-independence theorem"
      ++ diff_if (forallb (fun s => mem_str s covered_nondet) nd) "a wall-clock / randomness / goroutine site outside the allow-list"
      ++ diff_if (forallb (fun s => mem_str s covered_state) st) "in-memory state of a consensus object (a field or package variable holding a map, lock or pointer to a struct) outside the allow-list"
  | ReplayCase r1 r2 =>
      spec_if (list_eqb String.eqb r1 r2) "two executions of the same history produced different state or events"
  end.

Definition c01_classes (c : c01_case) : list string := [].

(* the mode and reward drivers of C06/C09 record the distinct answers of repeated executions *)
Definition c01_mode_check (c : c06_case) : issues :=
  match c with
  | ModeCase rs impls =>
      spec_if (Nat.leb (List.length impls) 1) "repeated executions of WeightedMode on the same reports differ (equal-weight values not resolved by a fixed rule)"
      ++ diff_if (forallb (opt_agg_eqb (weighted_mode_exec rs)) impls) "weighted mode aggregate"
  | _ => []
  end.

Definition c01_alloc_check (c : c09_case) : issues :=
  match c with
  | AllocCase aggs R impls =>
      spec_if (Nat.leb (List.length impls) 1) "repeated executions of AllocateRewards on the same aggregates differ"
      (* entries with id -2 record the bank transfer (judged by C09), not a payment *)
      ++ diff_if (forallb (fun impl => list_eqb pay_eqb (allocate_rewards true aggs R)
                                         (filter (fun c => let '(id, _, _, _) := c in negb (id =? -2)) impl)) impls) "AllocateRewards payments"
  | _ => []
  end.

(* whole-history replay: the same generated history executed twice on two fresh application instances *)
Inductive c01_replay_case :=
| HistReplayCase (history_seed : Z) (same_observations same_stores same_events same_halt : bool) (store_entries events : Z).

Definition c01_replay_check (c : c01_replay_case) : issues :=
  let 'HistReplayCase _ obs st ev h _ _ := c in
  spec_if obs "two executions of the same history differ in the projected state (balances, ledgers, pools) after some operation"
  ++ spec_if st "two executions of the same history end in different module stores"
  ++ spec_if ev "two executions of the same history emitted different events"
  ++ spec_if h "two executions of the same history differ in whether block processing failed".

Definition c01_replay_classes (c : c01_replay_case) : list string := [].

(* ---- restarted node ------------------------------------------------------------------------------------------
   [run_node_restarting h l0 l s bs]: like [run_node], but every block comes with a flag; when it is set the node is
   restarted before the block: whatever it held in memory is replaced by [l0], the memory of newly constructed keeper
   objects.  The store is untouched by a restart. *)
Section NodeRestart.
  Context {L S B O : Type} (h : L -> S -> B -> L * S * O).
  Fixpoint run_node_restarting (l0 l : L) (s : S) (bs : list (bool * B)) : S * list O :=
    match bs with
    | [] => (s, [])
    | (restart, b) :: t =>
        let '(l', s', o) := h (if restart then l0 else l) s b in
        let '(sf, os) := run_node_restarting l0 l' s' t in (sf, o :: os)
    end.
End NodeRestart.

(* one history executed straight through and once more with the Layer keepers rebuilt (new objects over the same
   stores) before the blocks listed in [restarts]; per block: (digest of all module stores, digest of the block's
   events, digest of the operations' results), as recorded in the node that kept running and in the restarted one *)
Definition block_obs := (string * string * string)%type.
Definition obs_stores (o : block_obs) : string := fst (fst o).
Definition obs_events (o : block_obs) : string := snd (fst o).
Definition obs_results (o : block_obs) : string := snd o.

Inductive c01_restart_case :=
| RestartCase (history_seed : Z) (restarts : list Z) (kept_running restarted : list block_obs)
              (same_observations same_halt : bool) (store_entries events : Z).

Definition c01_restart_check (c : c01_restart_case) : issues :=
  let 'RestartCase _ _ k r obs h _ _ := c in
  spec_if (list_eqb String.eqb (map obs_stores k) (map obs_stores r))
    "a node restarted at a block boundary diverges from a node that kept running: the module stores differ after some block"
  ++ spec_if (list_eqb String.eqb (map obs_events k) (map obs_events r))
    "a node restarted at a block boundary diverges from a node that kept running: the events of some block differ"
  ++ spec_if (list_eqb String.eqb (map obs_results k) (map obs_results r))
    "a node restarted at a block boundary diverges from a node that kept running: the result of some operation differs"
  ++ spec_if obs
    "a node restarted at a block boundary diverges from a node that kept running: the projected state (balances, ledgers, pools) after some operation differs"
  ++ spec_if h
    "a node restarted at a block boundary diverges from a node that kept running: they differ in whether block processing failed".

Definition c01_restart_classes (c : c01_restart_case) : list string := [].
