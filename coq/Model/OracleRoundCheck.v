(* C07 — correspondence cases for the oracle round machine and the executable specification of the
   property, evaluated on the states observed on the real keeper. *)
From Coq Require Import ZArith List Bool String.
From Verif Require Import Base.Harness Model.OracleAgg Model.Halt Model.OracleRound.
Import ListNotations.
Open Scope Z_scope.

Inductive rop :=
| OTip (q : Z) (tip_after_burn : Z)
| OSubmit (q reporter : Z) (stake : option Z) (min_stake : Z) (value : string)
| OEndBlock (ts : Z)
| OUpdateCycle (qs : list Z)
| OUpdateSpec (bridge hits : bool) (w : Z).

Inductive rstep := RStep (h : Z) (op : rop) (accepted : bool) (after : ostate).

Inductive c07_case := RoundCase (qinfos : list qinfo) (init : ostate) (steps : list rstep).

Definition same_set (a b : list Z) : bool :=
  forallb (fun x => existsb (Z.eqb x) b) a && forallb (fun x => existsb (Z.eqb x) a) b.

(* ---- equality of observed and model states -------------------------------------------------------- *)
Definition qmeta_eqb (a b : qmeta) : bool :=
  (m_qid a =? m_qid b) && (m_id a =? m_id b) && (m_amount a =? m_amount b) && (m_expiration a =? m_expiration b)
  && (m_window a =? m_window b) && Bool.eqb (m_has_reports a) (m_has_reports b) && Bool.eqb (m_cycle a) (m_cycle b)
  && Bool.eqb (m_bridge_type a) (m_bridge_type b).
Definition report_eqb (a b : report) : bool :=
  (rp_qid a =? rp_qid b) && (rp_reporter a =? rp_reporter b) && (rp_meta a =? rp_meta b) && (rp_power a =? rp_power b)
  && Bool.eqb (rp_cycle a) (rp_cycle b) && (rp_height a =? rp_height b).
(* the aggregate reporter / micro height and the order of the reporter list (after the median's sort)
   are C06's (compared there); everything else must agree *)
Definition aggr_eqb (a b : aggr) : bool :=
  (ag_qid a =? ag_qid b) && (ag_ts a =? ag_ts b) && (ag_height a =? ag_height b) && (ag_nonce a =? ag_nonce b)
  && (ag_meta a =? ag_meta b) && same_set (ag_reporters a) (ag_reporters b)
  && Nat.eqb (List.length (ag_reporters a)) (List.length (ag_reporters b)) && (ag_power a =? ag_power b)
  && Bool.eqb (ag_flagged a) (ag_flagged b).
Definition pairz_eqb (a b : Z * Z) : bool := (fst a =? fst b) && (snd a =? snd b).

Definition state_diffs (model obs : ostate) : issues :=
  diff_if (list_eqb qmeta_eqb (o_queries model) (o_queries obs)) "Query collection"
  ++ diff_if (list_eqb report_eqb (o_reports model) (o_reports obs)) "Reports collection"
  ++ diff_if (list_eqb Z.eqb (o_cycle model) (o_cycle obs)) "cycle list"
  ++ diff_if (o_seq model =? o_seq obs) "cycle list sequencer"
  ++ diff_if (o_next_meta model =? o_next_meta obs) "query sequencer"
  ++ diff_if (list_eqb aggr_eqb (o_aggs model) (o_aggs obs)) "Aggregates collection"
  ++ diff_if (forallb (fun p => nonce_get (fst p) (o_nonces model) =? snd p) (o_nonces obs)) "Nonces".

Definition qinfo_of (qinfos : list qinfo) (q : Z) : qinfo :=
  match find (fun x => qi_id x =? q) qinfos with Some x => x | None => {| qi_id := q; qi_kind := KGarbage |} end.
Definition kind_of (qinfos : list qinfo) (q : Z) : qkind := qi_kind (qinfo_of qinfos q).

(* the value check of SetValue for the specs in play (uint256 / address...): plain hex of >= 32 bytes *)
Definition value_ok (v : string) : bool := decodable (remove_0x v) && Nat.leb 64 (String.length (remove_0x v)).

(* with_windows: the registry windows are part of the observed state, copied by the harness *)
Definition model_step (qinfos : list qinfo) (prev : ostate) (h : Z) (op : rop) : option ostate :=
  match op with
  | OTip q a => tip prev h (qinfo_of qinfos q) a
  | OSubmit q rep stake mn v =>
      match submit_value prev h (qinfo_of qinfos q) rep stake mn (value_ok v) with inl s => Some s | inr _ => None end
  | OEndBlock ts => end_block prev h ts (kind_of qinfos)
  | OUpdateCycle qs => update_cyclelist prev (map (qinfo_of qinfos) qs)
  | OUpdateSpec bridge hits w => Some (update_data_spec prev bridge hits w)
  end.

(* ---- the property, on observed (prev, after) pairs ---------------------------------------------------- *)
Definition count_reports (qid rep meta : Z) (l : list report) : nat :=
  List.length (filter (fun r => (rp_qid r =? qid) && (rp_reporter r =? rep) && (rp_meta r =? meta)) l).

Definition new_aggs (prev after : ostate) : list aggr :=
  filter (fun a => negb (existsb (fun b => agg_key_eq a b) (o_aggs prev))) (o_aggs after).

Definition closing_rounds (prev : ostate) (h : Z) : list qmeta :=
  filter (fun m => m_has_reports m && (m_expiration m <=? h)) (o_queries prev).

Definition open_window (s : ostate) (h : Z) : bool :=
  match nth_z (o_cycle s) (o_seq s) with
  | Some cur => match current_query cur (o_queries s) with Some m => h <? m_expiration m | None => false end
  | None => false
  end.

Definition step_spec (qinfos : list qinfo) (prev : ostate) (h : Z) (op : rop) (accepted : bool) (after : ostate) : issues :=
  match op with
  | OSubmit q rep stake mn v =>
      if accepted then
        spec_if (accept_spec prev h (qinfo_of qinfos q) stake mn)
                "a report was accepted although its query is neither tipped, scheduled nor a deposit, its window is closed, it is a withdrawal query, or the reporter lacks stake"
        ++ (* exactly one report of this reporter in the round it entered *)
           spec_if (forallb (fun r => negb ((rp_qid r =? q) && (rp_reporter r =? rep)) ||
                                      Nat.eqb (count_reports (rp_qid r) (rp_reporter r) (rp_meta r) (o_reports after)) 1)
                            (o_reports after))
                   "two reports of one reporter in the same round"
      else []
  | OEndBlock ts =>
      let closing := closing_rounds prev h in
      let na := new_aggs prev after in
      spec_if (forallb (fun m => Nat.eqb (List.length (filter (fun a => ag_meta a =? m_id m) na)) 1) closing)
              "a round with reports whose window closed did not produce exactly one aggregate"
      ++ spec_if (forallb (fun a => existsb (fun m => (ag_meta a =? m_id m) && (ag_qid a =? m_qid m)
                                         && same_set (ag_reporters a) (map rp_reporter (reports_of (m_id m) (o_reports prev)))) closing) na)
                 "an aggregate was created that is not the aggregate of a closing round with exactly its reports"
      ++ spec_if (forallb (fun m => negb (existsb (fun y => meta_key_eq m y) (o_queries after))) closing)
                 "an aggregated round did not disappear"
      (* a tip on a round without report stays with the query *)
      ++ spec_if (forallb (fun m => m_has_reports m || (m_amount m =? 0) ||
                                    existsb (fun y => meta_key_eq m y && (m_amount y =? m_amount m)) (o_queries after)) (o_queries prev))
                 "the tip of a round that received no report was lost"
      (* rotation only when the current query has no open window, to the next entry, wrapping *)
      ++ spec_if ((o_seq after =? o_seq prev) ||
                  (negb (open_window (set_aggregated_report prev h ts) h)
                   && (o_seq after =? (o_seq prev + 1) mod Z.max 1 (Z.of_nat (List.length (o_cycle prev))))))
                 "the cycle list moved while the current query still had an open window, or not to the next entry"
  | OUpdateCycle _ => []      (* a replaced list restarts at its first entry *)
  | _ =>
      spec_if (o_seq after =? o_seq prev) "the cycle list moved outside the end blocker" ++
      spec_if (match new_aggs prev after with [] => true | _ => false end) "an aggregate was created outside the end blocker"
  end.

Fixpoint check_steps (qinfos : list qinfo) (prev : ostate) (steps : list rstep) : issues :=
  match steps with
  | [] => []
  | RStep h op accepted after :: t =>
      step_spec qinfos prev h op accepted after
      ++ (match model_step qinfos prev h op with
          | Some m => diff_if accepted "accept/reject" ++ (if accepted then state_diffs m after else [])
          | None => diff_if (negb accepted) "accept/reject"
          end)
      ++ (if accepted then [] else diff_if (match state_diffs prev after with [] => true | _ => false end) "rejected operation changed state")
      ++ check_steps qinfos after t
  end.

Definition c07_check (c : c07_case) : issues :=
  let 'RoundCase qinfos init steps := c in check_steps qinfos init steps.

Definition c07_classes (c : c07_case) : list string := [].
