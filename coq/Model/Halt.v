(* C02 — the places where automatic block processing can return an error, modelled as partial
   functions, and the state invariants that exclude the error branch.  (Other components:
   aggregation in Model/OracleAgg.v, reward payout in Model/Rewards.v, pools in Model/Escrow.v.) *)
From Coq Require Import ZArith List Bool String Ascii.
From Verif Require Import Base.Harness Model.OracleAgg.
Import ListNotations.
Open Scope Z_scope.

(* ---- report values: utils.Remove0xPrefix, hex.DecodeString, big.Int.SetString(.,16) --------- *)
Definition lower (c : ascii) : ascii :=
  let n := N_of_ascii c in if (N.leb 65 n && N.leb n 90)%bool then ascii_of_N (n + 32) else c.
Fixpoint lower_string (s : string) : string :=
  match s with EmptyString => EmptyString | String c r => String (lower c) (lower_string r) end.

Definition remove_0x (s : string) : string :=
  match s with
  | String "0"%char (String c r) => if (Ascii.eqb c "x" || Ascii.eqb c "X")%bool then lower_string r else lower_string s
  | _ => lower_string s
  end.

Fixpoint all_hex (s : string) : bool :=
  match s with EmptyString => true | String c r => (match hexdigit c with Some _ => true | None => false end) && all_hex r end.

(* hex.DecodeString succeeds and yields at least one byte (the ABI decoder needs >= 32) *)
Definition decodable (s : string) : bool :=
  all_hex s && Nat.even (String.length s) && negb (Nat.eqb (String.length s) 0).

(* MsgSubmitValue admission of the value field; normalise = true: the value is stored without
   prefix (after the fix of F02); false: stored as sent (code as found).  None = rejected *)
Definition submit_value_stored (normalise : bool) (v : string) : option string :=
  if decodable (remove_0x v) then Some (if normalise then remove_0x v else v) else None.

(* ---- cycle list rotation ------------------------------------------------------------------- *)
Record cycle := { cy_len : Z; cy_idx : Z }.

(* RotateQueries' sequencer arithmetic *)
Definition rotate (c : cycle) : cycle :=
  {| cy_len := cy_len c; cy_idx := if cy_len c - 1 <=? cy_idx c then 0 else cy_idx c + 1 |}.

(* MsgUpdateCyclelist; reset = true: empty lists rejected and the sequencer restarted (after the
   fix of F04); false: the list is replaced and the sequencer kept (code as found) *)
Definition update_cyclelist (reset : bool) (c : cycle) (new_len : Z) : cycle :=
  if reset then (if 0 <? new_len then {| cy_len := new_len; cy_idx := 0 |} else c)
  else {| cy_len := new_len; cy_idx := cy_idx c |}.

(* GetCurrentQueryInCycleList indexes q[idx]: out of range = panic in the end blocker *)
Definition current_query_ok (c : cycle) : bool := (0 <=? cy_idx c) && (cy_idx c <? cy_len c).

Inductive cyop := CyRotate | CyUpdate (n : Z).
Definition cystep (reset : bool) (c : cycle) (o : cyop) : cycle :=
  match o with CyRotate => rotate c | CyUpdate n => update_cyclelist reset c n end.

(* ---- mint: outputs of SendInflationaryRewards ------------------------------------------------ *)
(* the bank rejects an output without coins; skip_empty = true after the fix of F37 *)
Definition mint_outputs (skip_empty : bool) (p : Z) : list Z :=
  let quarter := Z.quot p 4 in
  (p - quarter) :: (if skip_empty && negb (0 <? quarter) then [] else [quarter]).
Definition outputs_valid (l : list Z) : bool := forallb (fun x => 0 <? x) l.

(* ---- correspondence cases --------------------------------------------------------------------- *)
Inductive c02_case :=
(* a value string; whether the message boundary accepted it; what is stored; whether both end
   blocker parsers (SetString base 16, hex.DecodeString) accept the stored string *)
| ValueCase (v : string) (accepted : bool) (stored : string) (parses : bool)
(* observed (label, cycle list length, sequencer) after each governance update / end block *)
| CycleCase (states : list (string * Z * Z)).

Fixpoint cycle_trans_ok (prev : Z * Z) (l : list (string * Z * Z)) : bool :=
  match l with
  | [] => true
  | (lbl, len, idx) :: t =>
      let c := {| cy_len := fst prev; cy_idx := snd prev |} in
      let same := (len =? fst prev) && (idx =? snd prev) in
      let rot := let c' := rotate c in (len =? cy_len c') && (idx =? cy_idx c') in
      let upd := (0 <? len) && (idx =? 0) in
      (if String.prefix "update/0" lbl then upd
       else if String.prefix "update/" lbl then same
       else same || rot)
      && cycle_trans_ok (len, idx) t
  end.

Definition c02_check (c : c02_case) : issues :=
  match c with
  | ValueCase v accepted stored parses =>
      spec_if (negb accepted || parses) "an accepted report value cannot be parsed by the end blocker"
      ++ diff_if (String.eqb stored (remove_0x v)) "stored value"
      ++ diff_if (negb accepted || match submit_value_stored true v with Some _ => true | None => false end) "value admission"
  | CycleCase states =>
      spec_if (forallb (fun s => let '(_, len, idx) := s in current_query_ok {| cy_len := len; cy_idx := idx |}) states)
              "the cycle-list sequencer points outside the list"
      ++ spec_if (forallb (fun s => let '(lbl, _, _) := s in negb (String.eqb lbl "end/2")) states)
                 "the end blocker failed after a cycle-list history"
      ++ match states with
         | (_, len, idx) :: t => diff_if (cycle_trans_ok (len, idx) t) "cycle list transition"
         | [] => []
         end
  end.

Definition c02_classes (c : c02_case) : list string := [].
