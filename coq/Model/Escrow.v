(* C04 / C03 / C05 — abstract ledger machines.

   The real keepers move coins between a handful of module accounts and keep ledgers next to
   them.  These machines keep exactly that bookkeeping (module balances, total supply, the
   ledgers) and abstract everything else; each operation carries the amounts the real code
   computes (proved to have the stated shape in Proofs/RewardsProofs.v, e.g. credits of one
   payout sum to the reward within one 10^-18 unit per credit).  The history driver evaluates the
   same invariants on the real application after every operation (Model/Ledger.v). *)
From Coq Require Import ZArith List Bool.
From Verif Require Import Base.Dec.
Import ListNotations.
Open Scope Z_scope.

(* ---- oracle tips, reward escrow and supply (C04, C03) -------------------------------------- *)
Record estate := {
  e_supply : Z;
  e_users : Z;            (* everything held outside the module accounts below *)
  e_oracle : Z;           (* oracle module account *)
  e_owed : list (Z * Z);  (* open queries: (query id, unpaid tip) *)
  e_tips : Z;             (* tips escrow pool *)
  e_credits : list (Z * Z); (* selector -> credited rewards, scaled by 10^18 *)
  e_credit_ops : Z;       (* number of credit entries written so far *)
  e_tbr : Z;              (* time based rewards pool *)
  e_feecoll : Z;
  e_bonded : Z            (* bonded pool (only what tip withdrawals add is tracked here) *)
}.

Fixpoint owed_sum (l : list (Z * Z)) : Z := match l with [] => 0 | x :: t => snd x + owed_sum t end.
Fixpoint owed_get (q : Z) (l : list (Z * Z)) : Z :=
  match l with [] => 0 | x :: t => if fst x =? q then snd x else owed_get q t end.
Fixpoint owed_set (q v : Z) (l : list (Z * Z)) : list (Z * Z) :=
  match l with
  | [] => [(q, v)]
  | x :: t => if fst x =? q then (q, v) :: t else x :: owed_set q v t
  end.
Fixpoint owed_remove (q : Z) (l : list (Z * Z)) : list (Z * Z) :=
  match l with
  | [] => []
  | x :: t => if fst x =? q then t else x :: owed_remove q t
  end.

Fixpoint sum_snd (l : list (Z * Z)) : Z := match l with [] => 0 | x :: t => snd x + sum_snd t end.
Fixpoint floor_sum (l : list (Z * Z)) : Z := match l with [] => 0 | x :: t => snd x / P + floor_sum t end.

Inductive eop :=
| ETip (q a : Z)                              (* a user tips a on query q; 2 % is burned *)
| EPayTip (q : Z) (credits : list (Z * Z))    (* aggregate of q: its tip goes to the tips pool and is credited *)
| EPayTbr (credits : list (Z * Z))            (* time based rewards: the whole pool balance *)
| EWithdrawTip (s : Z)                        (* selector s withdraws the whole units of its credit to stake *)
| EMint (p : Z).                              (* block provision: 3/4 to the reward pool, 1/4 to the fee collector *)

(* adding credits to the ledger *)
Fixpoint credit_add (s v : Z) (l : list (Z * Z)) : list (Z * Z) :=
  match l with
  | [] => [(s, v)]
  | x :: t => if fst x =? s then (s, snd x + v) :: t else x :: credit_add s v t
  end.
Definition credits_add (cs : list (Z * Z)) (l : list (Z * Z)) : list (Z * Z) :=
  fold_left (fun acc c => credit_add (fst c) (snd c) acc) cs l.

(* the shape of a payout of m whole units: non-negative credits whose sum is within one 10^-18
   unit per credit of m (C09_credits_sum / C09_sum_exact) *)
Definition payout_ok (m : Z) (cs : list (Z * Z)) : bool :=
  forallb (fun c => 0 <=? snd c) cs
  && (Z.abs (sum_snd cs - m * P) <=? Z.of_nat (length cs)).

(* None = the real transaction is rejected / the operation does not apply: state unchanged *)
Definition estep (s : estate) (o : eop) : option estate :=
  match o with
  | ETip q a =>
      if (0 <? a) && (a <=? e_users s) then
        let burn := Z.quot (a * 2) 100 in
        Some {| e_supply := e_supply s - burn; e_users := e_users s - a; e_oracle := e_oracle s + (a - burn);
                e_owed := owed_set q (owed_get q (e_owed s) + (a - burn)) (e_owed s);
                e_tips := e_tips s; e_credits := e_credits s; e_credit_ops := e_credit_ops s;
                e_tbr := e_tbr s; e_feecoll := e_feecoll s; e_bonded := e_bonded s |}
      else None
  | EPayTip q cs =>
      let m := owed_get q (e_owed s) in
      if (0 <? m) && payout_ok m cs then
        Some {| e_supply := e_supply s; e_users := e_users s; e_oracle := e_oracle s - m;
                e_owed := owed_remove q (e_owed s);
                e_tips := e_tips s + m; e_credits := credits_add cs (e_credits s);
                e_credit_ops := e_credit_ops s + Z.of_nat (length cs);
                e_tbr := e_tbr s; e_feecoll := e_feecoll s; e_bonded := e_bonded s |}
      else None
  | EPayTbr cs =>
      let m := e_tbr s in
      if (0 <? m) && payout_ok m cs then
        Some {| e_supply := e_supply s; e_users := e_users s; e_oracle := e_oracle s; e_owed := e_owed s;
                e_tips := e_tips s + m; e_credits := credits_add cs (e_credits s);
                e_credit_ops := e_credit_ops s + Z.of_nat (length cs);
                e_tbr := 0; e_feecoll := e_feecoll s; e_bonded := e_bonded s |}
      else None
  | EWithdrawTip sel =>
      let c := owed_get sel (e_credits s) in
      let amt := c / P in
      if 0 <? amt then
        Some {| e_supply := e_supply s; e_users := e_users s; e_oracle := e_oracle s; e_owed := e_owed s;
                e_tips := e_tips s - amt; e_credits := owed_set sel (c - amt * P) (e_credits s);
                e_credit_ops := e_credit_ops s;
                e_tbr := e_tbr s; e_feecoll := e_feecoll s; e_bonded := e_bonded s + amt |}
      else None
  | EMint p =>
      if 0 <=? p then
        Some {| e_supply := e_supply s + p; e_users := e_users s; e_oracle := e_oracle s; e_owed := e_owed s;
                e_tips := e_tips s; e_credits := e_credits s; e_credit_ops := e_credit_ops s;
                e_tbr := e_tbr s + (p - Z.quot p 4); e_feecoll := e_feecoll s + Z.quot p 4; e_bonded := e_bonded s |}
      else None
  end.

Definition estep_total (s : estate) (o : eop) : estate := match estep s o with Some s' => s' | None => s end.

Definition supply_delta (s : estate) (o : eop) : Z :=
  match estep s o, o with
  | Some _, ETip _ a => - Z.quot (a * 2) 100
  | Some _, EMint p => p
  | _, _ => 0
  end.

Definition einit (users : Z) : estate :=
  {| e_supply := users; e_users := users; e_oracle := 0; e_owed := []; e_tips := 0; e_credits := [];
     e_credit_ops := 0; e_tbr := 0; e_feecoll := 0; e_bonded := 0 |}.

(* ---- staking pools and ledger (C05) ---------------------------------------------------------- *)
Record pstate := {
  p_bonded : Z; p_bonded_ledger : Z;          (* pool balance / sum of bonded validators' tokens *)
  p_notbonded : Z; p_notbonded_ledger : Z;    (* pool / not-bonded validators' tokens + unbonding entries *)
  p_dispute : Z                                (* dispute escrow *)
}.

Inductive pop :=
| PDelegate (a : Z)                 (* a user delegates a to a bonded validator *)
| PUndelegate (a : Z)               (* bonded -> unbonding entry *)
| PComplete (a : Z)                 (* mature unbonding entry paid out *)
| PValidatorLeaves (t : Z)          (* a validator with t tokens leaves the bonded set *)
| PValidatorEnters (t : Z)
| PEscrowBonded (a : Z)             (* dispute slash / fee from stake: a taken from bonded stake into escrow *)
| PEscrowUnbonding (a : Z)          (* ... taken from unbonding entries *)
| PReturn (amount : Z) (dust : Z) (to_bonded : bool).
                                    (* escrow returns amount; the ledger grows by amount - dust (truncated
                                       shares of the entries); destination validator bonded or not *)

Definition pstep (s : pstate) (o : pop) : option pstate :=
  match o with
  | PDelegate a => if 0 <=? a then Some {| p_bonded := p_bonded s + a; p_bonded_ledger := p_bonded_ledger s + a;
                       p_notbonded := p_notbonded s; p_notbonded_ledger := p_notbonded_ledger s; p_dispute := p_dispute s |} else None
  | PUndelegate a => if (0 <=? a) && (a <=? p_bonded_ledger s) then
                       Some {| p_bonded := p_bonded s - a; p_bonded_ledger := p_bonded_ledger s - a;
                               p_notbonded := p_notbonded s + a; p_notbonded_ledger := p_notbonded_ledger s + a; p_dispute := p_dispute s |} else None
  | PComplete a => if (0 <=? a) && (a <=? p_notbonded_ledger s) then
                       Some {| p_bonded := p_bonded s; p_bonded_ledger := p_bonded_ledger s;
                               p_notbonded := p_notbonded s - a; p_notbonded_ledger := p_notbonded_ledger s - a; p_dispute := p_dispute s |} else None
  | PValidatorLeaves t => if (0 <=? t) && (t <=? p_bonded_ledger s) then
                       Some {| p_bonded := p_bonded s - t; p_bonded_ledger := p_bonded_ledger s - t;
                               p_notbonded := p_notbonded s + t; p_notbonded_ledger := p_notbonded_ledger s + t; p_dispute := p_dispute s |} else None
  | PValidatorEnters t => if (0 <=? t) && (t <=? p_notbonded_ledger s) then
                       Some {| p_bonded := p_bonded s + t; p_bonded_ledger := p_bonded_ledger s + t;
                               p_notbonded := p_notbonded s - t; p_notbonded_ledger := p_notbonded_ledger s - t; p_dispute := p_dispute s |} else None
  | PEscrowBonded a => if (0 <=? a) && (a <=? p_bonded_ledger s) then
                       Some {| p_bonded := p_bonded s - a; p_bonded_ledger := p_bonded_ledger s - a;
                               p_notbonded := p_notbonded s; p_notbonded_ledger := p_notbonded_ledger s; p_dispute := p_dispute s + a |} else None
  | PEscrowUnbonding a => if (0 <=? a) && (a <=? p_notbonded_ledger s) then
                       Some {| p_bonded := p_bonded s; p_bonded_ledger := p_bonded_ledger s;
                               p_notbonded := p_notbonded s - a; p_notbonded_ledger := p_notbonded_ledger s - a; p_dispute := p_dispute s + a |} else None
  | PReturn amount dust to_bonded =>
      if (0 <=? dust) && (dust <=? amount) && (amount <=? p_dispute s) then
        (* coins: escrow -> bonded pool, then on to the not-bonded pool when the destination
           validator is not bonded (after the fix of F11) *)
        if to_bonded then
          Some {| p_bonded := p_bonded s + amount; p_bonded_ledger := p_bonded_ledger s + (amount - dust);
                  p_notbonded := p_notbonded s; p_notbonded_ledger := p_notbonded_ledger s; p_dispute := p_dispute s - amount |}
        else
          Some {| p_bonded := p_bonded s + dust; p_bonded_ledger := p_bonded_ledger s;
                  p_notbonded := p_notbonded s + (amount - dust); p_notbonded_ledger := p_notbonded_ledger s + (amount - dust);
                  p_dispute := p_dispute s - amount |}
      else None
  end.

Definition pstep_total (s : pstate) (o : pop) : pstate := match pstep s o with Some s' => s' | None => s end.

(* the code as found: return to a validator that is no longer bonded credited the not-bonded
   ledger while the coins went to the bonded pool (finding F11) *)
Definition pstep_return_as_found (s : pstate) (amount : Z) : pstate :=
  {| p_bonded := p_bonded s + amount; p_bonded_ledger := p_bonded_ledger s;
     p_notbonded := p_notbonded s; p_notbonded_ledger := p_notbonded_ledger s + amount; p_dispute := p_dispute s - amount |}.
