(* C11 — slashing takes exactly the category's share of the disputed report's stake.

   Executable model of
     x/dispute/keeper/dispute.go            SetNewDispute, SlashAndJailReporter, GetSlashPercentageAndJailDuration, GetDisputeFee
     x/dispute/keeper/msg_server_propose_dispute.go, msg_server_add_fee_to_dispute.go
     x/dispute/abci.go                      CheckOpenDisputesForExpiration (prevote expiry)
     x/reporter/keeper/withdraw.go          EscrowReporterStake, undelegate, deductFromdelegation, deductUnbondingDelegation,
                                            getDstValidator, MoveTokensFromValidator
     x/reporter/keeper/jail.go              JailReporter
     x/oracle/keeper/keeper.go              FlagAggregateReport
   and of the part of x/staking (v0.50.9) they call: Validator.TokensFromShares / SharesFromTokens / RemoveDelShares, Keeper.Unbond.
   Numbers are Z; LegacyDec values are Z scaled by 10^18 (Base/Dec.v).  None = the transaction fails (error or panic):
   nothing is written.

   The code as found has five defects in this area; each is a boolean of [variant] (false = as found, true = repaired):
     fix13  deductUnbondingDelegation removes entries while ranging over them (F13)
     fix34  MoveTokensFromValidator knows no pool for an Unbonded validator (F34)
     fix38  only the first redelegation destination is searched and what it cannot cover is dropped silently (F38)
     fix39  shares are computed against power*10^6 instead of the stake recorded for the report; the last share can be negative (F39/F40)
     fix15  SharesFromTokens rounds down: with an exchange rate other than one the shares unbonded for a slash are worth a unit
            less than the amount recorded (F15); repaired: the smallest number of shares worth the whole amount
   [current] is the code in /repo now (F13, F34, F38 and F15 repaired there, F39 open). *)
From Coq Require Import ZArith List Bool String.
From Verif Require Import Base.Dec Base.Harness.
Import ListNotations.
Open Scope Z_scope.

Record variant := Var { fix13 : bool; fix34 : bool; fix38 : bool; fix39 : bool; fix15 : bool }.
Definition as_found : variant := Var false false false false false.
Definition repaired : variant := Var true true true true true.
Definition current : variant := Var true true true false true.

(* ---- the staking slice ------------------------------------------------------------------------ *)
Record val := Val { v_id : Z; v_tokens : Z; v_shares : Z; v_status : Z }.   (* status 1 unbonded 2 unbonding 3 bonded *)
Record dlg := Dlg { d_del : Z; d_val : Z; d_shares : Z }.
Record ubd := Ubd { u_del : Z; u_val : Z; u_entries : list Z }.            (* balances of the entries, in store order *)
Record origin := Org { o_del : Z; o_val : Z; o_amt : Z }.
Record red := Red { r_src : Z; r_del : Z; r_dst : Z }.                     (* in the order GetRedelegationsFromSrcValidator returns them *)
Record stk := Stk { s_vals : list val; s_dels : list dlg; s_ubds : list ubd;
                    s_bonded : Z; s_notbonded : Z; s_escrow : Z }.

Definition PR : Z := 1000000.   (* layertypes.PowerReduction *)
(* how the harness prints a Dec: whole part and 10^-18 fraction *)
Definition sh (q r : Z) : Z := q * P + r.

Fixpoint find_val (id : Z) (l : list val) : option val :=
  match l with [] => None | v :: t => if v_id v =? id then Some v else find_val id t end.
Fixpoint set_val (n : val) (l : list val) : list val :=
  match l with [] => [] | v :: t => if v_id v =? v_id n then n :: t else v :: set_val n t end.
Fixpoint remove_val (id : Z) (l : list val) : list val :=
  match l with [] => [] | v :: t => if v_id v =? id then t else v :: remove_val id t end.

Definition dlg_is (del vl : Z) (d : dlg) : bool := (d_del d =? del) && (d_val d =? vl).
Fixpoint find_dlg (del vl : Z) (l : list dlg) : option dlg :=
  match l with [] => None | d :: t => if dlg_is del vl d then Some d else find_dlg del vl t end.
Fixpoint set_dlg (n : dlg) (l : list dlg) : list dlg :=
  match l with [] => [] | d :: t => if dlg_is (d_del n) (d_val n) d then n :: t else d :: set_dlg n t end.
Fixpoint remove_dlg (del vl : Z) (l : list dlg) : list dlg :=
  match l with [] => [] | d :: t => if dlg_is del vl d then t else d :: remove_dlg del vl t end.

Definition ubd_is (del vl : Z) (u : ubd) : bool := (u_del u =? del) && (u_val u =? vl).
Fixpoint find_ubd (del vl : Z) (l : list ubd) : option ubd :=
  match l with [] => None | u :: t => if ubd_is del vl u then Some u else find_ubd del vl t end.
Fixpoint set_ubd (n : ubd) (l : list ubd) : list ubd :=
  match l with [] => [] | u :: t => if ubd_is (u_del n) (u_val n) u then n :: t else u :: set_ubd n t end.
Fixpoint remove_ubd (del vl : Z) (l : list ubd) : list ubd :=
  match l with [] => [] | u :: t => if ubd_is del vl u then t else u :: remove_ubd del vl t end.

(* Validator.TokensFromShares: (shares.MulInt(T)).Quo(S); Quo by zero panics *)
Definition tokens_from_shares (v : val) (s : Z) : option Z :=
  if v_shares v =? 0 then None else Some (dec_quo (s * v_tokens v) (v_shares v)).
(* Validator.SharesFromTokens: S.MulInt(a).QuoInt(T); error when T = 0 *)
Definition shares_from_tokens (v : val) (a : Z) : option Z :=
  if v_tokens v =? 0 then None else Some (Z.quot (v_shares v * a) (v_tokens v)).

(* Keeper.Unbond (no coins move): new state and the tokens the shares were worth *)
Definition unbond (st : stk) (del vl sh : Z) : option (stk * Z) :=
  match find_dlg del vl (s_dels st), find_val vl (s_vals st) with
  | Some d, Some v =>
      if d_shares d <? sh then None else
      let dsh := d_shares d - sh in
      let dels' := if dsh =? 0 then remove_dlg del vl (s_dels st) else set_dlg (Dlg del vl dsh) (s_dels st) in
      let remaining := v_shares v - sh in
      let issued := if remaining =? 0 then Some (v_tokens v)
                    else match tokens_from_shares v sh with Some t => Some (truncate_int t) | None => None end in
      match issued with
      | None => None
      | Some iss =>
          let t' := if remaining =? 0 then 0 else v_tokens v - iss in
          if t' <? 0 then None else
          let v' := Val vl t' remaining (v_status v) in
          let vals' := if (remaining =? 0) && (v_status v =? 1) then remove_val vl (s_vals st) else set_val v' (s_vals st) in
          Some (Stk vals' dels' (s_ubds st) (s_bonded st) (s_notbonded st) (s_escrow st), iss)
      end
  | _, _ => None
  end.

(* MoveTokensFromValidator + tokensToDispute; sdk.NewCoin panics on a negative amount, the bank refuses an overdraft *)
Definition move_tokens (vr : variant) (st : stk) (status amount : Z) : option stk :=
  if amount <? 0 then None else
  if status =? 3 then
    if s_bonded st <? amount then None
    else Some (Stk (s_vals st) (s_dels st) (s_ubds st) (s_bonded st - amount) (s_notbonded st) (s_escrow st + amount))
  else if (status =? 2) || ((status =? 1) && fix34 vr) then
    if s_notbonded st <? amount then None
    else Some (Stk (s_vals st) (s_dels st) (s_ubds st) (s_bonded st) (s_notbonded st - amount) (s_escrow st + amount))
  else None.

(* deductFromdelegation: what could not be taken from the delegation (a Dec) *)
Definition deduct_from_delegation (vr : variant) (st : stk) (del vl dt : Z) : option (stk * Z) :=
  match find_dlg del vl (s_dels st) with
  | None => Some (st, dt)
  | Some d =>
      match find_val vl (s_vals st) with
      | None => None
      | Some v =>
          match tokens_from_shares v (d_shares d) with
          | None => None
          | Some cur =>
              let pick := if dt <=? cur
                          then match shares_from_tokens v (round_int dt) with
                               | Some s =>
                                   (* fix15: one more smallest share step when the division was not exact *)
                                   if fix15 vr && (s * v_tokens v <? v_shares v * round_int dt) && (s <? d_shares d)
                                   then Some (s + 1, 0) else Some (s, 0)
                               | None => None
                               end
                          else Some (d_shares d, dt - cur) in
              match pick with
              | None => None
              | Some (sh, rem) =>
                  (* fix15: what is still missing is measured against the whole units that left the delegation *)
                  if sh =? 0 then Some (st, if fix15 vr then Z.max 0 dt else rem) else
                  match unbond st del vl sh with
                  | None => None
                  | Some (st1, removed) =>
                      match move_tokens vr st1 (v_status v) removed with
                      | None => None
                      | Some st2 => Some (st2, if fix15 vr then Z.max 0 (dt - of_int removed) else rem)
                      end
                  end
              end
          end
      end
  end.

(* the loop of deductUnbondingDelegation.
   as found: `for i, u := range ubd.Entries { ... ubd.RemoveEntry(i) ... }` — the range keeps walking the original
   slice header while RemoveEntry shifts the backing array: after a removal the next entry is skipped, and any further
   iteration past the shortened slice panics.  n = number of entries at the start. *)
Fixpoint ubd_loop_found (n : Z) (es : list Z) (t : Z) : option (list Z * Z * Z) :=
  match es with
  | [] => None
  | e :: rest =>
      if e <? t then
        match rest with
        | [] => if n =? 1 then Some ([], e, t - e) else None
        | sk :: rest' =>
            match ubd_loop_found n rest' (t - e) with
            | Some (k, ra, tl) => Some (sk :: k, e + ra, tl)
            | None => None
            end
        end
      else Some ((e - t) :: rest, t, 0)
  end.
(* repaired: entries are consumed in order *)
Fixpoint ubd_loop_fixed (es : list Z) (t : Z) : list Z * Z * Z :=
  match es with
  | [] => ([], 0, t)
  | e :: rest =>
      if e <? t then let '(k, ra, tl) := ubd_loop_fixed rest (t - e) in (k, e + ra, tl)
      else ((e - t) :: rest, t, 0)
  end.
Definition ubd_loop (vr : variant) (es : list Z) (t : Z) : option (list Z * Z * Z) :=
  if fix13 vr then Some (ubd_loop_fixed es t) else ubd_loop_found (Z.of_nat (List.length es)) es t.

(* deductUnbondingDelegation (the unbonding delegation exists): tokens still missing *)
Definition deduct_unbonding (vr : variant) (st : stk) (u : ubd) (t : Z) : option (stk * Z) :=
  match u_entries u with
  | [] => None
  | _ =>
      match ubd_loop vr (u_entries u) t with
      | None => None
      | Some (es', ra, tl) =>
          let ubds' := match es' with
                       | [] => remove_ubd (u_del u) (u_val u) (s_ubds st)
                       | _ => set_ubd (Ubd (u_del u) (u_val u) es') (s_ubds st)
                       end in
          if (ra <? 0) || (s_notbonded st <? ra) then None
          else Some (Stk (s_vals st) (s_dels st) ubds' (s_bonded st) (s_notbonded st - ra) (s_escrow st + ra), tl)
      end
  end.

(* undelegate: delegation first, then the unbonding entries at the same validator; returns what is still missing *)
Definition undelegate (vr : variant) (st : stk) (del vl dt : Z) : option (stk * Z) :=
  match deduct_from_delegation vr st del vl dt with
  | None => None
  | Some (st1, rem) =>
      if rem =? 0 then Some (st1, 0) else
      match find_ubd del vl (s_ubds st1) with
      | None => Some (st1, truncate_int rem)
      | Some u => deduct_unbonding vr st1 u (truncate_int rem)
      end
  end.

(* getDstValidator: destinations of the delegator's redelegations away from vl, in keeper order *)
Definition dsts (reds : list red) (del vl : Z) : list Z :=
  map r_dst (filter (fun r => (r_src r =? vl) && (r_del r =? del)) reds).

(* repaired chase: every destination in turn; what nobody covers is an error *)
Fixpoint chase_all (vr : variant) (st : stk) (del : Z) (ds : list Z) (remaining : Z) (acc : list origin)
  : option (stk * list origin) :=
  if remaining =? 0 then Some (st, acc) else
  match ds with
  | [] => None
  | d :: ds' =>
      match undelegate vr st del d (of_int remaining) with
      | None => None
      | Some (st1, lft) =>
          let took := remaining - lft in
          chase_all vr st1 del ds' lft (if took =? 0 then acc else acc ++ [Org del d took])
      end
  end.

(* one origin of the snapshot: take [share] from (del, vl), then from the redelegation destination *)
Definition escrow_origin (vr : variant) (reds : list red) (st : stk) (del vl share : Z) (acc : list origin)
  : option (stk * list origin) :=
  match undelegate vr st del vl (of_int share) with
  | None => None
  | Some (st1, remaining) =>
      let stored := share - remaining in
      let acc1 := if stored =? 0 then acc else acc ++ [Org del vl stored] in
      if remaining =? 0 then Some (st1, acc1) else
      if fix38 vr then chase_all vr st1 del (dsts reds del vl) remaining acc1
      else
        match dsts reds del vl with
        | [] => None
        | d :: _ =>
            match undelegate vr st1 del d (of_int remaining) with
            | None => None
            | Some (st2, _) => Some (st2, acc1 ++ [Org del d remaining])
            end
        end
  end.

(* math.LegacyNewDecFromInt(a).Quo(NewDecFromInt(total)).Mul(NewDecFromInt(amt)).RoundInt() *)
Definition share_of (a total amt : Z) : Z := round_int (dec_mul (dec_quo (of_int a) (of_int total)) (of_int amt)).

Fixpoint sum_amt (l : list origin) : Z := match l with [] => 0 | o :: t => o_amt o + sum_amt t end.

(* the shares of the origins, in order: rounded pro-rata shares, the last one takes the leftover.
   repaired: a share never exceeds what is left to take *)
Fixpoint shares_go (vr : variant) (total amt : Z) (l : list origin) (leftover : Z) : list Z :=
  match l with
  | [] => []
  | o :: t =>
      let raw := share_of (o_amt o) total amt in
      let sh := if fix39 vr then Z.min raw leftover else raw in
      let leftover' := leftover - sh in
      match t with
      | [] => [sh + leftover']
      | _ => sh :: shares_go vr total amt t leftover'
      end
  end.
Definition escrow_base (vr : variant) (power : Z) (origins : list origin) : Z :=
  if fix39 vr then sum_amt origins else PR * power.
Definition shares (vr : variant) (power amt : Z) (origins : list origin) : list Z :=
  shares_go vr (escrow_base vr power origins) amt origins amt.

Fixpoint escrow_loop (vr : variant) (reds : list red) (st : stk) (os : list origin) (shs : list Z) (acc : list origin)
  : option (stk * list origin) :=
  match os, shs with
  | o :: os', sh :: shs' =>
      match escrow_origin vr reds st (o_del o) (o_val o) sh acc with
      | None => None
      | Some (st1, acc1) => escrow_loop vr reds st1 os' shs' acc1
      end
  | _, _ => Some (st, acc)
  end.

(* EscrowReporterStake (the snapshot was found); the record's Total is [amt] *)
Definition escrow (vr : variant) (reds : list red) (st : stk) (origins : list origin) (power amt : Z)
  : option (stk * list origin) :=
  match origins with
  | [] => Some (st, [])
  | _ =>
      if escrow_base vr power origins =? 0 then None
      else if fix39 vr && negb (Z.quot (sum_amt origins) PR =? power) then None
      else escrow_loop vr reds st origins (shares vr power amt origins) []
  end.

(* ---- categories, amounts -------------------------------------------------------------------------- *)
(* GetSlashPercentageAndJailDuration: percentage in fixed 6, jail seconds (None = no jailing) *)
Definition slash_pct (cat : Z) : option Z :=
  if cat =? 1 then Some (Z.quot PR 100) else if cat =? 2 then Some (Z.quot PR 20) else if cat =? 3 then Some PR else None.
Definition jail_secs (cat : Z) : option Z := if cat =? 1 then Some 0 else if cat =? 2 then Some 600 else None.
(* SlashAndJailReporter's amount *)
Definition slash_amount (power pct : Z) : Z :=
  truncate_int (dec_quo (dec_mul (of_int (power * PR)) (of_int pct)) (of_int PR)).
(* GetDisputeFee *)
Definition dispute_fee (power cat : Z) : option Z :=
  let stake := PR * power in
  if cat =? 1 then Some (truncate_int (dec_quo (dec_mul (of_int stake) (of_int 1)) (of_int 100)))
  else if cat =? 2 then Some (truncate_int (dec_quo (dec_mul (of_int stake) (of_int 5)) (of_int 100)))
  else if cat =? 3 then Some stake else None.

(* ---- the dispute world ---------------------------------------------------------------------------- *)
Record report := Rep { rp_reporter : Z; rp_power : Z; rp_qid : Z; rp_value : Z; rp_time : Z; rp_height : Z;
                       rp_cycle : bool; rp_meta : Z }.
Record agg := Agg { ag_qid : Z; ag_height : Z; ag_reporter : Z; ag_flagged : bool }.
Record snap := Snp { sn_qid : Z; sn_reporter : Z; sn_height : Z; sn_origins : list origin }.
Record disp := Dsp { dp_id : Z; dp_report : report; dp_cat : Z; dp_status : Z; dp_end : Z;
                     dp_fee_total : Z; dp_slash : Z; dp_open : bool }.
Record rcd := Rcd { rc_id : Z; rc_origins : list origin; rc_total : Z }.
Record repst := Rps { rs_acct : Z; rs_jailed : bool; rs_until : Z }.
Record world := W { w_stk : stk; w_reps : list repst; w_aggs : list agg; w_disps : list disp;
                    w_rcds : list rcd; w_bond : list (Z * Z); w_liq : list (Z * Z); w_now : Z }.
Record env := Env { e_reds : list red; e_snaps : list snap; e_stored : list report }.

Definition DAY : Z := 86400 * 1000000000.
Definition ST_PREVOTE : Z := 0.
Definition ST_VOTING : Z := 1.
Definition ST_FAILED : Z := 4.

Definition rep_eqb (a b : report) : bool :=
  (rp_reporter a =? rp_reporter b) && (rp_power a =? rp_power b) && (rp_qid a =? rp_qid b) && (rp_value a =? rp_value b)
  && (rp_time a =? rp_time b) && (rp_height a =? rp_height b) && Bool.eqb (rp_cycle a) (rp_cycle b) && (rp_meta a =? rp_meta b).

Fixpoint find_snap (q r h : Z) (l : list snap) : option snap :=
  match l with [] => None | s :: t => if (sn_qid s =? q) && (sn_reporter s =? r) && (sn_height s =? h) then Some s else find_snap q r h t end.

(* FlagAggregateReport: the first aggregate of that query whose deciding micro report sits at that height and
   comes from that reporter *)
Fixpoint flag_agg (q h r : Z) (l : list agg) : list agg :=
  match l with
  | [] => []
  | a :: t => if (ag_qid a =? q) && (ag_height a =? h) && (ag_reporter a =? r)
              then Agg (ag_qid a) (ag_height a) (ag_reporter a) true :: t
              else a :: flag_agg q h r t
  end.

Fixpoint find_rep (a : Z) (l : list repst) : option repst :=
  match l with [] => None | r :: t => if rs_acct r =? a then Some r else find_rep a t end.
Fixpoint set_rep (n : repst) (l : list repst) : list repst :=
  match l with [] => [] | r :: t => if rs_acct r =? rs_acct n then n :: t else r :: set_rep n t end.

(* reporter keeper JailReporter *)
Definition jail (reps : list repst) (a now secs : Z) : option (list repst) :=
  match find_rep a reps with
  | None => None
  | Some r => if rs_jailed r then None else Some (set_rep (Rps a true (now + secs * 1000000000)) reps)
  end.

(* records are projected in the order of the dispute ids *)
Fixpoint insert_rcd (n : rcd) (l : list rcd) : list rcd :=
  match l with
  | [] => [n]
  | r :: t => if rc_id n <? rc_id r then n :: r :: t else r :: insert_rcd n t
  end.

(* SlashAndJailReporter for dispute [id] *)
Definition slash_and_jail (vr : variant) (e : env) (w : world) (id : Z) (r : report) (cat : Z) : option world :=
  let aggs' := flag_agg (rp_qid r) (rp_height r) (rp_reporter r) (w_aggs w) in
  match slash_pct cat with
  | None => None
  | Some pct =>
      let amt := slash_amount (rp_power r) pct in
      match find_snap (rp_qid r) (rp_reporter r) (rp_height r) (e_snaps e) with
      | None => None
      | Some s =>
          match escrow vr (e_reds e) (w_stk w) (sn_origins s) (rp_power r) amt with
          | None => None
          | Some (st', recd) =>
              let rcds' := insert_rcd (Rcd id recd amt) (w_rcds w) in
              match jail_secs cat with
              | None => Some (W st' (w_reps w) aggs' (w_disps w) rcds' (w_bond w) (w_liq w) (w_now w))
              | Some secs =>
                  match jail (w_reps w) (rp_reporter r) (w_now w) secs with
                  | None => None
                  | Some reps' => Some (W st' reps' aggs' (w_disps w) rcds' (w_bond w) (w_liq w) (w_now w))
                  end
              end
          end
      end
  end.

Fixpoint bond_get (a : Z) (l : list (Z * Z)) : Z :=
  match l with [] => 0 | x :: t => if fst x =? a then snd x else bond_get a t end.
Fixpoint bond_set (a v : Z) (l : list (Z * Z)) : list (Z * Z) :=
  match l with [] => [] | x :: t => if fst x =? a then (a, v) :: t else x :: bond_set a v t end.

(* PayDisputeFee.  From the account: the liquid balance must cover it.
   From bond: the payer's stake sits with one bonded validator outside the slice (exchange rate 1). *)
Definition pay (w : world) (sender amount : Z) (from_bond : bool) : option world :=
  let st := w_stk w in
  if from_bond then
    if bond_get sender (w_bond w) <? amount then None else
    if s_bonded st <? amount then None else
    Some (W (Stk (s_vals st) (s_dels st) (s_ubds st) (s_bonded st - amount) (s_notbonded st) (s_escrow st + amount))
            (w_reps w) (w_aggs w) (w_disps w) (w_rcds w) (bond_set sender (bond_get sender (w_bond w) - amount) (w_bond w)) (w_liq w) (w_now w))
  else
    if bond_get sender (w_liq w) <? amount then None else
    Some (W (Stk (s_vals st) (s_dels st) (s_ubds st) (s_bonded st) (s_notbonded st) (s_escrow st + amount))
            (w_reps w) (w_aggs w) (w_disps w) (w_rcds w) (w_bond w) (bond_set sender (bond_get sender (w_liq w) - amount) (w_liq w)) (w_now w)).

Definition with_disps (w : world) (ds : list disp) : world :=
  W (w_stk w) (w_reps w) (w_aggs w) ds (w_rcds w) (w_bond w) (w_liq w) (w_now w).

Fixpoint next_id (l : list disp) : Z := match l with [] => 1 | d :: t => Z.max (dp_id d + 1) (next_id t) end.
Fixpoint find_disp_report (r : report) (cat : Z) (l : list disp) : option disp :=
  match l with [] => None | d :: t => if rep_eqb (dp_report d) r && (dp_cat d =? cat) then Some d else find_disp_report r cat t end.
Fixpoint find_disp (id : Z) (l : list disp) : option disp :=
  match l with [] => None | d :: t => if dp_id d =? id then Some d else find_disp id t end.
Fixpoint set_disp (n : disp) (l : list disp) : list disp :=
  match l with [] => [] | d :: t => if dp_id d =? dp_id n then n :: t else d :: set_disp n t end.

Inductive op :=
| OPropose (sender : Z) (r : report) (cat fee : Z) (from_bond : bool)
| OAddFee (sender id amount : Z) (from_bond : bool)
| OBegin (now : Z).                       (* next block: time moves to [now]; dispute.BeginBlocker *)

Definition ONE_PERCENT : Z := 10000.

(* msgServer.ProposeDispute -> SetNewDispute.  A second proposal for the same report and category goes to
   AddDisputeRound, which needs status Unresolved: not reachable before a vote was tallied, so rejected here. *)
Definition propose (vr : variant) (e : env) (w : world) (sender : Z) (r : report) (cat fee : Z) (from_bond : bool) : option world :=
  if fee <? ONE_PERCENT then None else
  match find_disp_report r cat (w_disps w) with
  | Some _ => None
  | None =>
      if (rp_power r <? 0) || (9223372036854775807 <? rp_power r) then None else
      match dispute_fee (rp_power r) cat with
      | None => None
      | Some dfee =>
          let paid := if dfee <? fee then dfee else fee in
          let id := next_id (w_disps w) in
          match pay w sender paid from_bond with
          | None => None
          | Some w1 =>
              if paid =? dfee then
                match slash_and_jail vr e w1 id r cat with
                | None => None
                | Some w2 => Some (with_disps w2 (w_disps w2 ++ [Dsp id r cat ST_VOTING (w_now w + 3 * DAY) paid dfee true]))
                end
              else Some (with_disps w1 (w_disps w1 ++ [Dsp id r cat ST_PREVOTE (w_now w + DAY) paid dfee true]))
          end
      end
  end.

(* msgServer.AddFeeToDispute *)
Definition add_fee (vr : variant) (e : env) (w : world) (sender id amount : Z) (from_bond : bool) : option world :=
  if amount <=? 0 then None else
  match find_disp id (w_disps w) with
  | None => None
  | Some d =>
      if (sender =? rp_reporter (dp_report d)) && from_bond then None else
      if dp_end d <? w_now w then None else
      if dp_slash d <=? dp_fee_total d then None else
      let amt := if dp_slash d <? dp_fee_total d + amount then dp_slash d - dp_fee_total d else amount in
      match pay w sender amt from_bond with
      | None => None
      | Some w1 =>
          let total := dp_fee_total d + amt in
          if total =? dp_slash d then
            match slash_and_jail vr e w1 id (dp_report d) (dp_cat d) with
            | None => None
            | Some w2 => Some (with_disps w2 (set_disp (Dsp id (dp_report d) (dp_cat d) ST_VOTING (w_now w + 3 * DAY) total (dp_slash d) (dp_open d)) (w_disps w2)))
            end
          else Some (with_disps w1 (set_disp (Dsp id (dp_report d) (dp_cat d) (dp_status d) (dp_end d) total (dp_slash d) (dp_open d)) (w_disps w1)))
      end
  end.

(* CheckOpenDisputesForExpiration, prevote branch (votes are not tallied inside the modelled horizon) *)
Definition expire (now : Z) (d : disp) : disp :=
  if dp_open d && (dp_end d <? now) && (dp_status d =? ST_PREVOTE)
  then Dsp (dp_id d) (dp_report d) (dp_cat d) ST_FAILED (dp_end d) (dp_fee_total d) (dp_slash d) false else d.
Definition begin_block (w : world) (now : Z) : world :=
  W (w_stk w) (w_reps w) (w_aggs w) (map (expire now) (w_disps w)) (w_rcds w) (w_bond w) (w_liq w) now.

(* a rejected transaction leaves the state as it was *)
Definition step (vr : variant) (e : env) (w : world) (o : op) : bool * world :=
  match o with
  | OPropose s r c f b => match propose vr e w s r c f b with Some w' => (true, w') | None => (false, w) end
  | OAddFee s i a b => match add_fee vr e w s i a b with Some w' => (true, w') | None => (false, w) end
  | OBegin now => (true, begin_block w now)
  end.

Definition run (vr : variant) (e : env) (w : world) (ops : list op) : world :=
  fold_left (fun w o => snd (step vr e w o)) ops w.

(* ================================================================================================= *)
(* equality of projected observables                                                                   *)
Open Scope string_scope.
Open Scope list_scope.
Open Scope Z_scope.
Definition val_eqb (a b : val) := (v_id a =? v_id b) && (v_tokens a =? v_tokens b) && (v_shares a =? v_shares b) && (v_status a =? v_status b).
Definition dlg_eqb (a b : dlg) := (d_del a =? d_del b) && (d_val a =? d_val b) && (d_shares a =? d_shares b).
Definition ubd_eqb (a b : ubd) := (u_del a =? u_del b) && (u_val a =? u_val b) && list_eqb Z.eqb (u_entries a) (u_entries b).
Definition org_eqb (a b : origin) := (o_del a =? o_del b) && (o_val a =? o_val b) && (o_amt a =? o_amt b).
Definition stk_eqb (a b : stk) :=
  list_eqb val_eqb (s_vals a) (s_vals b) && list_eqb dlg_eqb (s_dels a) (s_dels b) && list_eqb ubd_eqb (s_ubds a) (s_ubds b)
  && (s_bonded a =? s_bonded b) && (s_notbonded a =? s_notbonded b) && (s_escrow a =? s_escrow b).
Definition agg_eqb (a b : agg) := (ag_qid a =? ag_qid b) && (ag_height a =? ag_height b) && (ag_reporter a =? ag_reporter b) && Bool.eqb (ag_flagged a) (ag_flagged b).
Definition disp_eqb (a b : disp) :=
  (dp_id a =? dp_id b) && rep_eqb (dp_report a) (dp_report b) && (dp_cat a =? dp_cat b) && (dp_status a =? dp_status b)
  && (dp_end a =? dp_end b) && (dp_fee_total a =? dp_fee_total b) && (dp_slash a =? dp_slash b) && Bool.eqb (dp_open a) (dp_open b).
Definition rcd_eqb (a b : rcd) := (rc_id a =? rc_id b) && list_eqb org_eqb (rc_origins a) (rc_origins b) && (rc_total a =? rc_total b).
Definition repst_eqb (a b : repst) := (rs_acct a =? rs_acct b) && Bool.eqb (rs_jailed a) (rs_jailed b) && (rs_until a =? rs_until b).
Definition pair_eqb (a b : Z * Z) := (fst a =? fst b) && (snd a =? snd b).
Definition world_eqb (a b : world) :=
  stk_eqb (w_stk a) (w_stk b) && list_eqb repst_eqb (w_reps a) (w_reps b) && list_eqb agg_eqb (w_aggs a) (w_aggs b)
  && list_eqb disp_eqb (w_disps a) (w_disps b) && list_eqb rcd_eqb (w_rcds a) (w_rcds b)
  && list_eqb pair_eqb (w_bond a) (w_bond b) && list_eqb pair_eqb (w_liq a) (w_liq b) && (w_now a =? w_now b).

(* the implementation has to behave as the code in /repo now ([current]) or as that code with further defects of the
   list repaired (so that a later repair of an open finding does not break the correspondence, while taking a repair
   out does); [current] first: evaluation stops at the first assignment that fits *)
Definition at_least (a b : variant) : bool :=
  implb (fix13 a) (fix13 b) && implb (fix34 a) (fix34 b) && implb (fix38 a) (fix38 b) && implb (fix39 a) (fix39 b) && implb (fix15 a) (fix15 b).
Definition every_variant : list variant :=
  flat_map (fun a => flat_map (fun b => flat_map (fun c => flat_map (fun d => map (fun e => Var a b c d e) [false; true]) [false; true]) [false; true]) [false; true]) [false; true].
Definition variant_eqb (a b : variant) : bool := at_least a b && at_least b a.
Definition all_variants : list variant :=
  current :: filter (fun v => at_least current v && negb (variant_eqb v current)) every_variant.
Fixpoint lazy_exists {A} (f : A -> bool) (l : list A) : bool :=
  match l with [] => false | a :: t => if f a then true else lazy_exists f t end.

(* ================================================================================================= *)
(* the executable specification, evaluated on the implementation's own outputs                         *)

(* what a delegator holds: the token value of its delegations plus its unbonding balances *)
Definition dlg_value (st : stk) (d : dlg) : Z :=
  match find_val (d_val d) (s_vals st) with
  | Some v => match tokens_from_shares v (d_shares d) with Some t => truncate_int t | None => 0 end
  | None => 0
  end.
Fixpoint sum_z (l : list Z) : Z := match l with [] => 0 | x :: t => x + sum_z t end.
Definition holdings (st : stk) (del : Z) : Z :=
  sum_z (map (dlg_value st) (filter (fun d => d_del d =? del) (s_dels st)))
  + sum_z (map (fun u => sum_z (u_entries u)) (filter (fun u => u_del u =? del) (s_ubds st))).

(* the delegations of [del] at validators whose exchange rate is not one token per share *)
Definition inexact_dels (st : stk) (del : Z) : Z :=
  Z.of_nat (List.length (filter (fun d => (d_del d =? del)
                                          && match find_val (d_val d) (s_vals st) with
                                             | Some v => negb (v_shares v =? v_tokens v * P)
                                             | None => false
                                             end) (s_dels st))).

Fixpoint dedup (l : list Z) : list Z :=
  match l with [] => [] | x :: t => if existsb (Z.eqb x) t then dedup t else x :: dedup t end.
Definition backers (os : list origin) : list Z := dedup (map o_del os).
Definition amt_of (del : Z) (os : list origin) : Z := sum_amt (filter (fun o => o_del o =? del) os).
Definition count_of (del : Z) (os : list origin) : Z := Z.of_nat (List.length (filter (fun o => o_del o =? del) os)).
Definition last_del (os : list origin) : Z := match rev os with o :: _ => o_del o | [] => -1 end.

(* a slash of [amt] for a report backed by [origins]; [fee_escrow] / [fee_pools] = what the same transaction
   paid into escrow as fee / took out of the staking pools as fee *)
Definition escrow_spec (st0 st1 : stk) (origins : list origin) (amt : Z) (recd : list origin) (rtotal : Z)
           (fee_escrow fee_pools : Z) : issues :=
  let T := sum_amt origins in
  let n := Z.of_nat (List.length origins) in
  let bs := backers origins in
  spec_if (rtotal =? amt) "escrow: recorded total is not the slash amount"
  ++ spec_if (sum_amt recd =? amt) "escrow: recorded amounts do not add up to the slash amount"
  ++ spec_if (forallb (fun o => 0 <? o_amt o) recd) "escrow: a recorded amount is not positive"
  ++ spec_if (forallb (fun o => existsb (Z.eqb (o_del o)) bs) recd) "escrow: an amount is recorded for somebody who did not back the report"
  ++ spec_if (s_escrow st1 - s_escrow st0 =? amt + fee_escrow) "escrow: tokens moved into dispute escrow differ from the slash amount"
  ++ spec_if ((s_bonded st0 + s_notbonded st0) - (s_bonded st1 + s_notbonded st1) =? amt + fee_pools)
             "escrow: tokens leaving the staking pools differ from the slash amount"
  (* [holdings] values a delegation at the whole tokens its shares are worth: at a validator whose exchange rate is not
     one (it was slashed before) that value is a rounded-down fraction before and after, so the difference of the two
     can be one unit off the tokens actually taken, per such delegation (the tokens moved are pinned exactly above) *)
  ++ spec_if (forallb (fun d => Z.abs (holdings st0 d - holdings st1 d - amt_of d recd) <=? inexact_dels st0 d) bs)
             "escrow: a backer's loss differs from what is recorded for it"
  ++ spec_if (forallb (fun d => Z.abs ((holdings st0 d - holdings st1 d) * T - amt_of d origins * amt)
                                <=? (count_of d origins + (if d =? last_del origins then n else 0) + inexact_dels st0 d) * T) bs)
             "escrow: a backer's loss is not its pro-rata share of the slash"
  ++ spec_if (list_eqb dlg_eqb (filter (fun d => negb (existsb (Z.eqb (d_del d)) bs)) (s_dels st0))
                               (filter (fun d => negb (existsb (Z.eqb (d_del d)) bs)) (s_dels st1))
              && list_eqb ubd_eqb (filter (fun u => negb (existsb (Z.eqb (u_del u)) bs)) (s_ubds st0))
                                  (filter (fun u => negb (existsb (Z.eqb (u_del u)) bs)) (s_ubds st1)))
             "escrow: somebody who did not back the report lost stake".

Definition opt_out_eqb (a : option (stk * list origin)) (ok : bool) (st1 : stk) (recd : list origin) : bool :=
  match a with
  | Some (s, r) => ok && stk_eqb s st1 && list_eqb org_eqb r recd
  | None => negb ok
  end.

Definition is_some {A} (o : option A) : bool := match o with Some _ => true | None => false end.

(* direct call of EscrowReporterStake *)
Definition escrow_case_spec (reds : list red) (st0 : stk) (origins : list origin) (power amt : Z)
           (ok : bool) (st1 : stk) (recd : list origin) (rtotal : Z) : issues :=
  if ok then
    spec_if (Z.quot (sum_amt origins) PR =? power) "authenticity: the stated power is not the power of the recorded stake"
    ++ escrow_spec st0 st1 origins amt recd rtotal 0 0
  else
    spec_if (negb (is_some (escrow repaired reds st0 origins power amt)))
            "shielded: the slash fails although the repaired rules find the stake".

(* ---- dispute histories ------------------------------------------------------------------------------ *)
Definition stake_untouched (a b : stk) : bool :=
  list_eqb val_eqb (s_vals a) (s_vals b) && list_eqb dlg_eqb (s_dels a) (s_dels b) && list_eqb ubd_eqb (s_ubds a) (s_ubds b)
  && (s_notbonded a =? s_notbonded b).

Fixpoint find_rcd (id : Z) (l : list rcd) : option rcd :=
  match l with [] => None | r :: t => if rc_id r =? id then Some r else find_rcd id t end.

Definition agg_flag_ok (q h r : Z) (a a' : agg) : bool :=
  (ag_qid a =? ag_qid a') && (ag_height a =? ag_height a') && (ag_reporter a =? ag_reporter a')
  && Bool.eqb (ag_flagged a') (ag_flagged a || ((ag_qid a =? q) && (ag_height a =? h) && (ag_reporter a =? r))).

(* the operation completed the fee of dispute [id] (report r, category cat): the slash must happen, exactly *)
Definition slash_event_spec (e : env) (w w' : world) (id : Z) (r : report) (cat paid : Z) (from_bond : bool) : issues :=
  spec_if (existsb (rep_eqb r) (e_stored e)) "authenticity: the disputed report was never submitted with this value and power"
  ++ match slash_pct cat, find_snap (rp_qid r) (rp_reporter r) (rp_height r) (e_snaps e) with
     | Some pct, Some s =>
         let amt := Z.quot (rp_power r * PR * pct) PR in
         match find_rcd id (w_rcds w), find_rcd id (w_rcds w') with
         | None, Some rc =>
             escrow_spec (w_stk w) (w_stk w') (sn_origins s) amt (rc_origins rc) (rc_total rc) paid (if from_bond then paid else 0)
             ++ spec_if (Z.of_nat (List.length (w_rcds w')) =? Z.of_nat (List.length (w_rcds w)) + 1) "once: more than one escrow record written"
         | Some _, _ => [Spec "once: the dispute had been slashed before"]
         | None, None => [Spec "escrow: no record of the slashed amounts"]
         end
     | _, _ => [Spec "authenticity: no stake was recorded for this reporter, query and height"]
     end
  ++ match jail_secs cat with
     | None => spec_if (list_eqb repst_eqb (w_reps w) (w_reps w')) "jail: a major dispute changed the jail state"
     | Some secs =>
         spec_if (list_eqb repst_eqb (w_reps w') (set_rep (Rps (rp_reporter r) true (w_now w + secs * 1000000000)) (w_reps w))
                  && is_some (find_rep (rp_reporter r) (w_reps w)))
                 "jail: the reporter is not jailed for the category's duration"
     end
  ++ spec_if ((List.length (w_aggs w) =? List.length (w_aggs w'))%nat
              && forallb (fun p => agg_flag_ok (rp_qid r) (rp_height r) (rp_reporter r) (fst p) (snd p)) (combine (w_aggs w) (w_aggs w')))
             "flag: the aggregate decided by the report is not flagged, or another one is".

(* the operation did not complete any dispute's fee: no stake moves *)
Definition no_slash_spec (w w' : world) : issues :=
  spec_if (stake_untouched (w_stk w) (w_stk w') && list_eqb repst_eqb (w_reps w) (w_reps w')
           && list_eqb agg_eqb (w_aggs w) (w_aggs w') && list_eqb rcd_eqb (w_rcds w) (w_rcds w'))
          "once: stake, jail state, flags or records changed although no dispute became fully funded".

Definition others_unchanged (id : Z) (ds ds' : list disp) : bool :=
  list_eqb disp_eqb (filter (fun d => negb (dp_id d =? id)) ds) (filter (fun d => negb (dp_id d =? id)) ds').

Definition step_spec (e : env) (w : world) (o : op) (ok : bool) (w' : world) : issues :=
  match o with
  | OBegin now =>
      spec_if (list_eqb disp_eqb (w_disps w') (map (expire now) (w_disps w)))
              "expiry: a dispute whose fee is incomplete after one day must fail, others stay as they are"
      ++ no_slash_spec w w'
      ++ spec_if (stk_eqb (w_stk w) (w_stk w')) "expiry: tokens moved at expiry"
  | _ =>
      if negb ok then spec_if (world_eqb w w') "rejected: a rejected transaction changed the state" else
      match o with
      | OPropose sender r cat fee from_bond =>
          let id := next_id (w_disps w) in
          spec_if (negb (is_some (find_disp_report r cat (w_disps w)))) "once: a second dispute accepted for the same report and category"
          ++ spec_if (others_unchanged id (w_disps w) (w_disps w')) "once: another dispute changed"
          ++ match find_disp id (w_disps w'), slash_pct cat with
             | Some d, Some pct =>
                 spec_if (rep_eqb (dp_report d) r && (dp_cat d =? cat) && dp_open d) "dispute: stored report or category differ from the message"
                 ++ spec_if (dp_slash d =? Z.quot (rp_power r * PR * pct) PR) "amount: slash amount is not the category's percentage of the report's stake"
                 ++ spec_if ((0 <? dp_fee_total d) && (dp_fee_total d <=? dp_slash d) && (dp_fee_total d <=? fee)) "fee: paid fee out of range"
                 ++ (if dp_fee_total d =? dp_slash d then
                       spec_if ((dp_status d =? ST_VOTING) && (dp_end d =? w_now w + 3 * DAY)) "dispute: a fully funded dispute must be in voting for three days"
                       ++ slash_event_spec e w w' id r cat (dp_fee_total d) from_bond
                     else
                       spec_if ((dp_status d =? ST_PREVOTE) && (dp_end d =? w_now w + DAY)) "expiry: an underfunded dispute must wait one day in prevote"
                       ++ no_slash_spec w w'
                       ++ spec_if (s_escrow (w_stk w') - s_escrow (w_stk w) =? dp_fee_total d) "fee: escrow did not grow by the fee paid")
             | _, _ => [Spec "dispute: accepted proposal left no dispute"]
             end
      | OAddFee sender id amount from_bond =>
          match find_disp id (w_disps w), find_disp id (w_disps w') with
          | Some d, Some d' =>
              let paid := dp_fee_total d' - dp_fee_total d in
              spec_if (dp_fee_total d <? dp_slash d) "once: fee accepted for a dispute that was already fully funded"
              ++ spec_if (w_now w <=? dp_end d) "expiry: fee accepted after the deadline"
              ++ spec_if (others_unchanged id (w_disps w) (w_disps w')) "once: another dispute changed"
              ++ spec_if ((0 <? paid) && (paid <=? amount) && (dp_fee_total d' <=? dp_slash d') && (dp_slash d' =? dp_slash d)
                          && rep_eqb (dp_report d') (dp_report d) && (dp_cat d' =? dp_cat d)) "fee: paid fee out of range"
              ++ (if dp_fee_total d' =? dp_slash d' then
                    spec_if ((dp_status d' =? ST_VOTING) && (dp_end d' =? w_now w + 3 * DAY)) "dispute: a fully funded dispute must be in voting for three days"
                    ++ slash_event_spec e w w' id (dp_report d) (dp_cat d) paid from_bond
                  else
                    spec_if ((dp_status d' =? dp_status d) && (dp_end d' =? dp_end d)) "dispute: partial fee changed status or deadline"
                    ++ no_slash_spec w w'
                    ++ spec_if (s_escrow (w_stk w') - s_escrow (w_stk w) =? paid) "fee: escrow did not grow by the fee paid")
          | _, _ => [Spec "dispute: fee accepted for an unknown dispute"]
          end
      | OBegin _ => []
      end
  end.

Fixpoint hist_spec (e : env) (w : world) (ops : list op) (impl : list (bool * world)) : issues :=
  match ops, impl with
  | o :: ops', (ok, w') :: impl' => step_spec e w o ok w' ++ hist_spec e w' ops' impl'
  | _, _ => []
  end.

Fixpoint hist_match (vr : variant) (e : env) (w : world) (ops : list op) (impl : list (bool * world)) : bool :=
  match ops, impl with
  | o :: ops', (ok, w') :: impl' =>
      let '(mok, mw) := step vr e w o in
      if Bool.eqb mok ok then if world_eqb mw w' then hist_match vr e mw ops' impl' else false else false
  | [], [] => true
  | _, _ => false
  end.

Inductive c11_case :=
| EscrowCase (reds : list red) (st0 : stk) (origins : list origin) (power amt : Z)
             (ok : bool) (st1 : stk) (recd : list origin) (rtotal : Z)
| DisputeCase (e : env) (w0 : world) (ops : list op) (impl : list (bool * world)).

(* the implementation must behave like the model under one assignment of the four repair flags
   (as found, repaired, or partly repaired); the specification decides whether that behaviour is acceptable *)
Definition c11_check (c : c11_case) : issues :=
  match c with
  | EscrowCase reds st0 origins power amt ok st1 recd rtotal =>
      escrow_case_spec reds st0 origins power amt ok st1 recd rtotal
      ++ diff_if (if lazy_exists (fun v => opt_out_eqb (escrow v reds st0 origins power amt) ok st1 recd) all_variants
                  then (negb ok || (rtotal =? amt)) else false) "escrow outcome"
  | DisputeCase e w0 ops impl =>
      hist_spec e w0 ops impl
      ++ diff_if (lazy_exists (fun v => hist_match v e w0 ops impl) all_variants) "dispute history"
  end.

(* ---- signature predicates of the known findings ------------------------------------------------------ *)
Definition flip13 := Var false true true true true.
Definition flip34 := Var true false true true true.
Definition flip38 := Var true true false true true.
Definition flip39 := Var true true true false true.
Definition flip15 := Var true true true true false.

Definition escrow_out_eqb (a b : option (stk * list origin)) : bool :=
  match a, b with
  | Some (s, r), Some (s', r') => stk_eqb s s' && list_eqb org_eqb r r'
  | None, None => true
  | _, _ => false
  end.

Definition rate_one (v : val) : bool := v_shares v =? v_tokens v * P.

(* F18: the stated power is not the recorded stake's; F39: the recorded stake is not a whole number of TRB (shares are
   computed against power*10^6); F15: a validator of the slice has an exchange rate other than 1;
   F13 / F34 / F38: the repaired model's outcome changes when that one repair is taken out, or the as-found model's
   outcome changes when that one repair is put in (evaluated only when the slash failed or did not move the slash
   amount: [deep]) *)
Definition escrow_classes (deep : bool) (reds : list red) (st0 : stk) (origins : list origin) (power amt : Z) : list string :=
  (if negb (Z.quot (sum_amt origins) PR =? power) then ["F18"] else
     (if negb (sum_amt origins =? PR * power) then ["F39"] else [])
     ++ (if deep then
           let full := escrow repaired reds st0 origins power amt in
           let found := escrow as_found reds st0 origins power amt in
           let sens v v' := negb (escrow_out_eqb (escrow v reds st0 origins power amt) full)
                            || negb (escrow_out_eqb (escrow v' reds st0 origins power amt) found) in
           (if sens flip13 (Var true false false false false) then ["F13"] else [])
           ++ (if sens flip34 (Var false true false false false) then ["F34"] else [])
           ++ (if sens flip38 (Var false false true false false) then ["F38"] else [])
           ++ (if sens flip39 (Var false false false true false) then ["F39"] else [])
           ++ (if sens flip15 (Var false false false false true) then ["F15"] else [])
         else [])).

(* the fee the operation paid, read off the implementation's dispute records *)
Definition dp_paid (o : op) (w w' : world) : Z :=
  match o with
  | OPropose _ _ _ _ _ => match find_disp (next_id (w_disps w)) (w_disps w') with Some d => dp_fee_total d | None => 0 end
  | OAddFee _ id _ _ => match find_disp id (w_disps w), find_disp id (w_disps w') with
                        | Some d, Some d' => dp_fee_total d' - dp_fee_total d | _, _ => 0 end
  | OBegin _ => 0
  end.

Fixpoint hist_classes (e : env) (w : world) (ops : list op) (impl : list (bool * world)) : list string :=
  match ops, impl with
  | o :: ops', (ok, w') :: impl' =>
      (match step_spec e w o ok w' with
       | [] => []
       | _ =>
           let slash r cat :=
             if negb (existsb (rep_eqb r) (e_stored e)) then ["F18"] else
             match slash_pct cat, find_snap (rp_qid r) (rp_reporter r) (rp_height r) (e_snaps e) with
             | Some pct, Some s =>
                 let amt := Z.quot (rp_power r * PR * pct) PR in
                 escrow_classes (negb ok || negb (s_escrow (w_stk w') - s_escrow (w_stk w) - (if ok then dp_paid o w w' else 0) =? amt))
                                (e_reds e) (w_stk w) (sn_origins s) (rp_power r) amt
             | _, _ => []
             end in
           match o with
           | OPropose _ r cat _ _ => slash r cat
           | OAddFee _ id _ _ => match find_disp id (w_disps w) with Some d => slash (dp_report d) (dp_cat d) | None => [] end
           | OBegin _ => []
           end
       end) ++ hist_classes e w' ops' impl'
  | _, _ => []
  end.

Definition c11_classes (c : c11_case) : list string :=
  match c with
  | EscrowCase reds st0 origins power amt ok st1 recd rtotal =>
      match escrow_case_spec reds st0 origins power amt ok st1 recd rtotal with
      | [] => []
      | _ => escrow_classes (negb ok || negb (s_escrow st1 - s_escrow st0 =? amt)) reds st0 origins power amt
      end
  | DisputeCase e w0 ops impl => hist_classes e w0 ops impl
  end.
