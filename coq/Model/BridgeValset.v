(* C16 — model of the validator-set checkpoint machinery:
     x/bridge/keeper/keeper.go   GetCurrentValidatorsEVMCompatible, CompareAndSetBridgeValidators,
                                 SetBridgeValidatorParams, CalculateValidatorSetCheckpoint,
                                 LastSavedValidatorSetStale, PowerDiff, SetBridgeValsetSignature
     x/bridge/module.go          EndBlock
     x/bridge/types/bridge_valset_signatures.go   NewBridgeValsetSignatures, SetSignature
     app/proposal_handler.go     CheckInitialSignaturesFromLastCommit, CheckValsetSignaturesFromLastCommit,
                                 PreBlocker (registrations, then valset signatures)
     app/extend_vote.go          CheckAndSignValidatorCheckpoint (honest node: signs the latest checkpoint
                                 once, in the slot of the previous set)
     evm/contracts/bridge/BlobstreamO.sol   updateValidatorSet, _checkValidatorSignatures

   Numbers are Z.  EVM addresses are 20-byte strings read as big-endian numbers (bytes.Compare on
   equal-length strings = numeric order).  Time is unix milliseconds: every use in the code is
   UnixMilli() of the block time plus a whole number of milliseconds.  uint64 / int64 wrap is not
   modelled (powers are tokens/10^6, far below 2^63/10^6 — hypothesis of the theorems, F25).

   The chain state is the chronological list of checkpoint records (newest first).  The five
   collections of the keeper (ValidatorCheckpointIdxMap, ValsetTimestampToIdxMap,
   ValidatorCheckpointParamsMap, BridgeValsetByTimestampMap, BridgeValsetSignaturesMap) and the three
   items (BridgeValset, ValidatorCheckpoint, LatestCheckpointIdx) are projections of that list; the
   check compares every one of them with the implementation after every block.  Reading "the
   previous valset" through IdxMap[idx-1] and ByTimestampMap is "the next element of the list";
   this coincides with the code as long as block times differ by at least one millisecond
   (CometBFT's time iota), which is a stated assumption.

   Hashes: [hashes] packs the two keccak-based functions (validator-set hash, domain-separated
   checkpoint).  The theorems hold for every pair of functions; the check instantiates them with
   the table of reference values the harness computed with go-ethereum's abi.encode + keccak256
   the way the contract does.

   Signatures are symbolic: [Sg id signer digest] stands for the byte string number [id] made by
   the harness; it verifies (the way BlobstreamO._verifySig does) for address [signer] over
   [digest], and for nothing else.  Garbage is [Sg id 0 0]. *)
From Coq Require Import ZArith List Bool String Lia.
From Verif Require Import Base.Harness.
Import ListNotations.
Open Scope Z_scope.

(* ---- data ------------------------------------------------------------------------------- *)
Inductive bval := BV (addr power : Z).
Definition bv_addr (v : bval) := let 'BV a _ := v in a.
Definition bv_power (v : bval) := let 'BV _ p := v in p.

Inductive sval := SV (op : Z) (bonded : bool) (tokens : Z).       (* staking view of one validator *)

Inductive sg := Sg (id signer digest : Z).
Definition sg_id (s : sg) := let 'Sg i _ _ := s in i.

Definition registry := list (Z * Z).                               (* operator -> EVM address *)

Fixpoint reg_get (r : registry) (op : Z) : option Z :=
  match r with
  | [] => None
  | (o, a) :: r' => if o =? op then Some a else reg_get r' op
  end.

Definition power_reduction : Z := 1000000.

(* Validator.GetConsensusPower: 0 unless bonded, else tokens / 10^6 *)
Definition cons_power (bonded : bool) (tokens : Z) : Z := if bonded then tokens / power_reduction else 0.

Definition eligible1 (r : registry) (v : sval) : list bval :=
  let 'SV op b t := v in
  match reg_get r op with
  | None => []
  | Some a => let p := cons_power b t in if p =? 0 then [] else [BV a p]
  end.

Definition eligible (r : registry) (vs : list sval) : list bval := flat_map (eligible1 r) vs.

(* the comparator of sort.Slice, made reflexive: power descending, then address ascending *)
Definition bv_le (x y : bval) : bool :=
  (bv_power y <? bv_power x) || ((bv_power x =? bv_power y) && (bv_addr x <=? bv_addr y)).

Fixpoint insert_bv (x : bval) (l : list bval) : list bval :=
  match l with
  | [] => [x]
  | y :: l' => if bv_le x y then x :: l else y :: insert_bv x l'
  end.
Definition sort_bv (l : list bval) : list bval := fold_right insert_bv [] l.

(* GetCurrentValidatorsEVMCompatible: None = "no validators found" *)
Definition current_valset (r : registry) (vs : list sval) : option (list bval) :=
  match eligible r vs with
  | [] => None
  | l => Some (sort_bv l)
  end.

Definition bval_eqb (x y : bval) : bool := (bv_addr x =? bv_addr y) && (bv_power x =? bv_power y).
Definition bvals_eqb := list_eqb bval_eqb.

Definition total_power (l : list bval) : Z := fold_right (fun v acc => bv_power v + acc) 0 l.

(* ---- PowerDiff: a Go map keyed by the address -------------------------------------------- *)
Fixpoint mget (m : list (Z * Z)) (k : Z) : option Z :=
  match m with
  | [] => None
  | (k', v) :: m' => if k' =? k then Some v else mget m' k
  end.
Fixpoint mset (m : list (Z * Z)) (k v : Z) : list (Z * Z) :=
  match m with
  | [] => [(k, v)]
  | (k', v') :: m' => if k' =? k then (k, v) :: m' else (k', v') :: mset m' k v
  end.
Definition mget0 (m : list (Z * Z)) (k : Z) : Z := match mget m k with Some v => v | None => 0 end.

Definition pd_load (b : list bval) : list (Z * Z) :=
  fold_left (fun m v => mset m (bv_addr v) (bv_power v)) b [].
Definition pd_sub (m : list (Z * Z)) (c : list bval) : list (Z * Z) :=
  fold_left (fun m v => mset m (bv_addr v) (mget0 m (bv_addr v) - bv_power v)) c m.
Definition sum_abs (m : list (Z * Z)) : Z := fold_right (fun kv acc => Z.abs (snd kv) + acc) 0 m.
Definition pd_delta (b c : list bval) : Z := sum_abs (pd_sub (pd_load b) c).

Definition power_diff (b c : list bval) : Z :=
  let t := total_power b in
  if t =? 0 then 0 else (pd_delta b c * 1000000) / t.

(* ---- what "the set's power has shifted" means: L1 distance of the two power assignments ---- *)
Fixpoint power_of (l : list bval) (a : Z) : Z :=
  match l with
  | [] => 0
  | v :: l' => if bv_addr v =? a then bv_power v else power_of l' a
  end.
Definition has_addr (l : list bval) (a : Z) : bool := existsb (fun v => bv_addr v =? a) l.

Definition l1_shift (b c : list bval) : Z :=
  fold_right (fun v acc => Z.abs (bv_power v - power_of c (bv_addr v)) + acc) 0 b
  + fold_right (fun v acc => (if has_addr b (bv_addr v) then 0 else bv_power v) + acc) 0 c.

Fixpoint nodup_addrs (l : list bval) : bool :=
  match l with
  | [] => true
  | v :: l' => negb (has_addr l' (bv_addr v)) && nodup_addrs l'
  end.

(* ---- chain state ---------------------------------------------------------------------------- *)
Record hashes := { h_set : list bval -> Z; h_ckpt : Z -> Z -> Z -> Z }.   (* h_ckpt thr ts sethash *)

Record ckpt := {
  k_ts : Z;                    (* validatorTimestamp = key of the four timestamp maps *)
  k_set : list bval;           (* BridgeValsetByTimestampMap *)
  k_thr : Z; k_hash : Z; k_ckpt : Z;   (* ValidatorCheckpointParamsMap *)
  k_slots : list (option sg)   (* BridgeValsetSignaturesMap *)
}.

Definition bstate := list ckpt.            (* newest first; index of a record = its distance from the end *)

Definition two_weeks_ms : Z := 2 * 24 * 7 * 3600 * 1000.
Definition one_second_ms : Z := 1000.

Definition mk_ckpt (H : hashes) (cur : list bval) (now : Z) (nslots : nat) : ckpt :=
  let thr := total_power cur * 2 / 3 in
  let h := h_set H cur in
  {| k_ts := now; k_set := cur; k_thr := thr; k_hash := h; k_ckpt := h_ckpt H thr now h;
     k_slots := repeat None nslots |}.

(* LastSavedValidatorSetStale: ts_last < (now + 1 s) - 14 d *)
Definition stale (ts_last now : Z) : bool := ts_last <? now + one_second_ms - two_weeks_ms.

Inductive eb_result := EbErr | EbSame | EbNew.

(* CompareAndSetBridgeValidators (through EndBlock): what happens, and the new state *)
Definition decide (st : bstate) (cur : list bval) (now : Z) : eb_result :=
  match st with
  | [] => EbNew
  | last :: _ =>
      let s := stale (k_ts last) now in
      if bvals_eqb (k_set last) cur && negb s then EbSame
      else if (power_diff (k_set last) cur <? 50000) && negb s then EbSame
      else EbNew
  end.

Definition end_block (H : hashes) (st : bstate) (r : registry) (vs : list sval) (height now : Z)
  : eb_result * bstate :=
  if height =? 1 then (EbSame, st) else
  match current_valset r vs with
  | None => (EbErr, st)
  | Some cur =>
      match decide st cur now with
      | EbNew =>
          let n := match st with [] => List.length cur | last :: _ => List.length (k_set last) end in
          (EbNew, mk_ckpt H cur now n :: st)
      | res => (res, st)
      end
  end.

(* ---- PreBlocker ------------------------------------------------------------------------------ *)
(* CheckInitialSignaturesFromLastCommit + SetEVMAddresses: a vote of operator [op] whose two initial
   signatures recover the same address [a] registers (op, a) unless op is registered already *)
Definition reg_step (r : registry) (claim : Z * option Z) : registry :=
  match claim with
  | (op, Some a) => match reg_get r op with Some _ => r | None => r ++ [(op, a)] end
  | (_, None) => r
  end.

Fixpoint set_slots (prev : list bval) (slots : list (option sg)) (a : Z) (s : sg) : list (option sg) :=
  match prev, slots with
  | v :: prev', x :: slots' => (if bv_addr v =? a then Some s else x) :: set_slots prev' slots' a s
  | _, _ => slots         (* SetSignature ignores indexes outside the slot array *)
  end.

(* SetBridgeValsetSignature: find the record with this timestamp; its predecessor is the next one *)
Fixpoint sign_step (st : bstate) (a ts : Z) (s : sg) : bstate :=
  match st with
  | [] => []
  | k :: rest =>
      if k_ts k =? ts then
        match rest with
        | [] => st                                      (* index 0: "first valset, no sigs needed" *)
        | p :: _ => {| k_ts := k_ts k; k_set := k_set k; k_thr := k_thr k; k_hash := k_hash k; k_ckpt := k_ckpt k;
                       k_slots := set_slots (k_set p) (k_slots k) a s |} :: rest
        end
      else k :: sign_step rest a ts s
  end.

Definition sign_op (r : registry) (st : bstate) (o : Z * Z * sg) : bstate :=
  let '(op, ts, s) := o in
  match reg_get r op with
  | None => st
  | Some a => sign_step st a ts s
  end.

(* ---- one block, histories ---------------------------------------------------------------------- *)
Record env_blk := {
  e_height : Z; e_now : Z;
  e_claims : list (Z * option Z);      (* votes carrying initial signatures: (operator, recovered address) *)
  e_signs : list (Z * Z * sg);         (* votes carrying a valset signature: (operator, timestamp, signature) *)
  e_vals : list sval                   (* staking validators at the end of the block *)
}.

Record chain := { c_reg : registry; c_st : bstate; c_halted : bool }.
Definition chain0 : chain := {| c_reg := []; c_st := []; c_halted := false |}.

Definition pre_block (c : chain) (e : env_blk) : registry * bstate :=
  let r := fold_left reg_step (e_claims e) (c_reg c) in
  (r, fold_left (sign_op r) (e_signs e) (c_st c)).

Definition step (H : hashes) (c : chain) (e : env_blk) : chain :=
  if c_halted c then c else
  let '(r, st1) := pre_block c e in
  match end_block H st1 r (e_vals e) (e_height e) (e_now e) with
  | (EbErr, _) => {| c_reg := r; c_st := st1; c_halted := true |}      (* EndBlock error: the chain halts *)
  | (_, st2) => {| c_reg := r; c_st := st2; c_halted := false |}
  end.

Definition run (H : hashes) (es : list env_blk) : chain := fold_left (step H) es chain0.

(* ---- projections: the keeper's collections --------------------------------------------------- *)
Definition chrono (st : bstate) : list ckpt := rev st.               (* index order *)
Definition latest_idx (st : bstate) : option Z :=
  match st with [] => None | _ => Some (Z.of_nat (List.length st) - 1) end.
Definition cur_valset (st : bstate) : option (list bval) := match st with [] => None | k :: _ => Some (k_set k) end.
Definition cur_ckpt (st : bstate) : option Z := match st with [] => None | k :: _ => Some (k_ckpt k) end.
Definition find_ts (st : bstate) (ts : Z) : option ckpt := find (fun k => k_ts k =? ts) st.
Fixpoint index_of_ts (st : bstate) (ts : Z) : option Z :=
  match st with
  | [] => None
  | k :: rest => if k_ts k =? ts then Some (Z.of_nat (List.length rest)) else index_of_ts rest ts
  end.

(* ---- the contract (BlobstreamO.sol) -------------------------------------------------------------- *)
Record cstate := { cs_ckpt : Z; cs_thr : Z; cs_ts : Z; cs_unbonding : Z }.

Definition sig_valid (a digest : Z) (s : sg) : bool :=
  let 'Sg _ signer d := s in (signer =? a) && (d =? digest).

(* _checkValidatorSignatures loop: None = revert InvalidSignature, Some cumulative power at exit *)
Fixpoint check_sigs (vals : list bval) (sigs : list (option sg)) (digest thr cum : Z) : option Z :=
  match vals, sigs with
  | v :: vals', s :: sigs' =>
      match s with
      | None => check_sigs vals' sigs' digest thr cum
      | Some x =>
          if sig_valid (bv_addr v) digest x then
            let cum' := cum + bv_power v in
            if thr <=? cum' then Some cum' else check_sigs vals' sigs' digest thr cum'
          else None
      end
  | _, _ => Some cum
  end.

(* updateValidatorSet; [evm_now] = block.timestamp (seconds).  None = revert *)
Definition update_validator_set (H : hashes) (cs : cstate) (evm_now new_hash new_thr new_ts : Z)
           (cur : list bval) (sigs : list (option sg)) : option cstate :=
  if negb (Nat.eqb (List.length cur) (List.length sigs)) then None            (* MalformedCurrentValidatorSet *)
  else if new_ts <? cs_ts cs then None                                         (* ValidatorTimestampMustIncrease *)
  else if new_thr =? 0 then None                                               (* InvalidPowerThreshold *)
  else if negb (h_ckpt H (cs_thr cs) (cs_ts cs) (h_set H cur) =? cs_ckpt cs) then None   (* SuppliedValidatorSetInvalid *)
  else
    let newc := h_ckpt H new_thr new_ts new_hash in
    if evm_now <? cs_ts cs / 1000 then None                                    (* checked subtraction underflows *)
    else if cs_unbonding cs <? evm_now - cs_ts cs / 1000 then None             (* StaleValidatorSet *)
    else match check_sigs cur sigs newc (cs_thr cs) 0 with
         | None => None                                                          (* InvalidSignature *)
         | Some cum =>
             if cum <? cs_thr cs then None                                       (* InsufficientVotingPower *)
             else Some {| cs_ckpt := newc; cs_thr := new_thr; cs_ts := new_ts; cs_unbonding := cs_unbonding cs |}
         end.

Definition contract_at (k : ckpt) (unbonding : Z) : cstate :=
  {| cs_ckpt := k_ckpt k; cs_thr := k_thr k; cs_ts := k_ts k; cs_unbonding := unbonding |}.

(* what a relayer submits: the stored slots, with everything that does not verify blanked *)
Fixpoint relay_sigs (prev : list bval) (slots : list (option sg)) (digest : Z) : list (option sg) :=
  match prev, slots with
  | v :: prev', s :: slots' =>
      (match s with Some x => if sig_valid (bv_addr v) digest x then Some x else None | None => None end)
      :: relay_sigs prev' slots' digest
  | _, _ => map (fun _ => None) slots
  end.

(* power of the members of [prev] whose slot holds a signature that verifies *)
Fixpoint valid_power (prev : list bval) (slots : list (option sg)) (digest : Z) : Z :=
  match prev, slots with
  | v :: prev', s :: slots' =>
      (match s with Some x => if sig_valid (bv_addr v) digest x then bv_power v else 0 | None => 0 end)
      + valid_power prev' slots' digest
  | _, _ => 0
  end.

(* the step from checkpoint [p] to its successor [k], relayed at EVM time [evm_now] *)
Definition follow (H : hashes) (unbonding evm_now : Z) (p k : ckpt) : option cstate :=
  update_validator_set H (contract_at p unbonding) evm_now (k_hash k) (k_thr k) (k_ts k)
                       (k_set p) (relay_sigs (k_set p) (k_slots k) (k_ckpt k)).

(* ================================================================================================
   Correspondence cases and the check
   ================================================================================================ *)

(* everything the keeper stores under one timestamp, plus the reference hashes of the harness *)
Inductive rec :=
  Rec (ts idx back ck hash pts thr : Z) (set : list bval) (slots : list (option sg)) (ref_hash ref_ckpt : Z).
(* ts: key; idx = ValsetTimestampToIdxMap[ts]; back = ValidatorCheckpointIdxMap[idx];
   ck/hash/pts/thr = ValidatorCheckpointParamsMap[ts]; set = BridgeValsetByTimestampMap[ts];
   slots = BridgeValsetSignaturesMap[ts];
   ref_hash = keccak256(abi.encode(Validator[] set)), ref_ckpt = keccak256(abi.encode("checkpoint", thr, pts, hash))
   computed with go-ethereum's ABI encoder from the stored values *)

Definition r_ts (r : rec) := let 'Rec ts _ _ _ _ _ _ _ _ _ _ := r in ts.
Definition r_idx (r : rec) := let 'Rec _ i _ _ _ _ _ _ _ _ _ := r in i.
Definition r_back (r : rec) := let 'Rec _ _ b _ _ _ _ _ _ _ _ := r in b.
Definition r_ck (r : rec) := let 'Rec _ _ _ c _ _ _ _ _ _ _ := r in c.
Definition r_hash (r : rec) := let 'Rec _ _ _ _ h _ _ _ _ _ _ := r in h.
Definition r_pts (r : rec) := let 'Rec _ _ _ _ _ p _ _ _ _ _ := r in p.
Definition r_thr (r : rec) := let 'Rec _ _ _ _ _ _ t _ _ _ _ := r in t.
Definition r_set (r : rec) := let 'Rec _ _ _ _ _ _ _ s _ _ _ := r in s.
Definition r_slots (r : rec) := let 'Rec _ _ _ _ _ _ _ _ s _ _ := r in s.
Definition r_refhash (r : rec) := let 'Rec _ _ _ _ _ _ _ _ _ h _ := r in h.
Definition r_refckpt (r : rec) := let 'Rec _ _ _ _ _ _ _ _ _ _ c := r in c.

Inductive blk :=
  Blk (height now : Z) (claims : list (Z * option Z)) (signs : list (Z * Z * sg)) (vals : list sval)
      (* what the implementation did *)
      (i_reg : list (Z * Z))                          (* OperatorToEVMAddressMap after PreBlocker *)
      (i_touched : list (Z * list (option sg)))       (* signature slots of the timestamps signed for, after PreBlocker *)
      (i_cur : option (list bval))                    (* GetCurrentValidatorSetEVMCompatible at EndBlock *)
      (i_err : bool)                                  (* EndBlock returned an error *)
      (i_valset : option (list bval)) (i_latest : option Z) (i_ckpt : option Z)   (* the three items after EndBlock *)
      (i_new : option rec)                            (* the record under key [now], if any *)
      (i_proc_ok : bool).                             (* ProcessProposalHandler accepted the prepared proposal *)

Inductive c16_case :=
| HistCase (blocks : list blk) (final : list rec) (f_latest : option Z) (f_counts : list Z)
| DiffCase (b c : list bval) (impl : Z)                                     (* Keeper.PowerDiff *)
| StaleCase (keys : list Z) (now : Z) (impl_err : bool) (impl : bool)       (* Keeper.LastSavedValidatorSetStale *)
| UpdCase (reg : list (Z * Z)) (vals : list sval) (last : list bval) (ts_last now : Z)
          (impl_err impl_recorded : bool) (impl_valset : list bval)        (* CompareAndSetBridgeValidators on a written state *)
| SolCase (facts : list string).                                            (* text of BlobstreamO.sol *)

(* ---- small helpers -------------------------------------------------------------------------------- *)
Definition optZ_eqb := Zeqb_opt.
Definition sg_eqb (x y : sg) : bool :=
  let 'Sg i a d := x in let 'Sg j b e := y in (i =? j) && (a =? b) && (d =? e).
Definition slot_eqb (x y : option sg) : bool :=
  match x, y with Some a, Some b => sg_eqb a b | None, None => true | _, _ => false end.
Definition slots_eqb := list_eqb slot_eqb.
Definition optset_eqb (x y : option (list bval)) : bool :=
  match x, y with Some a, Some b => bvals_eqb a b | None, None => true | _, _ => false end.

Fixpoint sortedb (l : list bval) : bool :=
  match l with
  | [] => true
  | x :: l' => (match l' with [] => true | y :: _ => bv_le x y end) && sortedb l'
  end.
Definition count_bv (x : bval) (l : list bval) : nat := List.length (filter (bval_eqb x) l).
Definition same_multiset (a b : list bval) : bool :=
  Nat.eqb (List.length a) (List.length b) && forallb (fun x => Nat.eqb (count_bv x a) (count_bv x b)) a.

Definition reg_sub (a b : list (Z * Z)) : bool :=
  forallb (fun p => match reg_get b (fst p) with Some x => x =? snd p | None => false end) a.
Definition reg_same (a b : list (Z * Z)) : bool :=
  Nat.eqb (List.length a) (List.length b) && reg_sub a b && reg_sub b a.
Fixpoint reg_nodup_addr (r : list (Z * Z)) : bool :=
  match r with
  | [] => true
  | (_, a) :: r' => negb (existsb (fun p => snd p =? a) r') && reg_nodup_addr r'
  end.

(* ---- reference hashes from the records of the case -------------------------------------------------- *)
Definition tbl_hashes (rs : list rec) : hashes :=
  {| h_set := fun l => match find (fun r => bvals_eqb (r_set r) l) rs with Some r => r_refhash r | None => 0 end;
     h_ckpt := fun thr ts h =>
       match find (fun r => (r_thr r =? thr) && (r_pts r =? ts) && (r_hash r =? h)) rs with
       | Some r => r_refckpt r | None => 0 end |}.

Definition blk_new (b : blk) : list rec :=
  let 'Blk _ _ _ _ _ _ _ _ _ _ _ _ n _ := b in match n with Some r => [r] | None => [] end.

(* ---- the executable specification, evaluated on the implementation's own outputs ------------------- *)
Record iview := {
  iv_reg : list (Z * Z);
  iv_valset : option (list bval);
  iv_latest : option Z;
  iv_last_ts : option Z;
  iv_slots : list (Z * list (option sg));      (* last seen slots per timestamp *)
  iv_sets : list (Z * list bval);              (* set per timestamp, chronological, newest first *)
  iv_subs : list (Z * Z * Z * sg);             (* accepted submissions, newest first: (operator, address, ts, sig) *)
  iv_halted : bool
}.
Definition iview0 : iview :=
  {| iv_reg := []; iv_valset := None; iv_latest := None; iv_last_ts := None; iv_slots := []; iv_sets := [];
     iv_subs := []; iv_halted := false |}.

Fixpoint assoc {A} (m : list (Z * A)) (k : Z) : option A :=
  match m with [] => None | (k', v) :: m' => if k' =? k then Some v else assoc m' k end.

(* predecessor set of timestamp ts in a newest-first list *)
Fixpoint pred_set (sets : list (Z * list bval)) (ts : Z) : option (list bval) :=
  match sets with
  | [] => None
  | (t, _) :: rest => if t =? ts then (match rest with [] => None | (_, s) :: _ => Some s end) else pred_set rest ts
  end.

(* "a new checkpoint is due": none yet, or shifted by >= 5 %, or older than 14 d - 1 s *)
Definition shifted (last cur : list bval) : bool := total_power last <=? 20 * l1_shift last cur.
Definition aged (ts_last now : Z) : bool := two_weeks_ms - one_second_ms <? now - ts_last.
Definition due (last : option (list bval)) (ts_last : option Z) (cur : list bval) (now : Z) : bool :=
  match last, ts_last with
  | Some l, Some t => shifted l cur || aged t now
  | _, _ => true
  end.

Definition claims_ok (old new : list (Z * Z)) (claims : list (Z * option Z)) : bool :=
  reg_sub old new
  && forallb (fun p => match reg_get old (fst p) with
                       | Some _ => true
                       | None => existsb (fun c => (fst c =? fst p) && optZ_eqb (snd c) (Some (snd p))) claims
                       end) new.

(* expected slots of timestamp ts after the block's signatures, from the slots before *)
Definition apply_signs (reg : list (Z * Z)) (prev : list bval) (ts : Z) (before : list (option sg))
           (signs : list (Z * Z * sg)) : list (option sg) :=
  fold_left (fun sl o => let '(op, t, s) := o in
                         if t =? ts then match reg_get reg op with Some a => set_slots prev sl a s | None => sl end
                         else sl) signs before.

Definition spec_touched (v : iview) (reg : list (Z * Z)) (signs : list (Z * Z * sg))
           (touched : list (Z * list (option sg))) : bool :=
  forallb (fun p => let '(ts, after) := p in
                    match assoc (iv_slots v) ts with
                    | None => false
                    | Some before =>
                        match pred_set (iv_sets v) ts with
                        | None => slots_eqb after before
                        | Some prev => slots_eqb after (apply_signs reg prev ts before signs)
                        end
                    end) touched.

Definition accepted_subs (v : iview) (reg : list (Z * Z)) (signs : list (Z * Z * sg)) : list (Z * Z * Z * sg) :=
  fold_left (fun acc o => let '(op, ts, s) := o in
                          match reg_get reg op, assoc (iv_slots v) ts with
                          | Some a, Some _ => (op, a, ts, s) :: acc
                          | _, _ => acc
                          end) signs (iv_subs v).

Definition upd_assoc {A} (m : list (Z * A)) (k : Z) (x : A) : list (Z * A) :=
  (k, x) :: filter (fun p => negb (fst p =? k)) m.

Definition spec_block (v : iview) (b : blk) : issues * iview :=
  let 'Blk height now claims signs vals i_reg i_touched i_cur i_err i_valset i_latest i_ckpt i_new i_proc := b in
  if iv_halted v then ([], v) else
  let recorded := negb (optZ_eqb i_latest (iv_latest v)) in
  let el := eligible i_reg vals in
  let iss :=
    spec_if i_proc "a proposal prepared from the last commit is rejected by ProcessProposal"
    ++ spec_if (claims_ok (iv_reg v) i_reg claims) "an EVM address is registered without a valid claim, or a registered address changed"
    ++ spec_if (spec_touched v i_reg signs i_touched) "a signature is not stored exactly in the slots of its sender's address in the previous set"
    ++ spec_if (match i_cur with
                | Some l => negb (match l with [] => true | _ => false end) && sortedb l && same_multiset l el
                | None => match el with [] => true | _ => false end
                end) "the bridge validator set is not exactly the registered validators with non-zero power, by power then address"
    ++ (if height =? 1 then spec_if (negb recorded && negb i_err) "a checkpoint is recorded in block 1"
        else match i_cur with
        | None => spec_if (i_err && negb recorded) "EndBlock does not fail although there is no bridge validator"
        | Some cur =>
            let d := due (iv_valset v) (iv_last_ts v) cur now in
            spec_if (negb i_err) "EndBlock fails although bridge validators exist"
            ++ spec_if (Bool.eqb recorded d) "a checkpoint is recorded without being due, or a due checkpoint is not recorded"
            ++ (if recorded then
                  match i_new with
                  | None => [Spec "a recorded checkpoint is not stored under the block time"]
                  | Some r =>
                      spec_if ((r_ts r =? now) && (r_pts r =? now) && (r_back r =? now))
                              "a recorded checkpoint is not stored under the block time"
                      ++ spec_if (optZ_eqb i_latest (Some (r_idx r))
                                  && (r_idx r =? match iv_latest v with Some i => i + 1 | None => 0 end))
                                 "checkpoint indexes are not contiguous"
                      ++ spec_if (match iv_last_ts v with Some t => t <? now | None => true end)
                                 "checkpoint timestamps do not strictly increase"
                      ++ spec_if (bvals_eqb (r_set r) cur && optset_eqb i_valset (Some cur))
                                 "the recorded set is not the current bridge validator set"
                      ++ spec_if ((r_thr r =? total_power (r_set r) * 2 / 3) && (r_hash r =? r_refhash r)
                                  && (r_ck r =? r_refckpt r) && optZ_eqb i_ckpt (Some (r_ck r)))
                                 "stored hash, threshold, checkpoint and set are not mutually consistent"
                      ++ spec_if (slots_eqb (r_slots r)
                                            (repeat None (List.length (match iv_valset v with Some l => l | None => cur end))))
                                 "signature slots of a new checkpoint are not one empty slot per member of the previous set"
                  end
                else
                  spec_if (optset_eqb i_valset (iv_valset v) && match i_new with None => true | Some _ => false end)
                          "state changes although no checkpoint is recorded")
        end) in
  let slots1 := fold_left (fun m p => upd_assoc m (fst p) (snd p)) i_touched (iv_slots v) in
  let v' :=
    {| iv_reg := i_reg;
       iv_valset := i_valset;
       iv_latest := i_latest;
       iv_last_ts := if recorded then Some now else iv_last_ts v;
       iv_slots := match i_new with Some r => if recorded then upd_assoc slots1 (r_ts r) (r_slots r) else slots1 | None => slots1 end;
       iv_sets := match i_new with Some r => if recorded then (r_ts r, r_set r) :: iv_sets v else iv_sets v | None => iv_sets v end;
       iv_subs := accepted_subs v i_reg signs;
       iv_halted := i_err |} in
  (iss, v').

Fixpoint spec_blocks (v : iview) (bs : list blk) : issues * iview :=
  match bs with
  | [] => ([], v)
  | b :: bs' => let '(i1, v1) := spec_block v b in let '(i2, v2) := spec_blocks v1 bs' in (i1 ++ i2, v2)
  end.

(* ---- the final dump ----------------------------------------------------------------------------------- *)
Fixpoint recs_chain_ok (i : Z) (prev_ts : option Z) (rs : list rec) : bool :=
  match rs with
  | [] => true
  | r :: rs' =>
      (r_idx r =? i) && (r_back r =? r_ts r) && (r_pts r =? r_ts r)
      && (match prev_ts with Some t => t <? r_ts r | None => true end)
      && recs_chain_ok (i + 1) (Some (r_ts r)) rs'
  end.

Definition rec_consistent (r : rec) : bool :=
  (r_thr r =? total_power (r_set r) * 2 / 3) && (r_hash r =? r_refhash r) && (r_ck r =? r_refckpt r)
  && sortedb (r_set r) && negb (match r_set r with [] => true | _ => false end).

Fixpoint slots_len_ok (prev : option (list bval)) (rs : list rec) : bool :=
  match rs with
  | [] => true
  | r :: rs' =>
      Nat.eqb (List.length (r_slots r)) (List.length (match prev with Some p => p | None => r_set r end))
      && slots_len_ok (Some (r_set r)) rs'
  end.

Definition rec_ckpt (r : rec) : ckpt :=
  {| k_ts := r_ts r; k_set := r_set r; k_thr := r_thr r; k_hash := r_hash r; k_ckpt := r_ck r; k_slots := r_slots r |}.

(* "operator op has signed checkpoint ts": its last accepted submission for ts verifies for its address *)
Fixpoint last_sub (subs : list (Z * Z * Z * sg)) (op ts : Z) : option sg :=
  match subs with
  | [] => None
  | (o, _, t, s) :: rest => if (o =? op) && (t =? ts) then Some s else last_sub rest op ts
  end.
Definition op_signed (subs : list (Z * Z * Z * sg)) (op a ts digest : Z) : bool :=
  match last_sub subs op ts with Some s => sig_valid a digest s | None => false end.
Definition member_signed (reg : list (Z * Z)) (subs : list (Z * Z * Z * sg)) (a ts digest : Z) : bool :=
  existsb (fun p => (snd p =? a) && op_signed subs (fst p) a ts digest) reg.
Definition signed_power (reg : list (Z * Z)) (subs : list (Z * Z * Z * sg)) (prev : list bval) (ts digest : Z) : Z :=
  fold_right (fun v acc => (if member_signed reg subs (bv_addr v) ts digest then bv_power v else 0) + acc) 0 prev.

Definition unbonding_s : Z := 86400 * 21.

Definition cstate_eqb (a : cstate) (k : ckpt) : bool :=
  (cs_ckpt a =? k_ckpt k) && (cs_thr a =? k_thr k) && (cs_ts a =? k_ts k).

Fixpoint followable (H : hashes) (reg : list (Z * Z)) (subs : list (Z * Z * Z * sg)) (rs : list rec) : bool :=
  match rs with
  | p :: ((k :: _) as rs') =>
      (if (2 * total_power (r_set p) <? 3 * signed_power reg subs (r_set p) (r_ts k) (r_ck k))
          && negb (r_thr k =? 0)
          && (r_ts k / 1000 - r_ts p / 1000 <=? unbonding_s)
       then match follow H unbonding_s (r_ts k / 1000) (rec_ckpt p) (rec_ckpt k) with
            | Some cs => cstate_eqb cs (rec_ckpt k)
            | None => false
            end
       else true)
      && followable H reg subs rs'
  | _ => true
  end.

Definition spec_final (H : hashes) (v : iview) (final : list rec) (f_latest : option Z) (f_counts : list Z) : issues :=
  let n := Z.of_nat (List.length final) in
  spec_if (forallb (fun c => c =? n) f_counts
           && optZ_eqb f_latest (if n =? 0 then None else Some (n - 1))
           && recs_chain_ok 0 None final)
          "the checkpoint maps are not a contiguous, strictly time-ordered chain"
  ++ spec_if (forallb rec_consistent final) "stored hash, threshold, checkpoint and set are not mutually consistent"
  ++ spec_if (slots_len_ok None final) "signature slots do not correspond to the members of the previous set"
  ++ spec_if (followable H (iv_reg v) (iv_subs v) final)
             "members with more than two thirds of the previous set's power have signed, but the contract rejects the step".

(* ---- model against implementation ----------------------------------------------------------------------- *)
Definition rec_matches (r : rec) (k : ckpt) (idx : Z) : bool :=
  (r_ts r =? k_ts k) && (r_idx r =? idx) && (r_back r =? k_ts k) && (r_ck r =? k_ckpt k) && (r_hash r =? k_hash k)
  && (r_pts r =? k_ts k) && (r_thr r =? k_thr k) && bvals_eqb (r_set r) (k_set k) && slots_eqb (r_slots r) (k_slots k).

Definition diff_block (H : hashes) (c : chain) (b : blk) : issues * chain :=
  let 'Blk height now claims signs vals i_reg i_touched i_cur i_err i_valset i_latest i_ckpt i_new i_proc := b in
  if c_halted c then ([], c) else
  let e := {| e_height := height; e_now := now; e_claims := claims; e_signs := signs; e_vals := vals |} in
  let '(r, st1) := pre_block c e in
  let '(res, st2) := end_block H st1 r vals height now in
  let c' := step H c e in
  let iss :=
    diff_if (reg_same i_reg r) "registry"
    ++ diff_if (forallb (fun p => match find_ts st1 (fst p) with Some k => slots_eqb (snd p) (k_slots k) | None => false end) i_touched)
               "signature slots after PreBlocker"
    ++ diff_if (optset_eqb i_cur (current_valset r vals)) "current bridge validator set"
    ++ diff_if (Bool.eqb i_err (match res with EbErr => true | _ => false end)) "EndBlock error"
    ++ diff_if (optset_eqb i_valset (cur_valset st2)) "BridgeValset"
    ++ diff_if (optZ_eqb i_latest (latest_idx st2)) "LatestCheckpointIdx"
    ++ diff_if (optZ_eqb i_ckpt (cur_ckpt st2)) "ValidatorCheckpoint"
    ++ diff_if (match res, i_new, st2 with
                | EbNew, Some rr, k :: rest => rec_matches rr k (Z.of_nat (List.length rest))
                | EbNew, _, _ => false
                | _, None, _ => true
                | _, Some _, _ => false
                end) "record of the new checkpoint" in
  (iss, c').

Fixpoint diff_blocks (H : hashes) (c : chain) (bs : list blk) : issues * chain :=
  match bs with
  | [] => ([], c)
  | b :: bs' => let '(i1, c1) := diff_block H c b in let '(i2, c2) := diff_blocks H c1 bs' in (i1 ++ i2, c2)
  end.

Fixpoint recs_match (i : Z) (rs : list rec) (ks : list ckpt) : bool :=
  match rs, ks with
  | [], [] => true
  | r :: rs', k :: ks' => rec_matches r k i && recs_match (i + 1) rs' ks'
  | _, _ => false
  end.

(* facts read from the text of BlobstreamO.sol the contract model was transcribed from *)
Definition sol_expected : list string :=
  [ "if (_currentValidatorSet.length != _sigs.length) {";
    "if (_newValidatorTimestamp < validatorTimestamp) {";
    "if (_newPowerThreshold == 0) {";
    "bytes32 _currentValidatorSetHash = keccak256(abi.encode(_currentValidatorSet));";
    "if (_domainSeparateValidatorSetHash(powerThreshold,validatorTimestamp,_currentValidatorSetHash) != lastValidatorSetCheckpoint) {";
    "bytes32 _newCheckpoint = _domainSeparateValidatorSetHash(_newPowerThreshold,_newValidatorTimestamp,_newValidatorSetHash);";
    "_checkValidatorSignatures(_currentValidatorSet,_sigs,_newCheckpoint,powerThreshold);";
    "lastValidatorSetCheckpoint = _newCheckpoint;";
    "powerThreshold = _newPowerThreshold;";
    "validatorTimestamp = _newValidatorTimestamp;";
    "if (block.timestamp - (validatorTimestamp / 1000) > unbondingPeriod) {";
    "uint256 _cumulativePower = 0;";
    "for (uint256 _i = 0; _i < _currentValidators.length; _i++) {";
    "if (_sigs[_i].r == 0 && _sigs[_i].s == 0 && _sigs[_i].v == 0) {";
    "continue;";
    "if (!_verifySig(_currentValidators[_i].addr, _digest, _sigs[_i])) {";
    "_cumulativePower += _currentValidators[_i].power;";
    "if (_cumulativePower >= _powerThreshold) {";
    "break;";
    "if (_cumulativePower < _powerThreshold) {";
    "return keccak256(abi.encode(VALIDATOR_SET_HASH_DOMAIN_SEPARATOR,_powerThreshold,_validatorTimestamp,_validatorSetHash));";
    "_digest = sha256(abi.encodePacked(_digest));";
    "return _signer == ecrecover(_digest, _sig.v, _sig.r, _sig.s);" ]%string.

Definition max_key_below (keys : list Z) (bound : Z) : Z :=
  fold_right (fun k acc => if (k <? bound) && (acc <? k) then k else acc) 0 keys.

Definition c16_check (c : c16_case) : issues :=
  match c with
  | HistCase blocks final f_latest f_counts =>
      let H := tbl_hashes (flat_map blk_new blocks ++ final) in
      let '(s_iss, v) := spec_blocks iview0 blocks in
      let '(d_iss, ch) := diff_blocks H chain0 blocks in
      s_iss ++ spec_final H v final f_latest f_counts
      ++ d_iss ++ diff_if (recs_match 0 final (chrono (c_st ch))) "final state of the checkpoint maps"
  | DiffCase b c impl =>
      (if nodup_addrs b && nodup_addrs c && (0 <? total_power b) then
         spec_if (Bool.eqb (impl <? 50000) (negb (shifted b c))) "PowerDiff is below 5 % although the power shifted by at least 5 %, or the reverse"
       else [])
      ++ diff_if (impl =? power_diff b c) "PowerDiff"
  | StaleCase keys now impl_err impl =>
      let t := max_key_below keys (now + one_second_ms) in
      (if t =? 0 then diff_if impl_err "stale: error expected"
       else spec_if (negb impl_err && Bool.eqb impl (aged t now)) "staleness is not 'older than 14 d - 1 s'"
            ++ diff_if (negb impl_err && Bool.eqb impl (stale t now)) "stale")
  | UpdCase reg vals last ts_last now impl_err impl_rec impl_valset =>
      match current_valset reg vals with
      | None => diff_if impl_err "compare-and-set: error expected"
      | Some cur =>
          (if nodup_addrs last && nodup_addrs cur && (0 <? total_power last) then
             spec_if (negb impl_err && Bool.eqb impl_rec (due (Some last) (Some ts_last) cur now))
                     "a checkpoint is recorded without being due, or a due checkpoint is not recorded"
           else [])
          ++ spec_if (negb impl_err && bvals_eqb impl_valset (if impl_rec then cur else last)) "the recorded set is not the current bridge validator set"
          ++ diff_if (negb impl_err &&
                      Bool.eqb impl_rec (match decide [{| k_ts := ts_last; k_set := last; k_thr := 0; k_hash := 0; k_ckpt := 0; k_slots := [] |}] cur now
                                         with EbNew => true | _ => false end)) "compare-and-set decision"
      end
  | SolCase facts => diff_if (list_eqb String.eqb facts sol_expected) "text of BlobstreamO.updateValidatorSet / _checkValidatorSignatures"
  end.

(* signature predicate of finding F28: two operators are registered with the same EVM address
   (initial signatures are over constant messages and can be replayed by another validator) *)
Definition blk_reg (b : blk) : list (Z * Z) := let 'Blk _ _ _ _ _ r _ _ _ _ _ _ _ _ := b in r.
Definition c16_classes (c : c16_case) : list string :=
  match c with
  | HistCase blocks _ _ _ =>
      if forallb (fun b => reg_nodup_addr (blk_reg b)) blocks then [] else ["F28"%string]
  | _ => []
  end.

(* ---- "operator op has signed": accepted submissions of a history, at the level of the model ------------ *)
(* PreBlocker stores a submission when its operator is registered and the timestamp names a checkpoint *)
Definition blk_subs (c : chain) (e : env_blk) (acc : list (Z * Z * Z * sg)) : list (Z * Z * Z * sg) :=
  let r := fold_left reg_step (e_claims e) (c_reg c) in
  fold_left (fun acc o => let '(op, ts, s) := o in
                          match reg_get r op, find_ts (c_st c) ts with
                          | Some a, Some _ => (op, a, ts, s) :: acc
                          | _, _ => acc
                          end) (e_signs e) acc.

Fixpoint env_subs (H : hashes) (c : chain) (es : list env_blk) (acc : list (Z * Z * Z * sg)) : list (Z * Z * Z * sg) :=
  match es with
  | [] => acc
  | e :: es' => if c_halted c then acc else env_subs H (step H c e) es' (blk_subs c e acc)
  end.
