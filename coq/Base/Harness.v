(* Shared vocabulary of the correspondence checks.

   Every property's model file defines a [case] record (the inputs the Go harness fed to
   the real code together with what the real code answered) and a function
   [check : case -> list issue].  [check] (i) runs the model on the case's inputs and
   compares the projected observables with the implementation's answer ([Diff]) and
   (ii) evaluates the property's executable specification on the implementation's own
   answer ([Spec]).  The harness writes the cases as Gallina terms; [coqc] evaluates
   [check] on them with [vm_compute]; bin/check reads the printed list. *)
From Coq Require Import List String ZArith Bool.
Import ListNotations.
Open Scope string_scope.
Open Scope list_scope.

Inductive issue :=
| Spec (clause : string)    (* the property's executable spec is false on the implementation's output *)
| Diff (field : string).    (* implementation and model disagree on this projected observable *)

Definition issues := list issue.

Definition spec_if (b : bool) (clause : string) : issues := if b then [] else [Spec clause].
Definition diff_if (b : bool) (field : string) : issues := if b then [] else [Diff field].

(* result of running a list of cases: the positions (0-based) whose issue list is not empty.
   (The cases are a plain list, without explicit numbering: elaborating pairs around large
   literals is what makes coqc slow.) *)
Definition number {A} (l : list A) : list (nat * A) := combine (seq 0 (List.length l)) l.

Definition run_cases {C} (check : C -> issues) (cs : list C) : list (nat * issues) :=
  filter (fun p => match snd p with [] => false | _ => true end)
         (number (map check cs)).

(* classification of cases into known-finding classes (signature predicates) *)
Definition class_cases {C} (classes : C -> list string) (cs : list C) : list (nat * list string) :=
  filter (fun p => match snd p with [] => false | _ => true end)
         (number (map classes cs)).

Definition Zeqb_opt (a b : option Z) : bool :=
  match a, b with Some x, Some y => Z.eqb x y | None, None => true | _, _ => false end.

Fixpoint list_eqb {A} (eqb : A -> A -> bool) (a b : list A) : bool :=
  match a, b with
  | [], [] => true
  | x :: a', y :: b' => eqb x y && list_eqb eqb a' b'
  | _, _ => false
  end.

Lemma list_eqb_eq {A} (eqb : A -> A -> bool) :
  (forall x y, eqb x y = true -> x = y) -> forall a b, list_eqb eqb a b = true -> a = b.
Proof.
  intros H. induction a as [|x a IH]; destruct b as [|y b]; cbn; intros E; try discriminate; [reflexivity|].
  apply andb_prop in E. destruct E as [E1 E2]. f_equal; [apply H; exact E1 | apply IH; exact E2].
Qed.

Lemma spec_if_nil b c : spec_if b c = [] -> b = true.
Proof. destruct b; cbn; [reflexivity | discriminate]. Qed.
Lemma diff_if_nil b c : diff_if b c = [] -> b = true.
Proof. destruct b; cbn; [reflexivity | discriminate]. Qed.
Lemma app_nil_both {A} (a b : list A) : a ++ b = [] -> a = [] /\ b = [].
Proof. destruct a; cbn; [intros; split; [reflexivity | assumption] | discriminate]. Qed.
