(* cosmossdk.io/math v1.3.0 LegacyDec, exactly: a Dec is a Z scaled by 10^18.
   All divisions in the Go library are big.Int.Quo (truncation toward zero). *)
From Coq Require Import ZArith Lia.
Open Scope Z_scope.

Definition P : Z := 1000000000000000000.
Definition HALF : Z := 500000000000000000.

(* chopPrecisionAndRound: banker's rounding of d / 10^18, sign-symmetric *)
Definition chop_round_nonneg (a : Z) : Z :=
  let q := a / P in let r := a mod P in
  if r =? 0 then q else
  match r ?= HALF with Lt => q | Gt => q + 1 | Eq => if Z.even q then q else q + 1 end.
Definition chop_round (d : Z) : Z := if d <? 0 then - chop_round_nonneg (- d) else chop_round_nonneg d.

Definition dec_mul (a b : Z) : Z := chop_round (a * b).
Definition dec_mul_trunc (a b : Z) : Z := Z.quot (a * b) P.
Definition dec_quo (a b : Z) : Z := chop_round (Z.quot (a * P * P) b).
Definition dec_quo_trunc (a b : Z) : Z := Z.quot (Z.quot (a * P * P) b) P.
Definition dec_mul_int (a i : Z) : Z := a * i.
Definition dec_quo_int (a i : Z) : Z := Z.quot a i.
Definition of_int (i : Z) : Z := i * P.
Definition truncate_int (a : Z) : Z := Z.quot a P.
Definition round_int (a : Z) : Z := chop_round a.

Lemma P_pos : 0 < P. Proof. reflexivity. Qed.

Lemma chop_round_nonneg_err a : 0 <= a -> 2 * Z.abs (chop_round_nonneg a * P - a) <= P /\ 0 <= chop_round_nonneg a.
Proof.
  intros Ha. unfold chop_round_nonneg.
  pose proof (Z.div_mod a P ltac:(unfold P; lia)) as Hdm.
  pose proof (Z.mod_pos_bound a P ltac:(unfold P; lia)) as Hr.
  assert (Hq : 0 <= a / P) by (apply Z.div_pos; unfold P; lia).
  set (q := a / P) in *. set (r := a mod P) in *.
  destruct (r =? 0) eqn:E0; [apply Z.eqb_eq in E0; unfold P in *; lia|]. apply Z.eqb_neq in E0.
  destruct (Z.compare_spec r HALF) as [E|E|E]; [destruct (Z.even q)| |]; unfold P, HALF in *; lia.
Qed.

Lemma chop_round_err d : 2 * Z.abs (chop_round d * P - d) <= P.
Proof.
  unfold chop_round. destruct (d <? 0) eqn:E; [apply Z.ltb_lt in E | apply Z.ltb_ge in E].
  - destruct (chop_round_nonneg_err (- d) ltac:(lia)) as [H _]. lia.
  - destruct (chop_round_nonneg_err d E) as [H _]. exact H.
Qed.

Lemma chop_round_nonneg_sign d : 0 <= d -> 0 <= chop_round d.
Proof.
  intros H. unfold chop_round. destruct (d <? 0) eqn:E; [apply Z.ltb_lt in E; lia|].
  apply chop_round_nonneg_err; exact H.
Qed.

Lemma chop_round_exact k : chop_round (k * P) = k.
Proof.
  unfold chop_round. destruct (k * P <? 0) eqn:E; [apply Z.ltb_lt in E | apply Z.ltb_ge in E].
  - unfold chop_round_nonneg. replace (- (k * P)) with ((- k) * P) by ring.
    rewrite Z.mod_mul, Z.div_mul by (unfold P; lia). cbn. lia.
  - unfold chop_round_nonneg. rewrite Z.mod_mul, Z.div_mul by (unfold P; lia). reflexivity.
Qed.

Lemma dec_mul_err a b : 2 * Z.abs (dec_mul a b * P - a * b) <= P.
Proof. apply chop_round_err. Qed.

Lemma dec_mul_nonneg a b : 0 <= a -> 0 <= b -> 0 <= dec_mul a b.
Proof. intros. apply chop_round_nonneg_sign. nia. Qed.

Lemma dec_quo_nonneg a b : 0 <= a -> 0 < b -> 0 <= dec_quo a b.
Proof.
  intros Ha Hb. apply chop_round_nonneg_sign. apply Z.quot_pos; [|lia].
  unfold P. nia.
Qed.

(* multiplying by an integer-valued Dec is exact *)
Lemma dec_mul_of_int_r a i : dec_mul a (of_int i) = a * i.
Proof. unfold dec_mul, of_int. replace (a * (i * P)) with ((a * i) * P) by ring. apply chop_round_exact. Qed.
Lemma dec_mul_of_int_l a i : dec_mul (of_int i) a = i * a.
Proof. unfold dec_mul, of_int. replace (i * P * a) with ((i * a) * P) by ring. apply chop_round_exact. Qed.

(* a.Quo(b) for an integer-valued divisor b = i*10^18 (i > 0, a >= 0):
   chop_round of the truncated quotient a*10^18 / i *)
Lemma dec_quo_of_int a i : 0 < i -> dec_quo a (of_int i) = chop_round (Z.quot (a * P) i).
Proof.
  intros Hi. unfold dec_quo, of_int. f_equal.
  replace (a * P * P) with ((a * P) * P) by ring.
  rewrite Z.quot_mul_cancel_r by (unfold P; lia). reflexivity.
Qed.

(* error of the quotient: |q*i - a| <= i  (strictly less than one unit of 10^-18 per unit of i) *)
Lemma dec_quo_of_int_err a i : 0 <= a -> 0 < i -> Z.abs (dec_quo a (of_int i) * i - a) <= i.
Proof.
  intros Ha Hi. rewrite dec_quo_of_int by exact Hi.
  set (d := Z.quot (a * P) i).
  pose proof (chop_round_err d) as He.
  assert (Hd : 0 <= a * P - d * i < i).
  { unfold d. rewrite Z.quot_div_nonneg by (unfold P; nia).
    pose proof (Z.div_mod (a * P) i ltac:(lia)). pose proof (Z.mod_pos_bound (a * P) i Hi). nia. }
  (* |c*P - d| <= P/2  and  0 <= a*P - d*i < i  ==>  |c*i - a| <= i *)
  set (c := chop_round d) in *.
  assert (2 * Z.abs (c * P * i - d * i) <= P * i) by nia.
  assert (Z.abs (c * i * P - a * P) <= P * i).
  { unfold P in *. lia. }
  unfold P in *. nia.
Qed.
