(* C09 — Each reward is split exactly, non-negatively and in proportion to backing stake.
   Property theorems only; proofs live in Proofs/RewardsProofs.v. *)
From Coq Require Import ZArith List Permutation.
From Verif Require Import Base.Harness Base.Dec Model.Rewards Proofs.RewardsProofs.
Import ListNotations.
Open Scope Z_scope.

(* the amounts handed to the reporters sum to the reward exactly, whatever the map order *)
Theorem C09_sum_exact acc order aggs R :
  R <> 0 -> order <> [] -> sumz (amounts (allocate_rewards_ord acc order aggs R)) = of_int R.
Proof. exact (allocate_sum_exact acc order aggs R). Qed.
Print Assumptions C09_sum_exact.

(* every reporter's computed part is non-negative and proportional to power*count / total:
   |amount*T - R*(p*n)*10^18| <= R*T, i.e. within R units of 10^-18 *)
Theorem C09_amount_nonneg p n T R : 0 <= p -> 0 <= n -> 0 < T -> 0 <= R -> 0 <= calc_reward p n T R.
Proof. exact (calc_reward_nonneg p n T R). Qed.
Print Assumptions C09_amount_nonneg.

Theorem C09_proportional p n T R : 0 <= p -> 0 <= n -> 0 < T -> 0 <= R ->
  Z.abs (calc_reward p n T R * T - R * (p * n) * P) <= R * T.
Proof. exact (calc_reward_err p n T R). Qed.
Print Assumptions C09_proportional.

(* all payments but the last are the computed parts, hence non-negative.
   PARTIAL: the full statement also covers the last reporter, whose amount is
   part + (R - sum of parts) and is non-negative when n_reporters * T <= 2*10^18; that last step
   is validated by the executable spec on every generated case but not yet proved. *)
Theorem C09_nonneg_partial acc T R l dist :
  Forall (fun x => 0 <= raw_amount acc T R x) l ->
  forall a, In a (amounts (removelast (pay_loop acc T R dist l))) -> 0 <= a.
Proof. exact (pay_loop_amounts acc T R l dist). Qed.
Print Assumptions C09_nonneg_partial.

(* C01: the payments do not depend on the iteration order of the reporters map *)
Theorem C09_map_order_independent acc o1 o2 aggs R :
  Permutation o1 o2 -> NoDup (map i_id o1) ->
  allocate_rewards_ord acc o1 aggs R = allocate_rewards_ord acc o2 aggs R.
Proof. exact (allocate_rewards_map_order_independent acc o1 o2 aggs R). Qed.
Print Assumptions C09_map_order_independent.

Theorem C09_collected_ids_distinct acc aggs : NoDup (map i_id (collect acc aggs)).
Proof. exact (collect_nodup acc aggs). Qed.
Print Assumptions C09_collected_ids_distinct.

(* within a reporter: credits are non-negative, sum to the reward within one 10^-18 unit per
   token origin, and each delegator gets its pro-rata share plus the commission exactly once *)
Theorem C09_credits_nonneg reporter rate reward origins total :
  0 <= reward -> 0 <= rate <= P -> 0 < total -> Forall (fun o => 0 <= snd o) origins ->
  Forall (fun c => 0 <= snd c) (divvy_credits true reporter rate reward origins total).
Proof. exact (divvy_credits_nonneg reporter rate reward origins total). Qed.
Print Assumptions C09_credits_nonneg.

Theorem C09_credits_sum reporter rate reward origins total :
  0 <= reward -> 0 <= rate <= P -> 0 < total -> Forall (fun o => 0 <= snd o) origins ->
  total = sumz (map snd origins) ->
  Z.abs (sumz (map snd (divvy_credits true reporter rate reward origins total)) - reward)
  <= Z.of_nat (List.length origins).
Proof. exact (divvy_credits_sum reporter rate reward origins total). Qed.
Print Assumptions C09_credits_sum.

Theorem C09_commission_once reporter rate reward origins total d :
  0 <= reward -> 0 <= rate <= P -> 0 < total -> Forall (fun o => 0 <= snd o) origins ->
  let m := divvy_credits true reporter rate reward origins total in
  let c := dec_mul reward rate in
  Z.abs (credit_of d m * total - ((reward - c) * sumz (origins_of d origins) + (if d =? reporter then c * total else 0)))
  <= Z.of_nat (List.length (origins_of d origins)) * total.
Proof. exact (divvy_commission_once reporter rate reward origins total d). Qed.
Print Assumptions C09_commission_once.

(* refutations for the code as found *)
Theorem C09_commission_per_origin_refuted :
  exists reporter rate reward origins total,
    0 <= rate <= P /\ total = sumz (map snd origins) /\
    sumz (map snd (divvy_credits false reporter rate reward origins total)) = reward + dec_mul reward rate.
Proof. exact divvy_commission_per_origin_refuted. Qed.
Print Assumptions C09_commission_per_origin_refuted.

Theorem C09_commission_rate_refuted :
  exists reporter rate reward origins total,
    rate <= 100 * P /\ total = sumz (map snd origins) /\
    exists c, In c (divvy_credits true reporter rate reward origins total) /\ snd c < 0.
Proof. exact divvy_rate_range_refuted. Qed.
Print Assumptions C09_commission_rate_refuted.

Theorem C09_multi_aggregate_refuted :
  exists aggs R a, In a (amounts (allocate_rewards false aggs R)) /\ a < 0.
Proof. exact allocate_first_power_refuted. Qed.
Print Assumptions C09_multi_aggregate_refuted.

(* the executable specs evaluated on implementation outputs imply the statements *)
Theorem C09_alloc_spec_sound aggs R pays : alloc_spec aggs R pays = [] ->
  sumz (amounts pays) = of_int R /\ Forall (fun a => 0 <= a) (amounts pays).
Proof. exact (alloc_spec_sound aggs R pays). Qed.
Print Assumptions C09_alloc_spec_sound.

Theorem C09_divvy_spec_sound reporter rate reward origins total credits :
  divvy_spec reporter rate reward origins total credits = [] ->
  Forall (fun c => 0 <= snd c) credits /\
  Z.abs (sumz (map snd credits) - reward) <= Z.of_nat (List.length origins).
Proof. exact (divvy_spec_sound reporter rate reward origins total credits). Qed.
Print Assumptions C09_divvy_spec_sound.

(* eligibility, on the real end-blocker pass (EligCase): when the check is silent, the calls are exactly the tips of the
   tipped rounds followed by one payout of the whole pool to the eligible rounds' reporters, and every recipient of a
   time-based-rewards payment reported in a cycle-list / bridge-deposit round of that block *)
Theorem C09_check_sound_eligibility rounds R impl :
  c09_check (EligCase rounds R impl) = [] ->
  list_eqb call_eqb (elig_expected rounds R) impl = true /\
  (forall c, In c impl -> fst (fst c) = 2 ->
     snd (fst c) = R /\
     forall id a q h, In (id, a, q, h) (snd c) -> In id (reporters_of_rounds (filter (fun r => fst (fst r)) rounds))).
Proof. exact (elig_check_sound rounds R impl). Qed.
Print Assumptions C09_check_sound_eligibility.
