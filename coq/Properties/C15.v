(* C15 — Bridge byte encodings agree with what the EVM contracts compute and verify.
   Property theorems only; models in Model/BridgeEnc.v, proofs in Proofs/BridgeEncProofs.v.
   Go side = go_* (x/bridge/keeper, app/extend_vote.go as they are); contract side = sol_*
   (BlobstreamO.sol, Constants.sol, TokenBridge.sol over the ABI specification's encoder).
   Hash functions are arbitrary (H, sha); keccak256 / sha256 of the model are instances. *)
From Coq Require Import ZArith List String.
From Verif Require Import Base.Harness Model.BridgeEnc Proofs.BridgeEncProofs.
Import ListNotations.
Open Scope Z_scope.

(* go-ethereum's Arguments.Pack loop (used by every encoder of the keeper) computes the ABI
   specification's enc(X1..Xk) = head(X1)..head(Xk) tail(X1)..tail(Xk), for every argument list *)
Theorem C15_geth_pack_is_abi_encode args : geth_pack args = abi_encode args.
Proof. exact (geth_pack_spec args). Qed.
Print Assumptions C15_geth_pack_is_abi_encode.

(* validator set: the hand-rolled offset ‖ length ‖ Σ Pack(address,uint256) of EncodeAndHashValidatorSet
   is abi.encode(Validator[]) byte for byte, for every set (any length below 2^64, any 20-byte
   addresses, any uint64 powers) *)
Theorem C15_valset_bytes_eq vs :
  Z.of_nat (List.length vs) < 2 ^ 64 -> forallb go_validator_ok vs = true ->
  go_valset_bytes vs = sol_valset_bytes (map to_sol_validator vs).
Proof. exact (valset_bytes_eq vs). Qed.
Print Assumptions C15_valset_bytes_eq.

Theorem C15_valset_hash_eq (H : bytes -> bytes) vs :
  Z.of_nat (List.length vs) < 2 ^ 64 -> forallb go_validator_ok vs = true ->
  H (go_valset_bytes vs) = H (sol_valset_bytes (map to_sol_validator vs)).
Proof. exact (valset_hash_eq H vs). Qed.
Print Assumptions C15_valset_hash_eq.

(* domain-separated checkpoint: for all thresholds, timestamps and 32-byte hashes *)
Theorem C15_checkpoint_preimage_eq thr ts hash :
  List.length hash = 32%nat -> go_checkpoint_preimage thr ts hash = sol_domain_separate thr ts hash.
Proof. exact (checkpoint_preimage_eq thr ts hash). Qed.
Print Assumptions C15_checkpoint_preimage_eq.

(* ... and composed with the chain's own validator-set hash: what SetBridgeValidatorParams stores is
   _domainSeparateValidatorSetHash(thr, ts, keccak256(abi.encode(valset))) for any 32-byte hash function *)
Theorem C15_checkpoint_chain_eq (H : bytes -> bytes) vs thr ts :
  Z.of_nat (List.length vs) < 2 ^ 64 -> forallb go_validator_ok vs = true ->
  List.length (H (sol_valset_bytes (map to_sol_validator vs))) = 32%nat ->
  H (go_checkpoint_preimage thr ts (H (go_valset_bytes vs))) =
  H (sol_domain_separate thr ts (H (sol_valset_bytes (map to_sol_validator vs)))).
Proof. exact (checkpoint_chain_eq H vs thr ts). Qed.
Print Assumptions C15_checkpoint_chain_eq.

(* attestation digest: for every 32-byte query id and checkpoint, every value (any byte length, given
   as the hex string the aggregate stores) and all timestamps / powers *)
Theorem C15_attest_preimage_eq qid value v ts power prev next cp ats :
  List.length qid = 32%nat -> List.length cp = 32%nat -> hex_decode value = Some v ->
  go_attest_preimage qid value ts power prev next cp ats =
  Some (sol_data_digest_preimage qid v ts power prev next cp ats).
Proof. exact (attest_preimage_eq qid value v ts power prev next cp ats). Qed.
Print Assumptions C15_attest_preimage_eq.

Theorem C15_attest_digest_eq (H : bytes -> bytes) qid value v ts power prev next cp ats :
  List.length qid = 32%nat -> List.length cp = 32%nat -> hex_decode value = Some v ->
  option_map H (go_attest_preimage qid value ts power prev next cp ats) =
  Some (H (sol_data_digest_preimage qid v ts power prev next cp ats)).
Proof. exact (attest_digest_eq H qid value v ts power prev next cp ats). Qed.
Print Assumptions C15_attest_digest_eq.

(* the encoder fails exactly when the stored value is not hexadecimal *)
Theorem C15_attest_error_iff qid value ts power prev next cp ats :
  go_attest_preimage qid value ts power prev next cp ats = None <-> hex_decode value = None.
Proof. exact (attest_error_iff qid value ts power prev next cp ats). Qed.
Print Assumptions C15_attest_error_iff.

(* deposit (to_layer = true) and withdrawal (false) query data / ids, for every id *)
Theorem C15_query_data_eq to_layer id : go_query_data to_layer id = sol_query_data to_layer id.
Proof. exact (query_data_eq to_layer id). Qed.
Print Assumptions C15_query_data_eq.

Theorem C15_query_id_eq (H : bytes -> bytes) to_layer id : H (go_query_data to_layer id) = H (sol_query_data to_layer id).
Proof. exact (query_id_eq H to_layer id). Qed.
Print Assumptions C15_query_id_eq.

(* withdrawal report value: it is abi.encode(address, string, uint256, uint256 0) of the recipient's last
   20 bytes, the sender string and the amount, for recipients and sender strings of any length *)
Theorem C15_withdraw_value_eq amount sender recipient :
  bytes_ok recipient = true ->
  go_withdraw_value amount sender recipient = sol_withdraw_value (of_be (bytes_to_address recipient)) sender amount 0.
Proof. exact (withdraw_value_eq amount sender recipient). Qed.
Print Assumptions C15_withdraw_value_eq.

(* ... and the contract's abi.decode(value,(address,string,uint256,uint256)) returns exactly these fields *)
Theorem C15_withdraw_value_decodes amount sender recipient :
  bytes_ok recipient = true -> 0 <= amount < 2 ^ 64 -> blen sender < 2 ^ 256 ->
  sol_decode_withdraw_value (go_withdraw_value amount sender recipient) =
  Some (WF (of_be (bytes_to_address recipient)) sender amount 0).
Proof. exact (go_withdraw_value_decodes amount sender recipient). Qed.
Print Assumptions C15_withdraw_value_decodes.

(* the aggregate stores the value as hex.EncodeToString; CreateSnapshot decodes it again *)
Theorem C15_hex_roundtrip b : bytes_ok b = true -> hex_decode (hex_encode b) = Some b.
Proof. exact (hex_roundtrip b). Qed.
Print Assumptions C15_hex_roundtrip.

(* hence the digest validators sign for a withdrawal is the contract's data digest over the value it decodes *)
Theorem C15_withdraw_attest_digest_eq (H : bytes -> bytes) qid amount sender recipient ts power prev next cp ats :
  List.length qid = 32%nat -> List.length cp = 32%nat ->
  bytes_ok recipient = true -> bytes_ok sender = true -> 0 <= amount ->
  option_map H (go_attest_preimage qid (hex_encode (go_withdraw_value amount sender recipient)) ts power prev next cp ats) =
  Some (H (sol_data_digest_preimage qid (sol_withdraw_value (of_be (bytes_to_address recipient)) sender amount 0)
                                    ts power prev next cp ats)).
Proof. exact (withdraw_attest_digest_eq H qid amount sender recipient ts power prev next cp ats). Qed.
Print Assumptions C15_withdraw_attest_digest_eq.

(* power threshold.  The code as found computes ⌊2T/3⌋ while the total power T stays below 2^63 ... *)
Theorem C15_threshold_two_thirds_partial powers :
  Forall (fun p => 0 <= p) powers -> sum_powers powers < 2 ^ 63 ->
  go_threshold false powers = Some (spec_threshold powers).
Proof. exact (threshold_two_thirds powers). Qed.
Print Assumptions C15_threshold_two_thirds_partial.

(* ... and not beyond (finding F25): one validator of power 2^63 gives threshold 0 *)
Theorem C15_threshold_overflow_refuted :
  exists powers, Forall (fun p => 0 <= p < 2 ^ 64) powers /\ sum_powers powers = 2 ^ 63 /\
                 go_threshold false powers = Some 0 /\ spec_threshold powers = 6148914691236517205.
Proof. exact threshold_overflow_refuted. Qed.
Print Assumptions C15_threshold_overflow_refuted.

(* the repaired variant (fix_F25.diff): for every set, a threshold that is produced is ⌊2T/3⌋ and fits
   uint64; an error is returned only when ⌊2T/3⌋ does not fit the contract's uint64 parameter *)
Theorem C15_threshold_repaired powers :
  match go_threshold true powers with
  | Some thr => thr = spec_threshold powers /\ thr < 2 ^ 64
  | None => 2 ^ 64 <= spec_threshold powers
  end.
Proof. exact (threshold_repaired powers). Qed.
Print Assumptions C15_threshold_repaired.

(* "two thirds": 3·thr <= 2·T < 3·thr + 3 *)
Theorem C15_threshold_meaning powers thr :
  thr = spec_threshold powers -> 3 * thr <= 2 * sum_powers powers < 3 * thr + 3.
Proof. exact (threshold_meaning powers thr). Qed.
Print Assumptions C15_threshold_meaning.

(* signing convention: the payload the keyring signs (sha of the message) is the payload the contract
   recovers against (sha of abi.encodePacked(bytes32 digest)), for any sha *)
Theorem C15_sig_convention (sha : bytes -> bytes) digest : go_sign_payload sha digest = sol_verify_payload sha digest.
Proof. exact (sig_convention sha digest). Qed.
Print Assumptions C15_sig_convention.

(* the executable spec evaluated on the implementation's outputs is these statements *)
Theorem C15_check_sound_valset vs ib ih gen :
  c15_check (ValsetCase vs ib ih gen) = [] ->
  unhex ib = sol_valset_bytes (sol_validators vs) /\
  unhex ih = keccak256 (sol_valset_bytes (sol_validators vs)).
Proof. exact (check_sound_valset vs ib ih gen). Qed.
Print Assumptions C15_check_sound_valset.

Theorem C15_check_sound_params vs ms thr ts ih icpp icp :
  c15_check (ParamsCase vs ms false thr ts ih icpp icp) = [] ->
  thr = spec_threshold (powers_of vs) /\ ts = ms /\
  unhex ih = keccak256 (sol_valset_bytes (sol_validators vs)) /\
  unhex icp = keccak256 (sol_domain_separate thr ts (unhex ih)).
Proof. exact (check_sound_params vs ms thr ts ih icpp icp). Qed.
Print Assumptions C15_check_sound_params.

Theorem C15_check_sound_attest qid value ts power prev next cp ats idig gen :
  List.length (unhex qid) = 32%nat -> List.length (unhex cp) = 32%nat ->
  c15_check (AttestCase qid value ts power prev next cp ats false idig gen) = [] ->
  unhex idig = keccak256 (sol_data_digest_preimage (unhex qid) (unhex value) ts power prev next (unhex cp) ats).
Proof. exact (check_sound_attest qid value ts power prev next cp ats idig gen). Qed.
Print Assumptions C15_check_sound_attest.

Theorem C15_check_sound_snapshot qid value power ts prev next cp ms isnap data listed :
  List.length (unhex qid) = 32%nat -> List.length (unhex cp) = 32%nat ->
  c15_check (SnapshotCase qid value power ts prev next cp ms false isnap data listed) = [] ->
  unhex isnap = keccak256 (sol_data_digest_preimage (unhex qid) (unhex value) ts power (opt_ms prev) (opt_ms next) (unhex cp) ms).
Proof. exact (check_sound_snapshot qid value power ts prev next cp ms isnap data listed). Qed.
Print Assumptions C15_check_sound_snapshot.

Theorem C15_check_sound_query_id dep id iq gen :
  c15_check (QueryIdCase dep id iq gen) = [] -> unhex iq = keccak256 (sol_query_data dep id).
Proof. exact (check_sound_query_id dep id iq gen). Qed.
Print Assumptions C15_check_sound_query_id.

Theorem C15_check_sound_withdraw_value amount sender recipient iv gen :
  c15_check (WithdrawValueCase amount sender recipient iv gen) = [] ->
  sol_decode_withdraw_value (unhex iv) =
  Some (WF (of_be (bytes_to_address (unhex recipient))) (str_bytes sender) amount 0).
Proof. exact (check_sound_withdraw_value amount sender recipient iv gen). Qed.
Print Assumptions C15_check_sound_withdraw_value.

Theorem C15_check_sound_sign digest sig signer payload e27 e28 c0 c1 :
  c15_check (SignCase digest sig signer payload e27 e28 c0 c1) = [] ->
  List.length (unhex sig) = 64%nat /\ (e27 = signer \/ e28 = signer) /\ (c0 = signer \/ c1 = signer) /\
  unhex payload = sol_verify_payload sha256 (unhex digest).
Proof. exact (check_sound_sign digest sig signer payload e27 e28 c0 c1). Qed.
Print Assumptions C15_check_sound_sign.

(* the executable keccak-256 / sha-256 of the model reproduce the standard test vectors (they are also
   compared with go-ethereum's / Go's digests on every case of every run) *)
Theorem C15_hash_vectors :
  hex_encode (keccak256 []) = "c5d2460186f7233c927e7db2dcc703c0e500b653ca82273b7bfad8045d85a470"%string /\
  hex_encode (keccak256 (str_bytes "abc")) = "4e03657aea45a94fc7d47ba826c8d667c0d1e6e33a64a036ec44f58fa12d6c45"%string /\
  hex_encode (keccak256 (repeat 97 200)) = "96ea54061def936c4be90b518992fdc6f12f535068a256229aca54267b4d084d"%string /\
  hex_encode (sha256 []) = "e3b0c44298fc1c149afbf4c8996fb92427ae41e4649b934ca495991b7852b855"%string /\
  hex_encode (sha256 (str_bytes "abc")) = "ba7816bf8f01cfea414140de5dae2223b00361a396177a9cb410ff61f20015ad"%string /\
  hex_encode (sha256 (repeat 97 56)) = "b35439a4ac6f0948b6d6f9e3c6af0f5f590ce20f1bde7090ef7970686ec6738a"%string.
Proof. exact (conj keccak256_empty (conj keccak256_abc (conj keccak256_two_blocks (conj sha256_empty (conj sha256_abc sha256_two_blocks))))). Qed.
Print Assumptions C15_hash_vectors.

(* non-vacuity: a regular three-member set; the two encoders give 256 bytes and the same keccak-256 *)
Theorem C15_nonvacuous :
  (forallb go_validator_ok ex_valset = true /\ Z.of_nat (List.length ex_valset) < 2 ^ 64) /\
  (hex_encode (keccak256 (go_valset_bytes ex_valset)) = hex_encode (keccak256 (sol_valset_bytes (map to_sol_validator ex_valset))) /\
   blen (go_valset_bytes ex_valset) = 256) /\
  (go_threshold false [100; 200; 300] = Some 400 /\ go_threshold true [100; 200; 300] = Some 400) /\
  sol_decode_withdraw_value (go_withdraw_value 1000 (str_bytes "tellor1abc") (repeat 0xab 20)) =
  Some (WF (of_be (repeat 0xab 20)) (str_bytes "tellor1abc") 1000 0).
Proof. exact (conj ex_valset_regular (conj ex_valset_hash (conj ex_threshold ex_withdraw_decode))). Qed.
Print Assumptions C15_nonvacuous.
