(* C11 — Slashing takes exactly the category's share of the disputed report's stake.
   Property theorems only; proofs live in Proofs/SlashProofs.v.  [as_found] is the code as it is,
   [repaired] the behaviour after the four repairs F13 / F34 / F38 / F39 (Model/Slash.v). *)
From Coq Require Import ZArith List Bool.
From Verif Require Import Base.Dec Base.Harness Model.Slash Proofs.SlashProofs.
Import ListNotations.
Open Scope Z_scope.

(* ---- the amount ------------------------------------------------------------------------------------------ *)
(* SlashAndJailReporter's Dec arithmetic is exact: the slash is power * 10^6 * {1 %, 5 %, 100 %} *)
Theorem C11_slash_amount power cat pct :
  slash_pct cat = Some pct ->
  slash_amount power pct = power * pct /\
  ((cat = 1 /\ pct = 10000) \/ (cat = 2 /\ pct = 50000) \/ (cat = 3 /\ pct = 1000000)).
Proof. exact (fun H => conj (slash_amount_exact power pct) (slash_pct_cases cat pct H)). Qed.
Print Assumptions C11_slash_amount.

(* "fully funded" means: the fee paid equals the slash amount (GetDisputeFee = slash amount for every category) *)
Theorem C11_fee_equals_slash power cat f :
  dispute_fee power cat = Some f -> exists pct, slash_pct cat = Some pct /\ f = power * pct /\ f = slash_amount power pct.
Proof. exact (dispute_fee_is_slash power cat f). Qed.
Print Assumptions C11_fee_equals_slash.

(* ---- apportioning ------------------------------------------------------------------------------------------ *)
(* the shares of the origins always add up to the slash amount, for any snapshot (both variants) *)
Theorem C11_shares_sum vr power amt origins :
  origins <> [] -> sum_z (shares vr power amt origins) = amt /\ List.length (shares vr power amt origins) = List.length origins.
Proof. exact (fun H => conj (shares_sum vr power amt origins H) (shares_go_length vr _ amt origins amt)). Qed.
Print Assumptions C11_shares_sum.

(* each rounded share is within one loya of the exact pro-rata share a * amt / total (amounts up to 5*10^17 loya) *)
Theorem C11_share_within_one_unit a total amt :
  0 <= a -> 0 < total -> 0 <= amt -> 2 * amt <= P -> Z.abs (share_of a total amt * total - a * amt) <= total.
Proof. exact (share_of_bound a total amt). Qed.
Print Assumptions C11_share_within_one_unit.

(* finding F39: the code divides by power * 10^6, not by the recorded stake: with 10.5 TRB + 100 loya (power 10) the
   last share of a minor slash is -25000 and the transaction fails; 1 499 999 of 10 999 999 loya pays 1 499 999 of a
   major slash where its pro-rata share is 1 363 636 *)
Theorem C11_fractional_stake_refuted :
  (Z.quot (sum_amt wit39_origins) PR = 10 /\ shares as_found 10 500000 wit39_origins = [525000; -25000] /\
   escrow as_found [] wit39 wit39_origins 10 500000 = None) /\
  (shares as_found 10 10000000 [Org 4 1 1499999; Org 3 0 9500000] = [1499999; 8500001] /\
   shares repaired 10 10000000 [Org 4 1 1499999; Org 3 0 9500000] = [1363636; 8636364]).
Proof. exact (conj wit39_found wit39_proportion). Qed.
Print Assumptions C11_fractional_stake_refuted.

Theorem C11_fractional_stake_repaired :
  (forall vr total amt l leftover, fix39 vr = true -> 0 < total -> 0 <= amt -> 0 <= leftover ->
     Forall (fun o => 0 <= o_amt o) l -> Forall (fun s => 0 <= s) (shares_go vr total amt l leftover)) /\
  exists st' rec, escrow repaired [] wit39 wit39_origins 10 500000 = Some (st', rec) /\
                  s_escrow st' = 500000 /\ shares repaired 10 500000 wit39_origins = [499995; 5].
Proof. exact (conj shares_go_repaired_nonneg wit39_repaired). Qed.
Print Assumptions C11_fractional_stake_repaired.

(* ---- into escrow ------------------------------------------------------------------------------------------- *)
(* for every staking state, snapshot and variant: a successful escrow only moves coins from the two staking pools
   into the dispute escrow (nothing is created, lost, or sent elsewhere), and the escrow never shrinks *)
Theorem C11_escrow_moves_pool_coins_to_escrow vr reds st origins power amt st' rec :
  escrow vr reds st origins power amt = Some (st', rec) ->
  s_bonded st' + s_notbonded st' + s_escrow st' = s_bonded st + s_notbonded st + s_escrow st /\ s_escrow st <= s_escrow st'.
Proof. exact (escrow_conserves vr reds st origins power amt st' rec). Qed.
Print Assumptions C11_escrow_moves_pool_coins_to_escrow.

(* the repaired walk over unbonding entries takes them in order and accounts for every token *)
Theorem C11_unbonding_entries_in_order es t es' ra tl :
  Forall (fun e => 0 <= e) es -> 0 <= t -> ubd_loop_fixed es t = (es', ra, tl) ->
  ra = t - tl /\ 0 <= tl /\ sum_z es' = sum_z es - ra /\ Forall (fun e => 0 <= e) es' /\ (0 < tl -> es' = []).
Proof. exact (ubd_loop_fixed_spec es t es' ra tl). Qed.
Print Assumptions C11_unbonding_entries_in_order.

(* finding F13: two unbonding entries make the code as found fail; repaired, the 10 TRB are found *)
Theorem C11_unbonding_entries_refuted :
  escrow as_found [] wit13 [Org 3 0 10000000] 10 10000000 = None /\
  exists st' rec, escrow repaired [] wit13 [Org 3 0 10000000] 10 10000000 = Some (st', rec) /\
                  s_escrow st' = 10000000 /\ holdings st' 3 = 0 /\ rec = [Org 3 0 10000000].
Proof. exact (conj wit13_found wit13_repaired). Qed.
Print Assumptions C11_unbonding_entries_refuted.

(* finding F34: a validator that completed unbonding shields its delegators *)
Theorem C11_unbonded_validator_refuted :
  escrow as_found [] wit34 [Org 3 0 10000000] 10 100000 = None /\
  exists st' rec, escrow repaired [] wit34 [Org 3 0 10000000] 10 100000 = Some (st', rec) /\
                  s_escrow st' = 100000 /\ holdings wit34 3 - holdings st' 3 = 100000.
Proof. exact (conj wit34_found wit34_repaired). Qed.
Print Assumptions C11_unbonded_validator_refuted.

(* finding F38: redelegated to two validators: half of the slash silently missing, all of it recorded *)
Theorem C11_redelegation_chase_refuted :
  (exists st' rec, escrow as_found wit38_reds wit38 [Org 3 0 10000000] 10 10000000 = Some (st', rec) /\
                   s_escrow st' = 5000000 /\ sum_amt rec = 10000000 /\ holdings st' 3 = 5000000) /\
  (exists st' rec, escrow repaired wit38_reds wit38 [Org 3 0 10000000] 10 10000000 = Some (st', rec) /\
                   s_escrow st' = 10000000 /\ sum_amt rec = 10000000 /\ holdings st' 3 = 0).
Proof. exact (conj wit38_found wit38_repaired). Qed.
Print Assumptions C11_redelegation_chase_refuted.

(* finding F15: with an exchange rate other than 1 one loya less than recorded reached the escrow; repaired (as in
   /repo now): the smallest number of shares worth the whole amount is unbonded *)
Theorem C11_exchange_rate_refuted :
  (exists st' rec, escrow as_found [] wit15 [Org 3 0 6000000] 6 100000 = Some (st', rec) /\
                   s_escrow st' = 99999 /\ sum_amt rec = 100000) /\
  (exists st' rec, escrow repaired [] wit15 [Org 3 0 6000000] 6 100000 = Some (st', rec) /\
                   escrow current [] wit15 [Org 3 0 6000000] 6 100000 = Some (st', rec) /\
                   s_escrow st' = 100000 /\ sum_amt rec = 100000).
Proof. exact (conj wit15_found wit15_repaired). Qed.
Print Assumptions C11_exchange_rate_refuted.

(* F15 repaired, for every validator whose exchange rate is at most one token per share (a validator is only ever
   slashed, never credited) and every amount: SharesFromTokens rounded up by one smallest share step when the division
   is not exact yields shares that Unbond values at exactly the amount (the as-found shares can be worth one unit less,
   see the witness above) *)
Theorem C11_exchange_rate_repaired v a s t :
  0 < v_tokens v -> v_tokens v * P <= v_shares v -> 0 <= a ->
  shares_from_tokens v a = Some s ->
  tokens_from_shares v (if s * v_tokens v <? v_shares v * a then s + 1 else s) = Some t ->
  truncate_int t = a.
Proof. exact (shares_up_worth_amount v a s t). Qed.
Print Assumptions C11_exchange_rate_repaired.

(* ---- recorded per backer, jail, flag ------------------------------------------------------------------------ *)
(* a slash needs the stake snapshot of (query, reporter, height); it escrows power * pct, records exactly that under the
   dispute, flags the aggregate decided by the report, and jails: warning 0 s, minor 600 s, major not at all;
   an already jailed reporter makes warning / minor slashes fail (F19, observed) *)
Theorem C11_slash_and_jail vr e w id r cat w' :
  slash_and_jail vr e w id r cat = Some w' ->
  exists pct s st' recd,
    slash_pct cat = Some pct /\
    find_snap (rp_qid r) (rp_reporter r) (rp_height r) (e_snaps e) = Some s /\
    escrow vr (e_reds e) (w_stk w) (sn_origins s) (rp_power r) (rp_power r * pct) = Some (st', recd) /\
    w_stk w' = st' /\
    w_rcds w' = insert_rcd (Rcd id recd (rp_power r * pct)) (w_rcds w) /\
    w_aggs w' = flag_agg (rp_qid r) (rp_height r) (rp_reporter r) (w_aggs w) /\
    w_disps w' = w_disps w /\ w_now w' = w_now w /\
    match jail_secs cat with
    | None => w_reps w' = w_reps w
    | Some secs => find_rep (rp_reporter r) (w_reps w') = Some (Rps (rp_reporter r) true (w_now w + secs * 1000000000)) /\
                   exists old, find_rep (rp_reporter r) (w_reps w) = Some old /\ rs_jailed old = false
    end.
Proof. exact (slash_and_jail_inv vr e w id r cat w'). Qed.
Print Assumptions C11_slash_and_jail.

Theorem C11_jail_rule : jail_secs 1 = Some 0 /\ jail_secs 2 = Some 600 /\ jail_secs 3 = None.
Proof. exact (conj eq_refl (conj eq_refl eq_refl)). Qed.
Print Assumptions C11_jail_rule.

Theorem C11_flags_determined_aggregate q h r l :
  List.length (flag_agg q h r l) = List.length l /\
  (forall i a, nth_error l i = Some a -> exists a', nth_error (flag_agg q h r l) i = Some a' /\
      ag_qid a' = ag_qid a /\ ag_height a' = ag_height a /\ ag_reporter a' = ag_reporter a /\
      (ag_flagged a = true -> ag_flagged a' = true) /\
      (ag_flagged a' = true -> ag_flagged a = true \/ (ag_qid a = q /\ ag_height a = h /\ ag_reporter a = r))) /\
  (forall a, In a l -> ag_qid a = q -> ag_height a = h -> ag_reporter a = r ->
      exists a', In a' (flag_agg q h r l) /\ ag_qid a' = q /\ ag_height a' = h /\ ag_reporter a' = r /\ ag_flagged a' = true).
Proof. exact (flag_agg_spec q h r l). Qed.
Print Assumptions C11_flags_determined_aggregate.

(* ---- at most once, only when fully funded; underfunded disputes expire unslashed ----------------------------------- *)
(* over every history of proposals, fee payments and blocks, from any state satisfying the invariant (e.g. no disputes):
   no dispute has two escrow records, every record belongs to a dispute whose fee is complete and which is in voting,
   and a dispute in prevote or failed has an incomplete fee — hence no record *)
Theorem C11_once vr e ops w :
  linv w ->
  let w' := run vr e w ops in
  NoDup (map rc_id (w_rcds w')) /\
  (forall id, In id (map rc_id (w_rcds w')) ->
     exists d, find_disp id (w_disps w') = Some d /\ dp_fee_total d = dp_slash d /\ dp_status d = ST_VOTING) /\
  (forall id d, find_disp id (w_disps w') = Some d -> dp_status d = ST_PREVOTE \/ dp_status d = ST_FAILED ->
     dp_fee_total d < dp_slash d /\ ~ In id (map rc_id (w_rcds w'))).
Proof. exact (run_once vr e ops w). Qed.
Print Assumptions C11_once.

(* the empty chain satisfies the invariant *)
Theorem C11_once_from_genesis st reps aggs bond liq now : linv (W st reps aggs [] [] bond liq now).
Proof. exact (linv_fresh st reps aggs bond liq now). Qed.
Print Assumptions C11_once_from_genesis.

(* the three ways a second slash could be attempted are rejected: more fee for a complete dispute, fee after the
   deadline, a second proposal for the same report and category *)
Theorem C11_no_second_attempt vr e w sender id amount fb d r cat fee :
  (find_disp id (w_disps w) = Some d -> dp_slash d <= dp_fee_total d -> add_fee vr e w sender id amount fb = None) /\ (find_disp id (w_disps w) = Some d -> dp_end d < w_now w -> add_fee vr e w sender id amount fb = None) /\ (find_disp_report r cat (w_disps w) = Some d -> propose vr e w sender r cat fee fb = None).
Proof.
  exact (conj (add_fee_complete_rejected vr e w sender id amount fb d)
              (conj (add_fee_late_rejected vr e w sender id amount fb d) (propose_repeat_rejected vr e w sender r cat fee fb d))).
Qed.
Print Assumptions C11_no_second_attempt.

(* a proposal that pays less than the fee opens a prevote dispute with a one-day deadline and slashes nothing;
   one that pays it in full slashes in the same transaction *)
Theorem C11_proposal_shape vr e w sender r cat fee from_bond w' :
  propose vr e w sender r cat fee from_bond = Some w' ->
  find_disp_report r cat (w_disps w) = None /\ ONE_PERCENT <= fee /\ exists dfee paid w1, dispute_fee (rp_power r) cat = Some dfee /\ paid = Z.min fee dfee /\ pay w sender paid from_bond = Some w1 /\ let id := next_id (w_disps w) in
    ((paid = dfee /\ exists w2, slash_and_jail vr e w1 id r cat = Some w2 /\ w' = with_disps w2 (w_disps w2 ++ [Dsp id r cat ST_VOTING (w_now w + 3 * DAY) paid dfee true])) \/
     (paid < dfee /\ w' = with_disps w1 (w_disps w1 ++ [Dsp id r cat ST_PREVOTE (w_now w + DAY) paid dfee true]))).
Proof. exact (propose_inv vr e w sender r cat fee from_bond w'). Qed.
Print Assumptions C11_proposal_shape.

Theorem C11_underfunded_expires_unslashed now d :
  (dp_open d = true -> dp_status d = ST_PREVOTE -> dp_end d < now ->
   dp_status (expire now d) = ST_FAILED /\ dp_open (expire now d) = false /\ dp_fee_total (expire now d) = dp_fee_total d) /\
  (now <= dp_end d -> expire now d = d).
Proof. exact (conj (expire_spec now d) (expire_not_yet now d)). Qed.
Print Assumptions C11_underfunded_expires_unslashed.

(* ---- authenticity ------------------------------------------------------------------------------------------------ *)
(* finding F18: a report that was never submitted (value 77, power 30 instead of 1000 / 10) is accepted; the backer
   loses 1 500 000 instead of 500 000 and the aggregate is flagged *)
Theorem C11_report_authenticity_refuted :
  existsb (rep_eqb wit18_fake) (e_stored wit18_env) = false /\
  exists w', propose as_found wit18_env wit18_world 7 wit18_fake 2 1500000 false = Some w' /\
             holdings (w_stk wit18_world) 3 - holdings (w_stk w') 3 = 1500000 /\
             map rc_total (w_rcds w') = [1500000] /\ map ag_flagged (w_aggs w') = [true].
Proof. exact wit18_found. Qed.
Print Assumptions C11_report_authenticity_refuted.

(* ---- the check ---------------------------------------------------------------------------------------------------- *)
(* an empty issue list for an accepted escrow says this about the implementation's own output *)
Theorem C11_check_sound reds st0 origins power amt st1 recd rtotal :
  c11_check (EscrowCase reds st0 origins power amt true st1 recd rtotal) = [] ->
  Z.quot (sum_amt origins) PR = power /\
  rtotal = amt /\ sum_amt recd = amt /\
  (forall o, In o recd -> 0 < o_amt o /\ In (o_del o) (backers origins)) /\
  s_escrow st1 - s_escrow st0 = amt + 0 /\
  (s_bonded st0 + s_notbonded st0) - (s_bonded st1 + s_notbonded st1) = amt + 0 /\
  (forall d, In d (backers origins) ->
     Z.abs (holdings st0 d - holdings st1 d - amt_of d recd) <= inexact_dels st0 d /\
     Z.abs ((holdings st0 d - holdings st1 d) * sum_amt origins - amt_of d origins * amt)
       <= (count_of d origins + (if d =? last_del origins then Z.of_nat (List.length origins) else 0) + inexact_dels st0 d) * sum_amt origins).
Proof.
  exact (fun H => match escrow_case_sound reds st0 origins power amt st1 recd rtotal H with
                  | conj A B => conj A (escrow_spec_sound st0 st1 origins amt recd rtotal 0 0 B) end).
Qed.
Print Assumptions C11_check_sound.

(* [inexact_dels] counts the backer's delegations at validators whose exchange rate is not one (slashed before): the
   whole-token value of such a delegation is a rounded-down fraction before and after the slash; with every validator
   at rate one the loss of a backer is exactly the recorded amount *)
Theorem C11_loss_exact_at_rate_one st d :
  (forall v, In v (s_vals st) -> v_shares v = v_tokens v * P) -> inexact_dels st d = 0.
Proof. exact (inexact_dels_rate_one st d). Qed.
Print Assumptions C11_loss_exact_at_rate_one.

(* non-vacuity: a minor dispute paid in two parts slashes 5 % once, jails for 600 s, later payments and a repeat are
   rejected; an underfunded major dispute fails after a day without touching the stake *)
Example C11_example_history :
  let w := run as_found wit18_env wit18_world ex_ops in
  map rc_total (w_rcds w) = [500000] /\ s_escrow (w_stk w) = 1000000 /\
  holdings (w_stk wit18_world) 3 - holdings (w_stk w) 3 = 500000 /\
  w_reps w = [Rps 3 true (1700040000000000000 + 600 * 1000000000)] /\
  map (fun o => fst (step as_found wit18_env (run as_found wit18_env wit18_world (firstn 3 ex_ops)) o)) (skipn 3 ex_ops) = [false; false].
Proof. exact ex_history. Qed.

Example C11_example_expiry :
  let w := run as_found wit18_env wit18_world ex_ops2 in
  map dp_status (w_disps w) = [ST_FAILED] /\ map dp_open (w_disps w) = [false] /\ w_rcds w = [] /\
  holdings (w_stk w) 3 = holdings (w_stk wit18_world) 3.
Proof. exact ex_expiry. Qed.
