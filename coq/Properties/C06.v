(* C06 — The aggregate is the true weighted median / weighted mode of the reports.
   Property theorems only; proofs live in Proofs/OracleAggProofs.v. *)
From Coq Require Import ZArith List String Permutation.
From Verif Require Import Base.Harness Model.OracleAgg Proofs.OracleAggProofs.
Import ListNotations.
Open Scope Z_scope.

(* weighted median: value is a reported value with both half-power bounds (the lower one even
   strictly), power sum, every report listed once, reporter reported the value, index points to it *)
Theorem C06_median_is_weighted_median rs a :
  rs <> [] -> Forall (fun r => 1 <= r_pw r) rs -> weighted_median rs = Some a ->
  (exists v, parse16 (a_value a) = Some v /\ is_wmedian rs v) /\
  a_power a = sum_power rs /\
  Permutation (map mproj rs) (a_reporters a) /\
  (exists r, In r rs /\ r_who r = a_reporter a /\ r_value r = a_value a /\ r_blk r = a_micro a) /\
  (exists p b, 0 <= a_index a /\ nth_error (a_reporters a) (Z.to_nat (a_index a)) = Some (a_reporter a, p, b)).
Proof. exact (weighted_median_correct rs a). Qed.
Print Assumptions C06_median_is_weighted_median.

(* weighted mode: the value's reporters hold maximal power; same record-keeping facts *)
Theorem C06_mode_is_weighted_mode rs a :
  Forall (fun r => 1 <= r_pw r) rs -> weighted_mode_exec rs = Some a ->
  a_value a = mode_value true (distinct_values rs []) rs /\
  (forall v, weight_of v rs <= weight_of (a_value a) rs) /\
  a_power a = sum_power rs /\
  a_reporters a = map mproj rs /\
  (exists r, In r rs /\ r_who r = a_reporter a /\ r_value r = a_value a /\ r_blk r = a_micro a) /\
  (exists p b, 0 <= a_index a /\ nth_error (a_reporters a) (Z.to_nat (a_index a)) = Some (a_reporter a, p, b)).
Proof. exact (weighted_mode_correct rs a). Qed.
Print Assumptions C06_mode_is_weighted_mode.

(* the value does not depend on the order in which reports arrived *)
Theorem C06_median_value_order_independent rs rs' a a' :
  Permutation rs rs' -> rs <> [] -> Forall (fun r => 1 <= r_pw r) rs ->
  weighted_median rs = Some a -> weighted_median rs' = Some a' ->
  parse16 (a_value a) = parse16 (a_value a').
Proof. exact (weighted_median_order_independent rs rs' a a'). Qed.
Print Assumptions C06_median_value_order_independent.

Theorem C06_median_error_order_independent rs rs' :
  Permutation rs rs' -> (weighted_median rs = None <-> weighted_median rs' = None).
Proof. exact (weighted_median_error_order_independent rs rs'). Qed.
Print Assumptions C06_median_error_order_independent.

Theorem C06_mode_value_order_independent rs rs' a a' :
  Permutation rs rs' -> Forall (fun r => 1 <= r_pw r) rs ->
  weighted_mode_exec rs = Some a -> weighted_mode_exec rs' = Some a' -> a_value a = a_value a'.
Proof. exact (weighted_mode_order_independent rs rs' a a'). Qed.
Print Assumptions C06_mode_value_order_independent.

(* the executable specifications evaluated on the implementation's outputs imply the statements *)
Theorem C06_median_spec_sound rs a :
  median_spec rs a = [] ->
  exists v, parse16 (a_value a) = Some v /\ 2 * pow_lt_s rs v <= sum_power rs /\ sum_power rs <= 2 * pow_le_s rs v.
Proof. exact (median_spec_sound rs a). Qed.
Print Assumptions C06_median_spec_sound.

Theorem C06_mode_spec_sound rs a : Forall (fun r => 1 <= r_pw r) rs ->
  mode_spec rs a = [] -> forall v, weight_of v rs <= weight_of (a_value a) rs.
Proof. exact (mode_spec_sound rs a). Qed.
Print Assumptions C06_mode_spec_sound.
