(* C10 — Reporting power equals the bonded stake of active selectors, counted once.
   Property theorems only; definitions in Model/Reporter.v, proofs in Proofs/ReporterProofs.v.

   [step fx st o] is one operation of the reporter module (CreateReporter, SelectReporter,
   SwitchReporter, RemoveSelector, JailReporter, UnjailReporter, SubmitValue -> ReporterStake)
   or of its environment (OEnv: the staking state changed, with the two delegation hooks;
   OParams: governance; OBlock: next block); [run] folds it over a history.
   [fx = false] is the code as it is, [fx = true] values delegations alike in both walks of
   ReporterStake (repair of finding F43). *)
From Coq Require Import ZArith List.
From Verif Require Import Base.Harness Base.Dec Model.Reporter Proofs.ReporterProofs.
Import ListNotations.
Open Scope Z_scope.

(* ---- 1. the power carried by a report ----------------------------------------------------- *)
(* an accepted report: the reporter is registered and not jailed, the stake is the sum of the
   token origins it records, reaches MinStakeAmount, and the snapshot is stored under
   (query, reporter, height) *)
Theorem C10_report_accepted fx st r q :
  accepted fx st (OReport r q) ->
  let os := stake_origins fx (st_view st) (st_now st) (st_sel st) r in
  (exists rp, rep_get (st_rep st) r = Some rp /\ r_jailed rp = false) /\
  snd (step fx st (OReport r q)) = mkRes OK (total_of os) (wrap_u64 (Z.quot (total_of os) POWER_REDUCTION)) os /\
  p_min_stake (st_par st) <= total_of os /\
  st_snaps (fst (step fx st (OReport r q))) = snap_set (st_snaps st) (mkSnap q r (st_height st) (total_of os)) /\
  st_sel (fst (step fx st (OReport r q))) = st_sel st.
Proof. exact (report_accepted fx st r q). Qed.
Print Assumptions C10_report_accepted.

(* power = whole tokens of the stake (floor of stake / 10^6; no uint64 wrap below 2^64 TRB) *)
Theorem C10_power_is_whole_tokens total :
  0 <= total < two64 * POWER_REDUCTION -> wrap_u64 (Z.quot total POWER_REDUCTION) = total / POWER_REDUCTION.
Proof. exact (power_is_whole_tokens total). Qed.
Print Assumptions C10_power_is_whole_tokens.

(* the stake equals the bonded whole-loya value of the unlocked selectors' delegations, each
   counted once, whichever walk (by power index / by delegation) is taken for which selector:
   for every consistent staking view, with the uniform valuation *)
Theorem C10_power_is_bonded_stake vw now sels r :
  view_wf vw -> total_of (stake_origins true vw now sels r) = spec_stake vw now sels r.
Proof. exact (stake_is_bonded_stake vw now sels r). Qed.
Print Assumptions C10_power_is_bonded_stake.

(* the code as it is: equal when no validator has an inexact exchange rate ... *)
Theorem C10_power_is_bonded_stake_partial vw now sels r :
  view_wf vw -> rates_exact vw -> total_of (stake_origins false vw now sels r) = spec_stake vw now sels r.
Proof. exact (stake_is_bonded_stake_partial vw now sels r). Qed.
Print Assumptions C10_power_is_bonded_stake_partial.

(* ... otherwise short by at most one loya per recorded origin *)
Theorem C10_strategy_valuation_bound vw now sels r :
  view_nonneg vw -> NoDup (sv_power vw) ->
  total_of (stake_origins false vw now sels r) <= total_of (stake_origins true vw now sels r)
  <= total_of (stake_origins false vw now sels r) + Z.of_nat (List.length (stake_origins false vw now sels r)).
Proof. exact (stake_variant_bound vw now sels r). Qed.
Print Assumptions C10_strategy_valuation_bound.

(* one delegation: TokensFromSharesTruncated = floor of the exact value, TokensFromShares().TruncateInt()
   is that or one more *)
Theorem C10_valuations v sh :
  0 <= sh -> 0 <= v_tokens v -> 0 < v_shares v ->
  val_trunc v sh = (sh * v_tokens v) / v_shares v /\ val_trunc v sh <= val_round v sh <= val_trunc v sh + 1.
Proof. exact (fun H1 H2 H3 => conj (val_trunc_floor v sh H1 H2 H3) (val_round_bounds v sh H1 H2 H3)). Qed.
Print Assumptions C10_valuations.

(* the choice of the walk is irrelevant (uniform valuation, consistent view) *)
Theorem C10_strategy_choice_irrelevant vw s :
  view_wf vw -> total_of (origins_A true vw s) = total_of (origins_B vw s).
Proof. exact (walks_agree vw s). Qed.
Print Assumptions C10_strategy_choice_irrelevant.

(* finding F43: as the code is, the two walks value a delegation at a slashed validator differently *)
Theorem C10_strategy_valuation_refuted :
  exists vw now sels r, view_wf vw /\ view_nonneg vw /\
    total_of (stake_origins false vw now sels r) = 999999 /\ spec_stake vw now sels r = 1000000 /\
    total_of (stake_origins true vw now sels r) = 1000000.
Proof. exact strategy_valuation_refuted. Qed.
Print Assumptions C10_strategy_valuation_refuted.

(* finding F44: without the reach condition of [view_wf] (a validator jailed in this block keeps the
   status bonded but leaves the power index) the by-power walk misses a bonded delegation that the
   by-delegation walk counts *)
Theorem C10_strategy_reach_refuted :
  exists vw now sels r,
    NoDup (map v_id (sv_vals vw)) /\ NoDup (sv_power vw) /\ NoDup (map (fun d => (d_del d, d_val d)) (sv_dels vw)) /\
    rates_exact vw /\
    total_of (stake_origins true vw now sels r) = 2000000 /\ spec_stake vw now sels r = 7000000 /\
    total_of (stake_origins true vw now [mkSel 4 4 1 0] r) = 7000000.
Proof. exact strategy_reach_refuted. Qed.
Print Assumptions C10_strategy_reach_refuted.

(* ---- 2. every selector has one reporter; cap; joining needs the minimum -------------------- *)
(* the tables' invariant holds along every history in which governance does not lower MaxSelectors:
   sorted unique keys, a reporter keeps its own selection, a selection points to a registered
   reporter, no reporter exceeds the cap *)
Theorem C10_invariant fx ops st : inv st -> cap_kept_all fx st ops -> inv (run fx st ops).
Proof. exact (fun I H => run_inv fx ops st I H). Qed.
Print Assumptions C10_invariant.

Theorem C10_invariant_initially p : 1 <= p_max_sel p -> inv (mkState [] [] [] p empty_view 0 0).
Proof. exact (inv_init p). Qed.
Print Assumptions C10_invariant_initially.

Theorem C10_one_reporter_per_selector fx ops st a s1 s2 :
  inv st -> cap_kept_all fx st ops ->
  In s1 (st_sel (run fx st ops)) -> In s2 (st_sel (run fx st ops)) -> s_addr s1 = a -> s_addr s2 = a -> s1 = s2.
Proof. exact (fun I H => one_reporter_per_selector (run fx st ops) a s1 s2 (run_inv fx ops st I H)). Qed.
Print Assumptions C10_one_reporter_per_selector.

Theorem C10_cap fx ops st r :
  inv st -> cap_kept_all fx st ops ->
  sel_count (st_sel (run fx st ops)) r <= p_max_sel (st_par (run fx st ops)).
Proof. exact (fun I H => inv_cap _ (run_inv fx ops st I H) r). Qed.
Print Assumptions C10_cap.

(* RemoveSelector cannot succeed while the invariant holds (it needs a reporter above the cap) *)
Theorem C10_remove_needs_lowered_cap fx st a :
  inv st -> step fx st (ORemove a) = (st, snd (step fx st (ORemove a))) /\ rs_code (snd (step fx st (ORemove a))) <> OK.
Proof. exact (step_remove_fails fx st a). Qed.
Print Assumptions C10_remove_needs_lowered_cap.

Theorem C10_join_requires_min_select fx st a r :
  accepted fx st (OSelect a r) ->
  sel_get (st_sel st) a = None /\
  exists rp, rep_get (st_rep st) r = Some rp /\ r_min rp <= bonded_tokens (st_view st) a /\
             sel_count (st_sel st) r < p_max_sel (st_par st).
Proof. exact (select_accepted fx st a r). Qed.
Print Assumptions C10_join_requires_min_select.

Theorem C10_join_requires_min_switch fx st a r :
  view_nonneg (st_view st) -> accepted fx st (OSwitch a r) ->
  exists s rp, sel_get (st_sel st) a = Some s /\ s_reporter s <> a /\
               rep_get (st_rep st) r = Some rp /\ r_min rp <= bonded_tokens (st_view st) a /\
               sel_count (st_sel st) r < p_max_sel (st_par st).
Proof. exact (switch_accepted fx st a r). Qed.
Print Assumptions C10_join_requires_min_switch.

Theorem C10_join_requires_min_create fx st a m c :
  accepted fx st (OCreate a m c) ->
  p_min_trb (st_par st) <= bonded_tokens (st_view st) a /\ p_min_trb (st_par st) <= m /\
  sel_get (st_sel st) a = None /\ c = true.
Proof. exact (create_accepted fx st a m c). Qed.
Print Assumptions C10_join_requires_min_create.

(* ---- 3. jail ------------------------------------------------------------------------------ *)
Theorem C10_jailed_cannot_report fx st r q rp :
  rep_get (st_rep st) r = Some rp -> r_jailed rp = true -> ~ accepted fx st (OReport r q).
Proof. exact (jailed_cannot_report fx st r q rp). Qed.
Print Assumptions C10_jailed_cannot_report.

(* jailing records now + duration (in ns, no int64 wrap for durations below 292 years) *)
Theorem C10_jail_sets_time fx st r dur :
  inv st -> accepted fx st (OJail r dur) ->
  exists rp, rep_get (st_rep st) r = Some rp /\ r_jailed rp = false /\
    rep_get (st_rep (fst (step fx st (OJail r dur)))) r = Some (mkRep r (r_min rp) true (st_now st + jail_ns dur)).
Proof. exact (jail_accepted fx st r dur). Qed.
Print Assumptions C10_jail_sets_time.

Theorem C10_jail_duration dur : 0 <= dur -> dur * 1000000000 < two63 -> jail_ns dur = dur * 1000000000.
Proof. exact (jail_ns_exact dur). Qed.
Print Assumptions C10_jail_duration.

(* along every history (cap not lowered): between a state in which r is jailed and a state in which
   it is not lies an accepted UnjailReporter at or after the recorded time *)
Theorem C10_unjail_after_time fx ops st o r rp rp' :
  inv st -> cap_kept_all fx st ops ->
  let st1 := run fx st ops in
  rep_get (st_rep st1) r = Some rp -> r_jailed rp = true ->
  rep_get (st_rep (fst (step fx st1 o))) r = Some rp' -> r_jailed rp' = false ->
  o = OUnjail r /\ r_until rp <= st_now st1.
Proof. exact (fun I H => release_only_by_unjail fx (run fx st ops) o r rp rp' (run_inv fx ops st I H)). Qed.
Print Assumptions C10_unjail_after_time.

Theorem C10_unjail_accepted fx st r :
  accepted fx st (OUnjail r) ->
  exists rp, rep_get (st_rep st) r = Some rp /\ r_jailed rp = true /\ r_until rp <= st_now st.
Proof. exact (unjail_accepted fx st r). Qed.
Print Assumptions C10_unjail_accepted.

(* ---- 4. counted once ---------------------------------------------------------------------- *)
(* [events fx st ops []] lists (selector, reporter, block time) for every selector counted by an
   accepted report of the history.  If the clock and the height never go back, UnbondingTime keeps
   its value U, MaxSelectors is never lowered and MinStakeAmount stays positive, then a selector
   counted for two different reporters was counted at times at least U apart: within a reporting
   window shorter than the unbonding period a selector's stake backs one reporter only. *)
Theorem C10_no_double_count fx U st ops s r1 t1 r2 t2 :
  inv st -> sv_unbond (st_view st) = U -> 0 < p_min_stake (st_par st) ->
  (forall sn, In sn (st_snaps st) -> 0 < sn_total sn /\ sn_h sn <= st_height st) ->
  hist_ok fx U st ops ->
  In (s, r1, t1) (events fx st ops []) -> In (s, r2, t2) (events fx st ops []) -> r1 <> r2 ->
  U <= Z.abs (t1 - t2).
Proof. exact (no_double_count fx U st ops s r1 t1 r2 t2). Qed.
Print Assumptions C10_no_double_count.

Theorem C10_events_are_the_counted_selectors fx ops st past e :
  In e (events fx st ops past) <-> In e past \/ In e (trace fx st ops).
Proof. exact (events_trace fx ops st past e). Qed.
Print Assumptions C10_events_are_the_counted_selectors.

(* finding F17: once MaxSelectors was lowered, RemoveSelector + SelectReporter re-joins without lock *)
Theorem C10_remove_reselect_refuted :
  exists ops U s r1 t1 r2 t2,
    In (s, r1, t1) (events false init_state ops []) /\ In (s, r2, t2) (events false init_state ops []) /\
    r1 <> r2 /\ 0 < U /\ Z.abs (t1 - t2) < U /\ sv_unbond (st_view (run false init_state ops)) = U.
Proof. exact remove_reselect_refuted. Qed.
Print Assumptions C10_remove_reselect_refuted.

(* ... and a jailed reporter whose own selection was removed registers again and reports *)
Theorem C10_recreate_escapes_jail_refuted :
  exists ops1 o ops2,
    let st1 := run false init_state ops1 in
    (exists rp, rep_get (st_rep st1) 7 = Some rp /\ r_jailed rp = true /\ st_now st1 < r_until rp) /\
    o <> OUnjail 7 /\ accepted false (run false st1 (o :: ops2)) (OReport 7 0).
Proof. exact recreate_escapes_jail_refuted. Qed.
Print Assumptions C10_recreate_escapes_jail_refuted.

(* ---- non-vacuity ---------------------------------------------------------------------------- *)
Example C10_history_example :
  inv (mkState [] [] [] (mkPar 1000000 3 1000000) empty_view 0 0) /\
  hist_ok false 100 (fst (step false (mkState [] [] [] (mkPar 1000000 3 1000000) (f17_view 0) 0 0) (OParams (mkPar 1000000 3 1000000)))) (tl good_ops) /\
  events false init_state good_ops [] =
    [(6, 6, 1100); (7, 6, 1100); (6, 6, 1099); (6, 6, 1000); (5, 5, 1000); (7, 5, 1000); (8, 5, 1000)].
Proof. exact good_history_example. Qed.

Example C10_f40_refuses_report :
  let st := mkState f40_sels [mkRep 4 1000000 false 0] [] (mkPar 1000000 5 1000000) f40_view 10 1000 in
  rs_code (snd (step false st (OReport 4 0))) = E_STAKE /\ rs_code (snd (step true st (OReport 4 0))) = OK /\
  p_min_stake (st_par st) <= spec_stake (st_view st) (st_now st) (st_sel st) 4.
Proof. exact strategy_valuation_refuses_report. Qed.

(* ---- the check evaluates this specification on the implementation's answers --------------- *)
Theorem C10_check_sound_report vw now par g sels reps r q ob :
  spec_step vw now par g sels reps (OReport r q) ob = [] -> ob_code ob = OK ->
  (exists rp, rep_get reps r = Some rp /\ r_jailed rp = false) /\
  ob_total ob = spec_stake vw now sels r /\
  total_of (ob_origins ob) = ob_total ob /\
  ob_power ob = Z.quot (ob_total ob) POWER_REDUCTION /\
  p_min_stake par <= ob_total ob /\
  (forall s r' t', In s (map o_sel (ob_origins ob)) -> In (s, r', t') (g_counted g) ->
                   r' = r \/ sv_unbond vw <= now - t').
Proof. exact (spec_step_report_sound vw now par g sels reps r q ob). Qed.
Print Assumptions C10_check_sound_report.

Theorem C10_check_sound steps :
  c10_check (Hist steps) = [] -> failing_from init_state ghost0 tables0 steps = None.
Proof. exact (c10_check_sound steps). Qed.
Print Assumptions C10_check_sound.
