(* C16 — Validator-set checkpoints form a chain an EVM light client can always follow.
   Property theorems only; proofs live in Proofs/BridgeValsetProofs.v. *)
From Coq Require Import ZArith List Bool Permutation Sorted.
From Verif Require Import Base.Harness Model.BridgeValset Proofs.BridgeValsetProofs.
Import ListNotations.
Open Scope Z_scope.

(* ---- the bridge validator set ---------------------------------------------------------------------- *)
(* members = exactly the staking validators with a registered EVM address and non-zero consensus power *)
Theorem C16_set_contents r vs a p :
  In (BV a p) (eligible r vs) <->
  exists op b t, In (SV op b t) vs /\ reg_get r op = Some a /\ p = cons_power b t /\ p <> 0.
Proof. exact (eligible_in r vs a p). Qed.
Print Assumptions C16_set_contents.

(* "non-zero power" = bonded with at least one whole token (10^6 loya) *)
Theorem C16_nonzero_power b t : 0 <= t -> (cons_power b t <> 0 <-> b = true /\ power_reduction <= t).
Proof. exact (cons_power_nonzero b t). Qed.
Print Assumptions C16_nonzero_power.

(* the set is those members ordered by descending power, then ascending address; this arrangement is
   unique, so the unstable sort.Slice of the code cannot produce anything else; no member = error *)
Theorem C16_set_order r vs :
  match current_valset r vs with
  | None => eligible r vs = []
  | Some l => l <> [] /\ Permutation (eligible r vs) l /\ Sorted le_bv l /\
              (forall l', Permutation (eligible r vs) l' -> Sorted le_bv l' -> l' = l)
  end.
Proof. exact (current_valset_spec r vs). Qed.
Print Assumptions C16_set_order.

(* ---- when a checkpoint is recorded ------------------------------------------------------------------- *)
(* the code's PowerDiff (a Go map keyed by address, integer division) below 5*10^4 <=> the L1 distance of
   the two power assignments is below 5 % of the last checkpoint's total — for distinct addresses *)
Theorem C16_shift_is_five_percent b c :
  nodup_addrs b = true -> nodup_addrs c = true -> nonneg b -> nonneg c -> 0 < total_power b ->
  ((power_diff b c <? 50000) = false <-> total_power b <= 20 * l1_shift b c).
Proof. exact (power_diff_is_five_percent_le b c). Qed.
Print Assumptions C16_shift_is_five_percent.

(* a block (other than block 1) with a non-empty bridge set records a checkpoint exactly when none
   exists yet, or the power shifted by at least 5 %, or the last checkpoint is older than 14 d - 1 s *)
Theorem C16_update_iff H st r vs height now cur :
  height <> 1 -> current_valset r vs = Some cur ->
  (forall last rest, st = last :: rest ->
      nodup_addrs (k_set last) = true /\ nonneg (k_set last) /\ 0 < total_power (k_set last)) ->
  nodup_addrs cur = true -> nonneg cur ->
  (fst (end_block H st r vs height now) = EbNew <->
   match st with
   | [] => True
   | last :: _ => total_power (k_set last) <= 20 * l1_shift (k_set last) cur
                  \/ two_weeks_ms - one_second_ms < now - k_ts last
   end).
Proof. exact (end_block_records_iff_le H st r vs height now cur). Qed.
Print Assumptions C16_update_iff.

(* "older than two weeks" always triggers; the code triggers at most one second earlier *)
Theorem C16_two_weeks ts now :
  (two_weeks_ms < now - ts -> stale ts now = true) /\ (stale ts now = true -> two_weeks_ms - 1000 < now - ts).
Proof. exact (conj (older_than_two_weeks_stale ts now) (stale_within_second ts now)). Qed.
Print Assumptions C16_two_weeks.

(* read to the letter ("older than two weeks" and not a millisecond earlier) the clause is refuted *)
Theorem C16_two_weeks_to_the_millisecond_refuted : exists ts now, now - ts <= two_weeks_ms /\ stale ts now = true.
Proof. exact two_weeks_early_refutes. Qed.
Print Assumptions C16_two_weeks_to_the_millisecond_refuted.

(* with two members of one address (finding F28) PowerDiff no longer measures the shift *)
Theorem C16_shift_measure_refuted :
  exists b c, map bv_addr b = map bv_addr c /\ total_power b = 1000 /\
    fold_right Z.add 0 (map (fun p => Z.abs (bv_power (fst p) - bv_power (snd p))) (combine b c)) = 1 /\
    (power_diff b c <? 50000) = false.
Proof. exact power_diff_duplicate_refutes. Qed.
Print Assumptions C16_shift_measure_refuted.

(* ---- invariants over all histories (block times strictly increasing in milliseconds) --------------- *)
Theorem C16_timestamps_strict H es t0 :
  times_ok t0 es -> StronglySorted (fun newer older => k_ts older < k_ts newer) (c_st (run H es)).
Proof. exact (history_timestamps_strict H es t0). Qed.
Print Assumptions C16_timestamps_strict.

(* the record at distance n from the oldest has index n; the latest index is the number of records - 1 *)
Theorem C16_indexes_contiguous H es t0 pre k post :
  times_ok t0 es -> c_st (run H es) = pre ++ k :: post ->
  index_of_ts (c_st (run H es)) (k_ts k) = Some (Z.of_nat (List.length post)) /\
  latest_idx (c_st (run H es)) = Some (Z.of_nat (List.length pre + List.length post)).
Proof. exact (history_indexes_contiguous H es t0 pre k post). Qed.
Print Assumptions C16_indexes_contiguous.

(* threshold = floor(2/3 total), hash = hash of the stored set, checkpoint = domain-separated hash of
   (threshold, timestamp, hash) for every record; current set / checkpoint = those of the newest record *)
Theorem C16_maps_consistent H es t0 :
  times_ok t0 es ->
  Forall (fun k => k_thr k = total_power (k_set k) * 2 / 3 /\ k_hash k = h_set H (k_set k)
                   /\ k_ckpt k = h_ckpt H (k_thr k) (k_ts k) (k_hash k)) (c_st (run H es))
  /\ cur_valset (c_st (run H es)) = match c_st (run H es) with [] => None | k :: _ => Some (k_set k) end
  /\ cur_ckpt (c_st (run H es)) = match c_st (run H es) with [] => None | k :: _ => Some (k_ckpt k) end.
Proof. exact (history_maps_consistent H es t0). Qed.
Print Assumptions C16_maps_consistent.

(* one signature slot per member of the previous set (of its own set for the first checkpoint) *)
Theorem C16_slots_match_previous_set H es t0 pre k p rest :
  times_ok t0 es -> c_st (run H es) = pre ++ k :: p :: rest -> List.length (k_slots k) = List.length (k_set p).
Proof. exact (history_slots_match_previous_set H es t0 pre k p rest). Qed.
Print Assumptions C16_slots_match_previous_set.

(* a submission changes exactly the slots whose member has the sender's address; with distinct
   addresses in the previous set that is one slot: slots and members correspond one-to-one *)
Theorem C16_slots_one_to_one H b pre k p rest a s :
  wf H b (pre ++ k :: p :: rest) ->
  exists k',
    sign_step (pre ++ k :: p :: rest) a (k_ts k) s = pre ++ k' :: p :: rest /\
    k_ts k' = k_ts k /\ k_set k' = k_set k /\ k_ckpt k' = k_ckpt k /\
    (forall i, (i < List.length (k_set p))%nat ->
       nth_error (k_slots k') i =
       if bv_addr (nth i (k_set p) (BV 0 0)) =? a then Some (Some s) else nth_error (k_slots k) i) /\
    (nodup_addrs (k_set p) = true ->
     forall i j, (i < List.length (k_set p))%nat -> (j < List.length (k_set p))%nat ->
       bv_addr (nth i (k_set p) (BV 0 0)) = a -> bv_addr (nth j (k_set p) (BV 0 0)) = a -> i = j).
Proof. exact (sign_places_signature H b pre k p rest a s). Qed.
Print Assumptions C16_slots_one_to_one.

(* the invariant the four theorems above project, for all histories *)
Theorem C16_history_invariant H es t0 : times_ok t0 es -> exists t1, wf H (t1 + 1) (c_st (run H es)).
Proof. exact (run_wf H es t0). Qed.
Print Assumptions C16_history_invariant.

(* ---- the contract follows ----------------------------------------------------------------------------- *)
(* for consecutive checkpoints p, k of any history: if the slots of k hold verifying signatures of
   members with more than two thirds of p's power, the new threshold is not 0 and the contract's view of
   p is not older than its unbonding period, updateValidatorSet accepts the step and ends in k *)
Theorem C16_followable H es t0 pre k p rest unb evm_now :
  times_ok t0 es -> c_st (run H es) = pre ++ k :: p :: rest ->
  k_thr k <> 0 ->
  2 * total_power (k_set p) < 3 * valid_power (k_set p) (k_slots k) (k_ckpt k) ->
  k_ts p / 1000 <= evm_now -> evm_now - k_ts p / 1000 <= unb ->
  follow H unb evm_now p k = Some (contract_at k unb).
Proof. exact (history_followable H es t0 pre k p rest unb evm_now). Qed.
Print Assumptions C16_followable.

(* non-vacuity: a three-block history with two checkpoints whose step the contract accepts *)
Example C16_followable_nonvacuous :
  times_ok 0 honest_history /\
  exists k p, c_st (run H0 honest_history) = [k; p] /\
    k_set p = [BV 10 2; BV 20 1; BV 30 1] /\ k_set k = [BV 10 3; BV 20 1; BV 30 1] /\
    follow H0 unbonding_s 2 p k = Some (contract_at k unbonding_s).
Proof. exact honest_history_follows. Qed.
Print Assumptions C16_followable_nonvacuous.

(* finding F28 (the code as it is): initial signatures can be replayed, so two operators can hold one
   EVM address; members with more than two thirds of the power have signed (their last accepted
   submission verifies), yet the second operator's garbage sits in the first one's slot and the
   contract rejects the step *)
Theorem C16_followable_refuted :
  exists es k p rest,
    times_ok 0 es /\ c_st (run H0 es) = k :: p :: rest /\ k_thr k <> 0 /\
    2 * total_power (k_set p) <
      3 * signed_power (c_reg (run H0 es)) (env_subs H0 chain0 es []) (k_set p) (k_ts k) (k_ckpt k) /\
    follow H0 unbonding_s (k_ts k / 1000) p k = None /\
    reg_nodup_addr (c_reg (run H0 es)) = false.
Proof. exact f28_refutes. Qed.
Print Assumptions C16_followable_refuted.

(* ---- what an empty issue list of the check says about the implementation's final state ------------- *)
Theorem C16_check_sound blocks final fl fc :
  c16_check (HistCase blocks final fl fc) = [] ->
  (forall n r, nth_error final n = Some r ->
      r_idx r = Z.of_nat n /\ r_back r = r_ts r /\ r_pts r = r_ts r /\
      r_thr r = total_power (r_set r) * 2 / 3 /\ r_hash r = r_refhash r /\ r_ck r = r_refckpt r) /\
  (forall n r r', nth_error final n = Some r -> nth_error final (S n) = Some r' -> r_ts r < r_ts r').
Proof. exact (check_sound_final blocks final fl fc). Qed.
Print Assumptions C16_check_sound.
