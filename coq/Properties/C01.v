(* C01 — Block execution is deterministic across runs and nodes.
   Gallina functions are deterministic by construction; the content of these theorems is that
   every source of nondeterminism of the Go code is an explicit parameter of the model and that
   the results do not depend on it. *)
From Coq Require Import ZArith List String Permutation.
From Verif Require Import Base.Harness Model.OracleAgg Model.Rewards Model.Determinism
     Proofs.OracleAggProofs Proofs.RewardsProofs Proofs.DeterminismProofs.
Import ListNotations.
Open Scope Z_scope.

(* weighted mode: independent of the iteration order of the frequency map (fixed tie rule) *)
Theorem C01_mode_order_independent rs o1 o2 :
  Permutation o1 o2 -> mode_value true o1 rs = mode_value true o2 rs.
Proof. exact (mode_value_map_order_independent rs o1 o2). Qed.
Print Assumptions C01_mode_order_independent.

(* ... which failed for the code as found (strict > over a Go map): finding F01 *)
Theorem C01_mode_order_refuted :
  exists rs o1 o2, Permutation o1 o2 /\ mode_value false o1 rs <> mode_value false o2 rs.
Proof. exact mode_value_map_order_refuted. Qed.
Print Assumptions C01_mode_order_refuted.

(* the fixed rule: among the values the maximal total power goes to, the result is one of the
   listed keys and holds maximal power, for every key order *)
Theorem C01_mode_tie_rule rs order :
  rs <> [] -> Forall (fun r => 1 <= r_pw r) rs -> (forall r, In r rs -> In (r_value r) order) ->
  let m := mode_value true order rs in In m order /\ forall v, weight_of v rs <= weight_of m rs.
Proof. exact (mode_value_maximal rs order). Qed.
Print Assumptions C01_mode_tie_rule.

(* reward allocation: independent of the iteration order of the reporters map *)
Theorem C01_rewards_order_independent acc o1 o2 aggs R :
  Permutation o1 o2 -> NoDup (map i_id o1) ->
  allocate_rewards_ord acc o1 aggs R = allocate_rewards_ord acc o2 aggs R.
Proof. exact (allocate_rewards_map_order_independent acc o1 o2 aggs R). Qed.
Print Assumptions C01_rewards_order_independent.

(* bridge PowerDiff: a commutative sum over the map *)
Theorem C01_powerdiff_order_independent o1 o2 b :
  Permutation o1 o2 -> power_diff_ord o1 b = power_diff_ord o2 b.
Proof. exact (power_diff_order_independent o1 o2 b). Qed.
Print Assumptions C01_powerdiff_order_independent.

(* the weighted median never iterates its map: the model has no order parameter, and its value
   is invariant under the arrival order of the reports *)
Theorem C01_median_arrival_order_independent rs rs' a a' :
  Permutation rs rs' -> rs <> [] -> Forall (fun r => 1 <= r_pw r) rs ->
  weighted_median rs = Some a -> weighted_median rs' = Some a' ->
  parse16 (a_value a) = parse16 (a_value a').
Proof. exact (weighted_median_order_independent rs rs' a a'). Qed.
Print Assumptions C01_median_arrival_order_independent.

(* the sites the source scanner reports today are exactly covered by the theorems above or by a
   recorded off-consensus justification; a new site makes the SitesCase check fail *)
Theorem C01_sites_covered :
  c01_check (SitesCase
    [ "app:App.AutoCliOpts"; "app:App.ModuleAccountAddrs";
      "daemons/server/types/pricefeed:ExchangeToPrice.GetValidPrices"; "lib:GetSortedKeys";
      "x/bridge/keeper:Keeper.PowerDiff"; "x/oracle/keeper:Keeper.AllocateRewards";
      "x/oracle/keeper:Keeper.WeightedMode" ]%string
    [ "crypto/rand.Read:x/oracle/utils:Salt"; "go:app:New"; "time.Now:lib/time:TimeProviderImpl.Now";
      "time.Now:x/mint:BeginBlocker" ]%string
    [ "field:app:App.DaemonHealthMonitor (pointer to HealthMonitor)"; "field:app:App.PriceFeedClient (pointer to Client)";
      "field:app:App.ReporterClient (pointer to Client)"; "field:app:App.Server (pointer to Server)";
      "field:app:App.TokenBridgeClient (pointer to Client)";
      "field:app:App.keys (map)"; "field:app:App.memKeys (map)"; "field:app:App.tkeys (map)";
      "field:daemons/server/types/pricefeed:ExchangeToPrice.exchangeToPriceTimestamp (map)";
      "field:daemons/server/types/pricefeed:MarketToExchangePrices.Mutex (sync)";
      "field:daemons/server/types/pricefeed:MarketToExchangePrices.marketToExchangePrices (map)";
      "field:x/bridge:BridgeInputs.Config (pointer to Module)"; "field:x/dispute:DisputeInputs.Config (pointer to Module)";
      "field:x/mint:MintInputs.Config (pointer to Module)"; "field:x/oracle:OracleInputs.Config (pointer to Module)";
      "field:x/registry/module:RegistryInputs.Config (pointer to Module)"; "field:x/reporter/module:ModuleInputs.Config (pointer to Module)";
      "var:app:maccPerms (map)"; "var:lib:bigPow10Memo (map)" ]%string) = [].
Proof. exact sites_today_covered. Qed.
Print Assumptions C01_sites_covered.

Theorem C01_repeat_check_sound rs impls : c01_mode_check (ModeCase rs impls) = [] ->
  forall a b, In a impls -> In b impls -> a = b.
Proof. exact (c01_mode_check_sound rs impls). Qed.
Print Assumptions C01_repeat_check_sound.


(* node-local memory: a block handler whose resulting store and output do not depend on what the node holds in memory
   makes all nodes holding the same store agree on every sequence of blocks, whatever their memories (run from
   genesis, restarted, state-synced); the scanner's third list is the evidence that the consensus objects of /repo
   hold no such memory outside the justified allow-list.  A cached read refreshed by a write that is then rolled
   back is not of that kind. *)
Theorem C01_nodes_with_equal_stores_agree {L S B O : Type} (h : L -> S -> B -> L * S * O) :
  local_free h -> forall bs l l' s, run_node h l s bs = run_node h l' s bs.
Proof. exact (local_free_nodes_agree h). Qed.
Print Assumptions C01_nodes_with_equal_stores_agree.

Theorem C01_cached_read_refuted :
  ~ local_free cached_handler /\
  run_node cached_handler (Some 1) 0 [false] <> run_node cached_handler None 0 [false].
Proof. exact cached_handler_nodes_disagree. Qed.
Print Assumptions C01_cached_read_refuted.

(* restarted node.  [run_node_restarting h l0 l s bs] replaces the node's memory by [l0] (the memory of newly
   constructed keeper objects) before every block whose flag is set, leaving the store alone.  For a handler free of
   node-local state this cannot be observed: at each restart the restarted node is the node with memory [l'] := l0 of
   C01_nodes_with_equal_stores_agree, on the store [s] the node that kept running holds at that block.  The driver
   TestC01Restart samples exactly this equation on the real keepers (it rebuilds all Layer keeper objects over the same
   stores at block boundaries of generated histories and compares stores, events and results after every block);
   C01_cached_read_refuted is the kind of handler for which it fails. *)
Theorem C01_restarts_invisible {L S B O : Type} (h : L -> S -> B -> L * S * O) :
  local_free h -> forall bs l0 l s, run_node_restarting h l0 l s bs = run_node h l s (map snd bs).
Proof. exact (local_free_restarts_invisible h). Qed.
Print Assumptions C01_restarts_invisible.

(* a restart case whose check passes: same number of blocks, and after every block the restarted node and the node that
   kept running recorded equal store digests, event digests and operation results *)
Theorem C01_restart_check_sound hs rs k r obs h n e :
  c01_restart_check (RestartCase hs rs k r obs h n e) = [] ->
  List.length k = List.length r /\
  (forall i d, obs_stores (nth i k d) = obs_stores (nth i r d) /\ obs_events (nth i k d) = obs_events (nth i r d)
               /\ obs_results (nth i k d) = obs_results (nth i r d)) /\
  obs = true /\ h = true.
Proof. exact (c01_restart_check_sound hs rs k r obs h n e). Qed.
Print Assumptions C01_restart_check_sound.
