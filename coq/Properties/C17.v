(* C17 — Vote-extension data reaches state only as signed; proposals stay coherent.
   Property theorems only; proofs live in Proofs/ProposalProofs.v, the model in Model/Proposal.v.
   [g] ranges over the code variants (as found / repaired, see the model's header); [en = true] is
   req.Height > VoteExtensionsEnableHeight; [c_valid] is the SDK's ValidateVoteExtensions (not interpreted). *)
From Coq Require Import ZArith List String.
From Verif Require Import Base.Harness Model.Proposal Proofs.ProposalProofs.
Import ListNotations.
Open Scope string_scope.
Open Scope list_scope.
Open Scope Z_scope.

(* --- proposals stay coherent ---------------------------------------------------------------- *)
(* whatever PrepareProposalHandler builds from a valid extended commit is accepted by ProcessProposalHandler
   on the same state, for every state, every commit (any mix of flags, payloads, recoveries) and every variant *)
Theorem C17_coherence g st c l :
  c_valid c = true -> prepare g true st c = PInj l -> process g true st (Tx l c) = ACCEPT.
Proof. exact (coherence g st c l). Qed.
Print Assumptions C17_coherence.

(* the verdict is a function of (state, proposal): every honest validator on the same state answers alike *)
Theorem C17_validators_agree g st1 st2 p : st1 = st2 -> process g true st1 p = process g true st2 p.
Proof. exact (validators_agree g st1 st2 p). Qed.
Print Assumptions C17_validators_agree.

(* ... also when proposer and validator are two handler instances with different histories: the model's
   handlers carry nothing from block to block, so on the same state they build the same proposal and what
   one builds from a valid commit the other accepts.  (The real handlers are held to this by case [CPeer]:
   a long-lived instance and a fresh one on one state, see C17_check_sound.) *)
Theorem C17_proposers_agree g st1 st2 c : st1 = st2 -> prepare g true st1 c = prepare g true st2 c.
Proof. exact (proposers_agree g st1 st2 c). Qed.
Print Assumptions C17_proposers_agree.

Theorem C17_coherence_across_instances g st1 st2 c l :
  st1 = st2 -> c_valid c = true -> prepare g true st1 c = PInj l -> process g true st2 (Tx l c) = ACCEPT.
Proof. exact (coherence_across_instances g st1 st2 c l). Qed.
Print Assumptions C17_coherence_across_instances.

(* an accepted proposal carries a valid commit and exactly the lists computed from that commit *)
Theorem C17_accept_only_signed g st l c :
  process g true st (Tx l c) = ACCEPT -> c_valid c = true /\ check_all g st (c_votes c) = Some l.
Proof. exact (accept_only_signed g st l c). Qed.
Print Assumptions C17_accept_only_signed.

(* ... so injected bridge data that differs in any element of any of the eight lists is rejected *)
Theorem C17_tamper_rejected g st l l' c :
  check_all g st (c_votes c) = Some l' ->
  (t_ops l <> t_ops l' \/ t_evms l <> t_evms l' \/ t_vops l <> t_vops l' \/ t_vts l <> t_vts l' \/
   t_vsigs l <> t_vsigs l' \/ t_aops l <> t_aops l' \/ t_atts l <> t_atts l' \/ t_snaps l <> t_snaps l') ->
  process g true st (Tx l c) = REJECT.
Proof.
  exact (fun C D => tamper_rejected g st l l' c C
    (fun E => match D with
              | or_introl N => N (f_equal t_ops E)
              | or_intror (or_introl N) => N (f_equal t_evms E)
              | or_intror (or_intror (or_introl N)) => N (f_equal t_vops E)
              | or_intror (or_intror (or_intror (or_introl N))) => N (f_equal t_vts E)
              | or_intror (or_intror (or_intror (or_intror (or_introl N)))) => N (f_equal t_vsigs E)
              | or_intror (or_intror (or_intror (or_intror (or_intror (or_introl N))))) => N (f_equal t_aops E)
              | or_intror (or_intror (or_intror (or_intror (or_intror (or_intror (or_introl N)))))) => N (f_equal t_atts E)
              | or_intror (or_intror (or_intror (or_intror (or_intror (or_intror (or_intror N)))))) => N (f_equal t_snaps E)
              end)).
Qed.
Print Assumptions C17_tamper_rejected.

(* conversely two different injected txs differ in one of the eight lists (nothing else is compared) *)
Theorem C17_difference_is_in_a_list (a b : itx) :
  a <> b ->
  t_ops a <> t_ops b \/ t_evms a <> t_evms b \/ t_vops a <> t_vops b \/ t_vts a <> t_vts b \/
  t_vsigs a <> t_vsigs b \/ t_aops a <> t_aops b \/ t_atts a <> t_atts b \/ t_snaps a <> t_snaps b.
Proof. exact (itx_neq_field a b). Qed.
Print Assumptions C17_difference_is_in_a_list.

Theorem C17_undecodable_or_invalid_rejected g st :
  process g true st BadTx = REJECT /\ (forall l c, c_valid c = false -> process g true st (Tx l c) = REJECT).
Proof. exact (conj (undecodable_rejected g st) (invalid_commit_rejected g st)). Qed.
Print Assumptions C17_undecodable_or_invalid_rejected.

(* --- the lists are exactly the data of the commit votes' own (decodable) extensions ------------- *)
Theorem C17_registrations_from_commit_votes g st vs i o a :
  check_initial g st vs = Some i -> In (o, a) i ->
  exists v x, commit_vote vs v x o /\ 0 < blen (x_sigA x) /\ recover g v x = ROk a /\
              lookup String.eqb o (s_evm st) = None.
Proof. exact (check_initial_in g st vs i o a). Qed.
Print Assumptions C17_registrations_from_commit_votes.

Theorem C17_valset_signatures_from_commit_votes vs o t sg :
  In (o, t, sg) (check_valset vs) <->
  exists v x, commit_vote vs v x o /\ 0 < blen (x_vsig x) /\ t = to_int64 (x_vts x) /\ sg = SHex (bkey (x_vsig x)).
Proof. exact (check_valset_in vs o t sg). Qed.
Print Assumptions C17_valset_signatures_from_commit_votes.

Theorem C17_attestations_from_commit_votes vs o sn sg :
  In (o, sn, sg) (check_atts vs) <->
  exists v x a, commit_vote vs v x o /\ In a (x_atts x) /\ sn = a_snap a /\ sg = a_sig a.
Proof. exact (check_atts_in vs o sn sg). Qed.
Print Assumptions C17_attestations_from_commit_votes.

(* data is attributed to the validator that sent it: every operator named in the computed lists is the operator
   that the state gives ([v_op]) for a commit-flag vote of the commit, and a proposal naming any other operator
   (for instance the one that held the consensus key in an earlier block) is not accepted *)
Theorem C17_data_attributed_to_senders g st vs l : check_all g st vs = Some l -> attributed vs l = true.
Proof. exact (check_all_attributed g st vs l). Qed.
Print Assumptions C17_data_attributed_to_senders.

Theorem C17_foreign_operator_rejected g st l c o :
  In o (olist (t_ops l) ++ olist (t_vops l) ++ olist (t_aops l)) -> names_sender (c_votes c) o = false ->
  process g true st (Tx l c) <> ACCEPT.
Proof. exact (foreign_operator_rejected g st l c o). Qed.
Print Assumptions C17_foreign_operator_rejected.

(* --- what is written to state is exactly the accepted data ------------------------------------- *)
(* after the PreBlocker ran on an accepted proposal (over all states, commits, variants; the three loops are
   folds over the lists): nothing but the three maps changes; an address once registered is never overwritten;
   a new address of operator o is the one recovered from the initial signatures in o's own commit vote; every
   changed slot of a signature array holds the signature sent by a validator whose registered address stands at
   that index of the checkpoint's previous validator set; every changed slot of an attestation array holds an
   attestation sent by a validator whose address stands at that index of [slot_valset g] *)
Theorem C17_preblock_applies_exactly g tbl st l c st' :
  process g true st (Tx l c) = ACCEPT -> pre_block g tbl true st (Tx l c) = POk st' ->
  frame st st' /\ reg_kept_P st st' /\ reg_signed_P g tbl c st st' /\
  changed Z.eqb (s_vsigs st) (s_vsigs st') (vsig_owner c st st') /\
  changed Z.eqb (s_atts st) (s_atts st') (att_owner g c st st').
Proof. exact (preblock_exact g tbl st l c st'). Qed.
Print Assumptions C17_preblock_applies_exactly.

(* with the repair of F42 the index comes from the validator set the snapshot was created under ... *)
Theorem C17_attestation_slot_repaired g st s :
  g_slot g = true -> slot_valset g st s = lookup Z.eqb s (s_snapvs st).
Proof. exact (slot_valset_repaired g st s). Qed.
Print Assumptions C17_attestation_slot_repaired.

(* ... the code as found takes it from the current set: an attestation overwrites another validator's slot *)
Theorem C17_attestation_slot_refuted :
  exists l st',
    prepare as_found true st42 c42 = PInj l /\ process as_found true st42 (Tx l c42) = ACCEPT /\
    pre_block as_found [] true st42 (Tx l c42) = POk st' /\
    lookup Z.eqb snapS (s_atts st') = Some [1; 0x01a0] /\
    ~ changed Z.eqb (s_atts st42) (s_atts st') (att_owner repaired c42 st42 st').
Proof. exact attestation_slot_refuted. Qed.
Print Assumptions C17_attestation_slot_refuted.

(* "its own signatures" cannot be told from a replay: two operators end up with one EVM address (F28) *)
Theorem C17_evm_address_shared_refuted :
  exists l st',
    prepare as_found true st0 c28 = PInj l /\ process as_found true st0 (Tx l c28) = ACCEPT /\
    pre_block as_found [("a0", 0x01aa)] true st0 (Tx l c28) = POk st' /\
    lookup String.eqb "o0" (s_evm st') = Some 0x01aa /\ lookup String.eqb "o1" (s_evm st') = Some 0x01aa.
Proof. exact evm_address_shared_refuted. Qed.
Print Assumptions C17_evm_address_shared_refuted.

(* --- no panics ------------------------------------------------------------------------------------ *)
(* with the length guards (F27) and the signature-length guard (F41) no handler panics on any input *)
Theorem C17_no_panic_repaired g tbl en st c p :
  g_len g = true -> g_sig g = true ->
  prepare g en st c <> PPanic /\ process g en st p <> PANIC /\ pre_block g tbl en st p <> PHalt.
Proof. exact (no_panic_repaired g tbl en st c p). Qed.
Print Assumptions C17_no_panic_repaired.

Theorem C17_verify_never_panics ext has_evm nreq : verify_ext ext has_evm nreq <> PANIC.
Proof. exact (verify_total ext has_evm nreq). Qed.
Print Assumptions C17_verify_never_panics.

(* in every variant the PreBlocker cannot panic on a proposal that ProcessProposalHandler accepted *)
Theorem C17_no_panic_on_accepted g tbl st p :
  process g true st p = ACCEPT -> pre_block g tbl true st p <> PHalt.
Proof. exact (no_panic_on_accepted g tbl st p). Qed.
Print Assumptions C17_no_panic_on_accepted.

(* the code as found: an empty proposal / parallel lists of different length (F27) *)
Theorem C17_malformed_proposal_panics_refuted :
  process as_found true st0 NoTx = PANIC /\
  pre_block as_found [] true st0
    (Tx {| t_ops := None; t_evms := None; t_vops := Some ["x"]; t_vts := None; t_vsigs := None;
           t_aops := None; t_atts := None; t_snaps := None |} c_empty) = PHalt.
Proof. exact malformed_panics. Qed.
Print Assumptions C17_malformed_proposal_panics_refuted.

(* the code as found: one validly signed vote extension with a one-byte SignatureA (F41) *)
Theorem C17_short_signature_panics_refuted :
  c_valid short_commit = true /\
  prepare as_found true st0 short_commit = PPanic /\
  (forall l, process as_found true st0 (Tx l short_commit) = PANIC).
Proof. exact short_signature_panics. Qed.
Print Assumptions C17_short_signature_panics_refuted.

(* --- the correspondence check is sound ----------------------------------------------------------- *)
(* an empty issue list means: the recorded implementation outputs contain no panic, Prepare's output is what
   the commit contains, the proposal built from a valid commit was accepted, and every accepted proposal
   carried a valid commit and exactly that commit's data; for several handler instances on one state ([CPeer]):
   all instances built the same proposal, it is what the commit contains and names only senders, and every
   instance accepted every honest proposal (valid commit, exactly its data) *)
Theorem C17_check_sound c : c17_check c = [] -> case_ok c.
Proof. exact (c17_check_sound c). Qed.
Print Assumptions C17_check_sound.

(* non-vacuity: with the repairs the F42 commit goes through the whole pipeline and the attestation lands in
   validator 0's own slot, next to validator 1's *)
Example C17_pipeline_example :
  exists l st', prepare repaired true st42 c42 = PInj l /\ process repaired true st42 (Tx l c42) = ACCEPT /\
                pre_block repaired [] true st42 (Tx l c42) = POk st' /\
                lookup Z.eqb snapS (s_atts st') = Some [0x01a0; 0x01b1].
Proof. exact pipeline_example. Qed.
(* non-vacuity of C17_tamper_rejected: dropping the attestation from the injected lists is rejected *)
Example C17_tamper_example :
  process as_found true st42 (Tx itx0 c42) = REJECT.
Proof. exact tamper_example. Qed.
(* non-vacuity of the two-instance case: two instances that both resolve the vote from the state pass ... *)
Example C17_peer_example : prepare as_found true st_rk c_rk = PInj (itx_rk "oB") /\ c17_check peer_honest = [].
Proof. exact peer_example. Qed.
(* ... and an instance that resolves the vote to the operator that held the consensus key in earlier blocks is
   flagged under every clause family: its proposal differs from the commit's data, names a validator that did not
   send the data, differs from the other instance's proposal, is accepted by itself, writes the signature into
   the old operator's slot, and the other instance's honest proposal is rejected by it *)
Example C17_stale_operator_flagged :
  c17_check peer_stale =
  [Spec "injected data differs from what the commit's vote extensions contain";
   Spec "attribution: injected data is attributed to another validator than the one that sent it";
   Spec "coherence: two honest proposers on the same state and extended commit built different proposals";
   Spec "tamper: an accepted proposal differs from what its commit's vote extensions contain";
   Spec "state: validator-set signature outside the slot of the validator that sent it";
   Spec "coherence: an honest proposal built on the same state was rejected by an honest validator";
   Diff "PrepareProposalHandler output"; Diff "ProcessProposalHandler verdict"; Diff "ProcessProposalHandler verdict"].
Proof. exact stale_operator_flagged. Qed.
