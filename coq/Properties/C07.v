(* C07 — Reports enter only an open round; each round aggregates exactly once.
   Property theorems only; proofs live in Proofs/OracleRoundProofs.v and Proofs/OracleRoundInv.v. *)
From Coq Require Import ZArith List Bool String Permutation.
From Verif Require Import Base.Harness Model.OracleRound Model.OracleRoundCheck Proofs.OracleRoundProofs Proofs.OracleRoundInv Proofs.OracleRoundDistinct.
Import ListNotations.
Open Scope Z_scope.

(* the store invariant (sorted, key-unique Query / Reports / Aggregates collections, cycle-list
   sequencer in range) holds in every state reachable by any sequence of tips, reports, end blockers,
   cycle-list replacements and data-spec updates, accepted or rejected *)
Theorem C07_invariant_all_histories qinfos ops s : oinv s -> oinv (run qinfos s ops).
Proof. exact (run_inv qinfos ops s). Qed.
Print Assumptions C07_invariant_all_histories.

Theorem C07_invariant_initially cycle sw bw : cycle <> [] -> oinv (genesis cycle sw bw).
Proof. exact (genesis_inv cycle sw bw). Qed.
Print Assumptions C07_invariant_initially.

(* a report is accepted only if: the query is a bridge deposit, or it currently carries a tip or is
   the scheduled cycle-list query and its window has not closed; the reporter is known, not jailed
   (stake = Some ..) and holds the minimum stake; never for withdrawal queries *)
Theorem C07_accept_only_if s h q rep stake mn vok s' :
  submit_value s h q rep stake mn vok = inl s' -> accept_spec s h q stake mn = true.
Proof. exact (submit_accept_only_if s h q rep stake mn vok s'). Qed.
Print Assumptions C07_accept_only_if.

(* and conversely every well-formed report the specification admits is accepted *)
Theorem C07_accept_if s h q rep stake mn :
  metas_wf (o_queries s) -> qi_kind q <> KNoSpec ->
  accept_spec s h q stake mn = true -> exists s', submit_value s h q rep stake mn true = inl s'.
Proof. exact (submit_accept_if s h q rep stake mn). Qed.
Print Assumptions C07_accept_if.

Theorem C07_withdrawal_never_reportable s h q rep stake mn vok :
  qi_kind q = KWithdraw -> submit_value s h q rep stake mn vok = inr RWithdrawal.
Proof. exact (withdrawal_never_reportable s h q rep stake mn vok). Qed.
Print Assumptions C07_withdrawal_never_reportable.

(* a reporter's later report in the same round replaces the earlier one: after an accepted report the
   store holds exactly one report under (query, reporter, round) - the new one -, every report with
   another key is still there, and nothing else was added *)
Theorem C07_later_report_replaces s h q rep stake mn vok s' :
  reports_sorted (o_reports s) -> submit_value s h q rep stake mn vok = inl s' ->
  exists r, rp_qid r = qi_id q /\ rp_reporter r = rep /\ rp_height r = h /\
    reports_sorted (o_reports s') /\ In r (o_reports s') /\
    (forall y, In y (o_reports s') -> rep_key_eq r y = true -> y = r) /\
    (forall y, In y (o_reports s) -> rep_key_eq r y = false -> In y (o_reports s')) /\
    (forall y, In y (o_reports s') -> y = r \/ In y (o_reports s)).
Proof. exact (submit_replaces s h q rep stake mn vok s'). Qed.
Print Assumptions C07_later_report_replaces.

(* in the block where windows close: every round with reports whose window has closed disappears,
   every other round stays as it is, and the Aggregates store gains exactly one aggregate per closing
   round - built from exactly that round's reports, with their summed power and the query's next
   sequence number - and nothing else; reports, cycle list and sequencer are untouched.
   Hypotheses: no two rounds of one query close in the same block (closing_distinct) and the block's
   timestamp is new for those queries (block time strictly increases). *)
Theorem C07_closing_round_aggregates_exactly_once s h ts :
  let s' := set_aggregated_report s h ts in
  closing_distinct h (o_queries s) -> fresh_ts h ts (o_queries s) (o_aggs s) ->
  o_queries s' = filter (fun y => negb (existsb (fun m => closing h m && meta_key_eq m y) (o_queries s))) (o_queries s) /\
  Permutation (o_aggs s') (map (mk_agg s h ts) (filter (closing h) (o_queries s)) ++ o_aggs s) /\
  o_reports s' = o_reports s /\ o_cycle s' = o_cycle s /\ o_seq s' = o_seq s.
Proof. exact (set_aggregated_report_correct s h ts). Qed.
Print Assumptions C07_closing_round_aggregates_exactly_once.

(* on reachable states the remaining rounds are simply those that are not closing *)
Theorem C07_remaining_rounds h l : metas_sorted l ->
  filter (fun y => negb (existsb (fun m => closing h m && meta_key_eq m y) l)) l = filter (fun y => negb (closing h y)) l.
Proof. exact (closing_filter_simpl h l). Qed.
Print Assumptions C07_remaining_rounds.

(* a tip on a round that received no report stays with the query through the end blocker (same round
   id, same amount), whatever the rotation does *)
Theorem C07_unreported_tip_stays s h ts k s' m :
  metas_sorted (o_queries s) -> end_block s h ts k = Some s' ->
  In m (o_queries s) -> m_has_reports m = false -> m_amount m <> 0 -> tip_kept m (o_queries s').
Proof. exact (end_block_keeps_unreported_tip s h ts k s' m). Qed.
Print Assumptions C07_unreported_tip_stays.

(* the cycle list moves only in a block in which the current query no longer has an open window, and
   then to the next entry in list order, wrapping around *)
Theorem C07_rotation s h k s' : cycle_ok s -> rotate s h k = Some s' ->
  s' = s \/ (open_window_p s h = false /\ o_seq s' = (o_seq s + 1) mod Z.of_nat (List.length (o_cycle s)) /\ o_cycle s' = o_cycle s).
Proof. exact (rotate_spec s h k s'). Qed.
Print Assumptions C07_rotation.

(* the hypothesis closing_distinct is an invariant: along every well-scheduled history (operations of
   height H, then the end blocker of H; report windows of at least one block; no end blocker failing) a
   second round of a query exists only for a bridge deposit whose earlier round closes in the very block in
   which the later one was opened, so no two rounds of one query ever close in the same block *)
Theorem C07_closing_distinct_all_histories qinfos ops s H s' :
  kinv s H -> sched H ops -> run_opt qinfos s ops = Some s' ->
  kinv s' (height_after H ops) /\ closing_distinct (height_after H ops) (o_queries s') /\ run qinfos s ops = s'.
Proof.
  intros K Hs E. pose proof (run_kinv qinfos ops s H s' K Hs E) as K'.
  exact (conj K' (conj (kinv_closing_distinct s' _ K') (run_opt_run qinfos ops s s' E))).
Qed.
Print Assumptions C07_closing_distinct_all_histories.

Theorem C07_closing_distinct_initially cycle sw bw H : 1 <= sw -> 1 <= bw -> kinv (genesis cycle sw bw) H.
Proof. exact (genesis_kinv cycle sw bw H). Qed.
Print Assumptions C07_closing_distinct_initially.

(* non-vacuity: a concrete history (tip, two reports of one reporter, the closing end blocker) *)
Example C07_example :
  let qi := [{| qi_id := 5; qi_kind := KSpot |}] in
  let s0 := genesis [5] 2 2000 in
  let s := run qi s0 [(1, OEndBlock 1000); (2, OSubmit 5 7 (Some 2000000) 1000000 "00000000000000000000000000000000000000000000000000000000000000aa");
                      (2, OSubmit 5 7 (Some 3000000) 1000000 "00000000000000000000000000000000000000000000000000000000000000bb");
                      (3, OEndBlock 2000); (4, OEndBlock 3000)] in
  map ag_power (o_aggs s) = [3] /\ List.length (o_reports s) = 1%nat.
Proof. vm_compute. split; reflexivity. Qed.
