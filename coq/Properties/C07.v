From Verif Require Import Base.Harness Model.OracleRound Model.OracleRoundCheck.
