(* C04 — Escrow accounts always cover what the chain says it owes. *)
From Coq Require Import ZArith List.
From Verif Require Import Base.Dec Model.Escrow Model.Ledger Proofs.EscrowProofs.
Import ListNotations.
Open Scope Z_scope.

(* the escrow invariant (oracle account = unpaid tips; tips pool within one 10^-18 unit per credit
   entry of the credits, in both directions; sum of balances = supply) holds initially and is
   preserved by every operation, hence along every history *)
Theorem C04_inv_init u : einv (einit u).
Proof. exact (einv_init u). Qed.
Print Assumptions C04_inv_init.

Theorem C04_inv_step s o s' : einv s -> estep s o = Some s' -> einv s'.
Proof. exact (estep_inv s o s'). Qed.
Print Assumptions C04_inv_step.

Theorem C04_inv_histories ops s : einv s -> einv (fold_left estep_total ops s).
Proof. exact (erun_inv ops s). Qed.
Print Assumptions C04_inv_histories.

(* whole-unit credits are covered by the tips pool; an entitled withdrawal never lacks funds *)
Theorem C04_tips_escrow_covers s : einv s -> e_credit_ops s < P -> floor_sum (e_credits s) <= e_tips s.
Proof. exact (tips_pool_covers_withdrawals s). Qed.
Print Assumptions C04_tips_escrow_covers.

Theorem C04_withdraw_never_insufficient s sel : einv s -> e_credit_ops s < P ->
  owed_get sel (e_credits s) / P <= e_tips s.
Proof. exact (withdraw_never_insufficient s sel). Qed.
Print Assumptions C04_withdraw_never_insufficient.

(* a tip on a round without report stays with the query *)
Theorem C04_unreported_tip_carries s q a s' : estep s (ETip q a) = Some s' ->
  owed_get q (e_owed s') = owed_get q (e_owed s) + (a - Z.quot (a * 2) 100).
Proof. exact (tip_stays_until_paid s q a s'). Qed.
Print Assumptions C04_unreported_tip_carries.

(* time based rewards use up exactly the reward pool's balance *)
Theorem C04_tbr_pays_whole_pool s cs s' : estep s (EPayTbr cs) = Some s' -> e_tbr s' = 0 /\ e_tips s' = e_tips s + e_tbr s.
Proof. exact (tbr_pays_whole_pool s cs s'). Qed.
Print Assumptions C04_tbr_pays_whole_pool.
