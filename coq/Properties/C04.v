(* C04 — Escrow accounts always cover what the chain says it owes. *)
From Coq Require Import ZArith List.
From Coq Require Import String.
From Verif Require Import Base.Harness Base.Dec Model.Escrow Model.Ledger Model.EscrowTrace Proofs.EscrowProofs Proofs.LedgerProofs Proofs.EscrowTraceProofs.
From Verif Require Model.DisputeSettle Proofs.NoHaltProofs Proofs.DisputeEscrowProofs.
Import ListNotations.
Open Scope Z_scope.

(* the escrow invariant (oracle account = unpaid tips; tips pool within one 10^-18 unit per credit
   entry of the credits, in both directions; sum of balances = supply) holds initially and is
   preserved by every operation, hence along every history *)
Theorem C04_inv_init u : einv (einit u).
Proof. exact (einv_init u). Qed.
Print Assumptions C04_inv_init.

Theorem C04_inv_step s o s' : einv s -> estep s o = Some s' -> einv s'.
Proof. exact (estep_inv s o s'). Qed.
Print Assumptions C04_inv_step.

Theorem C04_inv_histories ops s : einv s -> einv (fold_left estep_total ops s).
Proof. exact (erun_inv ops s). Qed.
Print Assumptions C04_inv_histories.

(* whole-unit credits are covered by the tips pool; an entitled withdrawal never lacks funds *)
Theorem C04_tips_escrow_covers s : einv s -> e_credit_ops s < P -> floor_sum (e_credits s) <= e_tips s.
Proof. exact (tips_pool_covers_withdrawals s). Qed.
Print Assumptions C04_tips_escrow_covers.

Theorem C04_withdraw_never_insufficient s sel : einv s -> e_credit_ops s < P ->
  owed_get sel (e_credits s) / P <= e_tips s.
Proof. exact (withdraw_never_insufficient s sel). Qed.
Print Assumptions C04_withdraw_never_insufficient.

(* a tip on a round without report stays with the query *)
Theorem C04_unreported_tip_carries s q a s' : estep s (ETip q a) = Some s' ->
  owed_get q (e_owed s') = owed_get q (e_owed s) + (a - Z.quot (a * 2) 100).
Proof. exact (tip_stays_until_paid s q a s'). Qed.
Print Assumptions C04_unreported_tip_carries.

(* time based rewards use up exactly the reward pool's balance *)
Theorem C04_tbr_pays_whole_pool s cs s' : estep s (EPayTbr cs) = Some s' -> e_tbr s' = 0 /\ e_tips s' = e_tips s + e_tbr s.
Proof. exact (tbr_pays_whole_pool s cs s'). Qed.
Print Assumptions C04_tbr_pays_whole_pool.

(* meaning of the executable specification that is evaluated on the real application after every operation
   of the generated histories (all-message, payout-directed, dispute-directed): *)

(* no withdrawal of credited rewards, fee refund or voter reward claim was refused for lack of funds *)
Theorem C04_check_no_entitled_claim_refused before op signer res params after decs :
  c04_step before (Step op signer res params after decs) = [] -> res <> 3.
Proof. exact (c04_step_not_refused before op signer res params after decs). Qed.
Print Assumptions C04_check_no_entitled_claim_refused.

(* at every block boundary the oracle account equals the unpaid tips, the tips pool covers the selectors'
   whole-unit credits and their credits up to 10^-12 unit, the bridge account is empty; the end blocker moved
   coins only from the oracle account and the reward pool into the tips pool *)
Theorem C04_check_block_boundary before signer params after decs :
  c04_step before (Step "EndBlock" signer 0 params after decs) = [] ->
  sp_oracle after = sp_oracle_owed after /\ sp_tips_floor after <= sp_tips after /\
  sp_tips_scaled after - sp_tips after * P <= 1000000 /\ sp_bridge after = 0 /\
  sp_oracle after + sp_tips after + sp_tbr after = sp_oracle before + sp_tips before + sp_tbr before /\
  sp_oracle after <= sp_oracle before /\ sp_tbr after <= sp_tbr before.
Proof. exact (c04_step_sound_endblock before signer params after decs). Qed.
Print Assumptions C04_check_block_boundary.

Theorem C04_check_tip before signer a after decs :
  c04_step before (Step "Tip" signer 0 [a] after decs) = [] ->
  sp_oracle after - sp_oracle before = a - Z.quot (a * 2) 100 /\
  sp_oracle_owed after - sp_oracle_owed before = a - Z.quot (a * 2) 100.
Proof. exact (c04_step_sound_tip before signer a after decs). Qed.
Print Assumptions C04_check_tip.

Theorem C04_check_withdraw before signer params after decs :
  c04_step before (Step "WithdrawTip" signer 0 params after decs) = [] ->
  sp_tips before - sp_tips after = (sp_bonded after + sp_notbonded after) - (sp_bonded before + sp_notbonded before) /\
  sp_tips after < sp_tips before.
Proof. exact (c04_step_sound_withdraw before signer params after decs). Qed.
Print Assumptions C04_check_withdraw.

(* no voter reward of a dispute was paid twice to the same account *)
Theorem C04_check_reward_once init steps : c04_hist_check (Hist init steps) = [] -> NoDup (reward_claims steps).
Proof. exact (c04_hist_once init steps). Qed.
Print Assumptions C04_check_reward_once.

(* the voter rewards paid out for a dispute never exceed the pot its execution set aside *)
Theorem C04_check_voter_pot init steps :
  c04_hist_check (Hist init steps) = [] ->
  forall id pot paid, In (id, pot, paid) (reward_payments init steps) -> paid_for id (reward_payments init steps) <= pot.
Proof. exact (c04_hist_pots init steps). Qed.
Print Assumptions C04_check_voter_pot.

(* a deposit claim (accepted or not) leaves the bridge account as it was: what it minted it paid out *)
Theorem C04_check_claim_deposit before signer res params after decs :
  c04_step before (Step "ClaimDeposits" signer res params after decs) = [] -> sp_bridge after = sp_bridge before.
Proof. exact (c04_step_sound_claim_deposit before signer res params after decs). Qed.
Print Assumptions C04_check_claim_deposit.

(* ---- the refinement between the real application and the machine (trace driver TestC04Trace) ---------------

   A trace = the first observation of the real application + per step the operation derived for it, the
   chain's verdict and the observation after it (total supply, oracle account, unpaid tips per query, tips pool,
   credits per selector, reward pool, fee collector, staking pools).  [c04t_check] replays the operations
   with [estep]; an EndBlock is the block operation [epay_block]. *)

(* the block operation is a sequence of EPayTip / EPayTbr steps of the machine ... *)
Theorem C04_pay_block_steps qs tbr delta n s s' :
  epay_block qs tbr delta n s = Some s' ->
  exists ops, Forall is_payout ops /\ erun_strict ops s = Some s' /\ fold_left estep_total ops s = s'.
Proof. exact (epay_block_steps qs tbr delta n s s'). Qed.
Print Assumptions C04_pay_block_steps.

(* ... so it preserves the invariant ... *)
Theorem C04_pay_block_inv qs tbr delta n s s' : einv s -> epay_block qs tbr delta n s = Some s' -> einv s'.
Proof. exact (epay_block_inv qs tbr delta n s s'). Qed.
Print Assumptions C04_pay_block_inv.

(* ... and its payouts together credit exactly the observed per-selector delta, move coins only from the oracle
   account and the reward pool into the tips pool, and count at most max(n, entries of delta + number of
   payouts) credit entries *)
Theorem C04_pay_block_effect qs tbr delta n s s' :
  pay_targets qs tbr <> [] -> epay_block qs tbr delta n s = Some s' ->
  e_credits s' = credits_add delta (e_credits s)
  /\ e_supply s' = e_supply s /\ e_users s' = e_users s /\ e_feecoll s' = e_feecoll s /\ e_bonded s' = e_bonded s
  /\ e_oracle s' + e_tips s' + e_tbr s' = e_oracle s + e_tips s + e_tbr s
  /\ e_oracle s' <= e_oracle s /\ e_tbr s' <= e_tbr s
  /\ e_credit_ops s <= e_credit_ops s' <= e_credit_ops s + Z.max n (Z.of_nat (List.length delta + List.length (pay_targets qs tbr))).
Proof. exact (epay_block_effect qs tbr delta n s s'). Qed.
Print Assumptions C04_pay_block_effect.

(* every trace operation (message, BeginBlock, EndBlock, report) keeps the invariant *)
Theorem C04_trace_step_inv s o s' : einv s -> tstep_fn s o = Some s' -> einv s'.
Proof. exact (tstep_fn_inv s o s'). Qed.
Print Assumptions C04_trace_step_inv.

(* a run of trace operations is a run of the machine of Model/Escrow.v: the same final state by ETip / EMint /
   EWithdrawTip / EPayTip / EPayTbr steps, and every state on the way is reached by such steps *)
Theorem C04_trace_run_is_machine_run s ops :
  fold_left tstep_total ops s = fold_left estep_total (tflat_all s ops) s
  /\ Forall (fun s' => exists eops, s' = fold_left estep_total eops s) (trun s ops).
Proof. exact (c04t_run_is_machine_run s ops). Qed.
Print Assumptions C04_trace_run_is_machine_run.

(* soundness of the check: a trace without issue starts in a state that satisfies the invariant, the observations
   after its steps are exactly the states the machine runs through from there (projected to the observed
   fields, maps in canonical form), and the machine steps exactly on the operations the chain accepted *)
Theorem C04_trace_check_sound init ops0 steps :
  c04t_check (C04T init ops0 steps) = [] ->
  einv (tinit init ops0)
  /\ map ob_canon (tobserved init steps) = map tproj (trun (tinit init ops0) (map ts_op steps))
  /\ verdicts_agree (tinit init ops0) steps.
Proof. exact (c04t_check_sound init ops0 steps). Qed.
Print Assumptions C04_trace_check_sound.

(* hence (with C04_inv_histories) every observed state of such a trace is the projection of a machine state that
   satisfies the invariant *)
Theorem C04_trace_observed_inv init ops0 steps :
  c04t_check (C04T init ops0 steps) = [] ->
  Forall (fun o => exists s, einv s /\ tproj s = ob_canon o) (tobserved init steps).
Proof. exact (c04t_check_observed_inv init ops0 steps). Qed.
Print Assumptions C04_trace_observed_inv.

(* in the observed numbers: the oracle account equals the unpaid tips, no credit is negative, the tips pool
   covers the whole-unit credits (fewer than 10^18 credit entries written) *)
Theorem C04_trace_observed_meaning o s : einv s -> tproj s = ob_canon o ->
  ob_oracle o = owed_sum (ob_owed o)
  /\ Forall (fun c => 0 <= snd c) (canon (ob_credits o))
  /\ (e_credit_ops s < P -> floor_sum (ob_credits o) <= ob_tips o).
Proof. exact (c04t_observed_meaning o s). Qed.
Print Assumptions C04_trace_observed_meaning.

(* ---- the dispute escrow (model Model/DisputeSettle.v, owner C13; tied to the Go code by C13's correspondence check) ----

   [liabilities v s] = what the dispute escrow owes the lineage in state [s], in whole loya rounded up, computed with the
   model's own refund / reward functions ([liabilities12]: the same in 10^-6 loya, the unit of the dust store): the dust
   store; the fees paid while in prevote; escrowed stake + fees while funded and not executed; the refunds of the payer
   records left after a failure (5 % of the fees: F21) or after an INVALID / SUPPORT execution; the rewards of the recorded
   voters who have not claimed.  [linv] = NoHaltProofs.Settle.sinv strengthened by "liabilities <= escrow" and the
   bookkeeping facts it needs.
   RESTRICTIONS, all visible below: [env_ok2] = NoHaltProofs.Settle.op_ok for every operation (fees paid from ACCOUNTS,
   ONE round: with payments from stake the statement is false - open finding C13b,
   NoHaltProofs.Settle.stake_shortfall_halts_refuted - and several rounds are F22) plus [pot_covers] at the execution
   operations (the recorded voters' shares add up to at most the pot: arithmetic of CalculateReward over C12's vote
   records, not proved here, checked on the real application by C04_check_voter_pot); [c_S c <= P]: dispute fee <= 10^18. *)
Theorem C04_dispute_inv_init v c now liq stk : 0 < DisputeSettle.c_S c <= P ->
  DisputeEscrowProofs.linv v c (DisputeSettle.init_st now liq stk).
Proof. exact (DisputeEscrowProofs.init_linv v c now liq stk). Qed.
Print Assumptions C04_dispute_inv_init.

Theorem C04_dispute_inv_step v c s o : DisputeSettle.fixc v = true ->
  DisputeEscrowProofs.linv v c s -> DisputeEscrowProofs.op_ok2 v c s o ->
  DisputeEscrowProofs.linv v c (fst (DisputeSettle.step v c s o)).
Proof. exact (DisputeEscrowProofs.step_linv v c s o). Qed.
Print Assumptions C04_dispute_inv_step.

Theorem C04_dispute_escrow_covers v c s : DisputeEscrowProofs.linv v c s ->
  DisputeEscrowProofs.liabilities v s <= DisputeSettle.s_esc s.
Proof. exact (DisputeEscrowProofs.liabilities_covered v c s). Qed.
Print Assumptions C04_dispute_escrow_covers.

Theorem C04_dispute_escrow_covers_micro v c s : DisputeEscrowProofs.linv v c s ->
  DisputeEscrowProofs.liabilities12 (DisputeSettle.fix35 v) s <= DisputeSettle.s_esc s * DisputeSettle.PR6.
Proof. exact (DisputeEscrowProofs.liabilities12_covered v c s). Qed.
Print Assumptions C04_dispute_escrow_covers_micro.

Theorem C04_dispute_escrow_covers_histories v c : DisputeSettle.fixc v = true -> forall ops s,
  DisputeEscrowProofs.linv v c s -> DisputeEscrowProofs.env_ok2 v c s ops ->
  DisputeEscrowProofs.liabilities v (DisputeSettle.run v c s ops) <= DisputeSettle.s_esc (DisputeSettle.run v c s ops).
Proof. exact (DisputeEscrowProofs.liabilities_covered_histories v c). Qed.
Print Assumptions C04_dispute_escrow_covers_histories.

(* in every such state no fee refund and no voter reward claim - by anybody, for any id - fails for lack of funds, and
   the begin blocker's execution succeeds (the latter is NoHaltProofs.Settle.exec_block_never_fails) *)
Theorem C04_dispute_withdraw_never_insufficient v c s who id : DisputeEscrowProofs.linv v c s ->
  snd (DisputeSettle.step v c s (DisputeSettle.OWithdraw who id)) <> DisputeSettle.EInsufficient.
Proof. exact (DisputeEscrowProofs.withdraw_never_insufficient v c s who id). Qed.
Print Assumptions C04_dispute_withdraw_never_insufficient.

Theorem C04_dispute_claim_never_insufficient v c s who id : DisputeEscrowProofs.linv v c s ->
  snd (DisputeSettle.step v c s (DisputeSettle.OClaim who id)) <> DisputeSettle.EInsufficient.
Proof. exact (DisputeEscrowProofs.claim_never_insufficient v c s who id). Qed.
Print Assumptions C04_dispute_claim_never_insufficient.

Theorem C04_dispute_exec_block_never_insufficient v c s : DisputeSettle.fixc v = true -> DisputeEscrowProofs.linv v c s ->
  snd (DisputeSettle.step v c s DisputeSettle.OExecBlock) = DisputeSettle.OK.
Proof. exact (DisputeEscrowProofs.exec_block_never_insufficient v c s). Qed.
Print Assumptions C04_dispute_exec_block_never_insufficient.

(* the hypotheses are satisfiable on a funded dispute with two payers, a vote, an INVALID execution, one refund withdrawn
   and one reward claimed, and the bound is tight there (escrow = liabilities after the execution and at the end) *)
Theorem C04_dispute_nonvacuous :
  DisputeEscrowProofs.linv DisputeSettle.repo_variant DisputeSettleProofs.cfg0 DisputeSettleProofs.st0
  /\ DisputeEscrowProofs.env_ok2 DisputeSettle.repo_variant DisputeSettleProofs.cfg0 DisputeSettleProofs.st0 DisputeEscrowProofs.ex2_ops.
Proof. exact DisputeEscrowProofs.ex2_hypotheses. Qed.
Print Assumptions C04_dispute_nonvacuous.
