(* C04 — Escrow accounts always cover what the chain says it owes. *)
From Coq Require Import ZArith List.
From Coq Require Import String.
From Verif Require Import Base.Harness Base.Dec Model.Escrow Model.Ledger Proofs.EscrowProofs Proofs.LedgerProofs.
Import ListNotations.
Open Scope Z_scope.

(* the escrow invariant (oracle account = unpaid tips; tips pool within one 10^-18 unit per credit
   entry of the credits, in both directions; sum of balances = supply) holds initially and is
   preserved by every operation, hence along every history *)
Theorem C04_inv_init u : einv (einit u).
Proof. exact (einv_init u). Qed.
Print Assumptions C04_inv_init.

Theorem C04_inv_step s o s' : einv s -> estep s o = Some s' -> einv s'.
Proof. exact (estep_inv s o s'). Qed.
Print Assumptions C04_inv_step.

Theorem C04_inv_histories ops s : einv s -> einv (fold_left estep_total ops s).
Proof. exact (erun_inv ops s). Qed.
Print Assumptions C04_inv_histories.

(* whole-unit credits are covered by the tips pool; an entitled withdrawal never lacks funds *)
Theorem C04_tips_escrow_covers s : einv s -> e_credit_ops s < P -> floor_sum (e_credits s) <= e_tips s.
Proof. exact (tips_pool_covers_withdrawals s). Qed.
Print Assumptions C04_tips_escrow_covers.

Theorem C04_withdraw_never_insufficient s sel : einv s -> e_credit_ops s < P ->
  owed_get sel (e_credits s) / P <= e_tips s.
Proof. exact (withdraw_never_insufficient s sel). Qed.
Print Assumptions C04_withdraw_never_insufficient.

(* a tip on a round without report stays with the query *)
Theorem C04_unreported_tip_carries s q a s' : estep s (ETip q a) = Some s' ->
  owed_get q (e_owed s') = owed_get q (e_owed s) + (a - Z.quot (a * 2) 100).
Proof. exact (tip_stays_until_paid s q a s'). Qed.
Print Assumptions C04_unreported_tip_carries.

(* time based rewards use up exactly the reward pool's balance *)
Theorem C04_tbr_pays_whole_pool s cs s' : estep s (EPayTbr cs) = Some s' -> e_tbr s' = 0 /\ e_tips s' = e_tips s + e_tbr s.
Proof. exact (tbr_pays_whole_pool s cs s'). Qed.
Print Assumptions C04_tbr_pays_whole_pool.

(* meaning of the executable specification that is evaluated on the real application after every operation
   of the generated histories (all-message, payout-directed, dispute-directed): *)

(* no withdrawal of credited rewards, fee refund or voter reward claim was refused for lack of funds *)
Theorem C04_check_no_entitled_claim_refused before op signer res params after decs :
  c04_step before (Step op signer res params after decs) = [] -> res <> 3.
Proof. exact (c04_step_not_refused before op signer res params after decs). Qed.
Print Assumptions C04_check_no_entitled_claim_refused.

(* at every block boundary the oracle account equals the unpaid tips, the tips pool covers the selectors'
   whole-unit credits and their credits up to 10^-12 unit, the bridge account is empty; the end blocker moved
   coins only from the oracle account and the reward pool into the tips pool *)
Theorem C04_check_block_boundary before signer params after decs :
  c04_step before (Step "EndBlock" signer 0 params after decs) = [] ->
  sp_oracle after = sp_oracle_owed after /\ sp_tips_floor after <= sp_tips after /\
  sp_tips_scaled after - sp_tips after * P <= 1000000 /\ sp_bridge after = 0 /\
  sp_oracle after + sp_tips after + sp_tbr after = sp_oracle before + sp_tips before + sp_tbr before /\
  sp_oracle after <= sp_oracle before /\ sp_tbr after <= sp_tbr before.
Proof. exact (c04_step_sound_endblock before signer params after decs). Qed.
Print Assumptions C04_check_block_boundary.

Theorem C04_check_tip before signer a after decs :
  c04_step before (Step "Tip" signer 0 [a] after decs) = [] ->
  sp_oracle after - sp_oracle before = a - Z.quot (a * 2) 100 /\
  sp_oracle_owed after - sp_oracle_owed before = a - Z.quot (a * 2) 100.
Proof. exact (c04_step_sound_tip before signer a after decs). Qed.
Print Assumptions C04_check_tip.

Theorem C04_check_withdraw before signer params after decs :
  c04_step before (Step "WithdrawTip" signer 0 params after decs) = [] ->
  sp_tips before - sp_tips after = (sp_bonded after + sp_notbonded after) - (sp_bonded before + sp_notbonded before) /\
  sp_tips after < sp_tips before.
Proof. exact (c04_step_sound_withdraw before signer params after decs). Qed.
Print Assumptions C04_check_withdraw.

(* no voter reward of a dispute was paid twice to the same account *)
Theorem C04_check_reward_once init steps : c04_hist_check (Hist init steps) = [] -> NoDup (reward_claims steps).
Proof. exact (c04_hist_once init steps). Qed.
Print Assumptions C04_check_reward_once.

(* the voter rewards paid out for a dispute never exceed the pot its execution set aside *)
Theorem C04_check_voter_pot init steps :
  c04_hist_check (Hist init steps) = [] ->
  forall id pot paid, In (id, pot, paid) (reward_payments init steps) -> paid_for id (reward_payments init steps) <= pot.
Proof. exact (c04_hist_pots init steps). Qed.
Print Assumptions C04_check_voter_pot.

(* a deposit claim (accepted or not) leaves the bridge account as it was: what it minted it paid out *)
Theorem C04_check_claim_deposit before signer res params after decs :
  c04_step before (Step "ClaimDeposits" signer res params after decs) = [] -> sp_bridge after = sp_bridge before.
Proof. exact (c04_step_sound_claim_deposit before signer res params after decs). Qed.
Print Assumptions C04_check_claim_deposit.
