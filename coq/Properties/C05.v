(* C05 — The staked-token ledger is always backed by the staking pools.
   Partial by construction: x/staking itself is exercised through the history driver; the
   machine below keeps the pool/ledger bookkeeping of every Layer flow that moves stake. *)
From Coq Require Import ZArith List.
From Coq Require Import String.
From Verif Require Import Base.Harness Model.Escrow Model.Ledger Proofs.EscrowProofs Proofs.LedgerProofs.
(* Model.Slash shares names with Model.Ledger (snap, hist_classes, ...): its names are written qualified *)
From Verif Require Model.Slash.
From Verif Require Import Proofs.StakeBackingProofs.
Import ListNotations.
Open Scope Z_scope.

Theorem C05_pools_back_ledger_step s o s' : pinv s -> pstep s o = Some s' -> pinv s'.
Proof. exact (pstep_inv s o s'). Qed.
Print Assumptions C05_pools_back_ledger_step.

Theorem C05_pools_back_ledger ops s : pinv s -> pinv (fold_left pstep_total ops s).
Proof. exact (prun_inv ops s). Qed.
Print Assumptions C05_pools_back_ledger.

(* stake taken for a dispute or a fee leaves ledger and pool by the same amount *)
Theorem C05_escrow_conserves s a s' : pstep s (PEscrowBonded a) = Some s' ->
  p_bonded s - p_bonded s' = a /\ p_bonded_ledger s - p_bonded_ledger s' = a /\ p_dispute s' - p_dispute s = a.
Proof. exact (escrow_moves_equal s a s'). Qed.
Print Assumptions C05_escrow_conserves.

(* stake put back enters both by the same amount, except the dust that stays in the pool *)
Theorem C05_return_conserves s amount dust tb s' : pstep s (PReturn amount dust tb) = Some s' ->
  (p_bonded s' + p_notbonded s') - (p_bonded s + p_notbonded s) = amount /\
  (p_bonded_ledger s' + p_notbonded_ledger s') - (p_bonded_ledger s + p_notbonded_ledger s) = amount - dust /\
  (p_bonded s' - p_bonded_ledger s') - (p_bonded s - p_bonded_ledger s) = dust.
Proof. exact (return_moves_equal_up_to_dust s amount dust tb s'). Qed.
Print Assumptions C05_return_conserves.

Theorem C05_return_to_unbonded_refuted :
  exists s amount, pinv s /\ 0 < amount <= p_dispute s /\ ~ pinv (pstep_return_as_found s amount).
Proof. exact return_as_found_refuted. Qed.
Print Assumptions C05_return_to_unbonded_refuted.

(* what the pools hold beyond the ledger never shrinks: every operation keeps it, a return adds exactly the
   dust of its entries; along every history it is monotone *)
Theorem C05_slack_step s o s' : pstep s o = Some s' ->
  pslack s' = pslack s + match o with PReturn _ dust _ => dust | _ => 0 end /\
  0 <= match o with PReturn _ dust _ => dust | _ => 0 end.
Proof. exact (pstep_slack s o s'). Qed.
Print Assumptions C05_slack_step.

Theorem C05_slack_monotone ops s : pslack s <= pslack (fold_left pstep_total ops s).
Proof. exact (prun_slack_monotone ops s). Qed.
Print Assumptions C05_slack_monotone.

(* the executable specification evaluated after every operation of the real histories means: pools cover the
   ledgers, shares positive, tokens non-negative, per-backer fee records sum to their totals, and the slack
   grew by between 0 and 64 units *)
Theorem C05_check_sound before op signer res params after decs :
  c05_step before (Step op signer res params after decs) = [] ->
  sp_bonded_ledger after <= sp_bonded after /\ sp_notbonded_ledger after <= sp_notbonded after /\
  sp_shares_pos after = true /\ sp_tokens_nonneg after = true /\ sp_records_sum after = true /\
  pool_slack before <= pool_slack after <= pool_slack before + 64.
Proof. exact (c05_step_sound before op signer res params after decs). Qed.
Print Assumptions C05_check_sound.

(* ================================================================================================================ *)
(* the same property on the faithful model of the code that takes stake for a dispute (Model/Slash.v: validators,
   delegations, unbonding delegations, the two pools and the dispute escrow; EscrowReporterStake and everything below
   it; propose / add fee / begin block).  That model is tied to the Go code by C11's correspondence check.
     bonded_ledger st     = tokens of the validators with status 3
     notbonded_ledger st  = tokens of the validators with status 1 or 2 + all entries of all unbonding delegations
     backed st            = bonded_ledger st <= s_bonded st /\ notbonded_ledger st <= s_notbonded st
     bonded_gap, notbonded_gap = pool - ledger;  slack = their sum
     wf_stk st            = no negative validator tokens, no negative unbonding entry (needed by no backing theorem)
   The theorems hold for every repair variant of the model: where the code as found knows no pool (F34) the
   transaction fails and produces no state. *)

(* EscrowReporterStake keeps the invariant *)
Theorem C05_stake_escrow_backed vr reds st origins power amt st' rec :
  Slash.escrow vr reds st origins power amt = Some (st', rec) -> backed st -> backed st'.
Proof. exact (escrow_backed vr reds st origins power amt st' rec). Qed.
Print Assumptions C05_stake_escrow_backed.

(* each pool loses exactly what its ledger loses, and no pool grows *)
Theorem C05_stake_escrow_keeps_gaps vr reds st origins power amt st' rec :
  Slash.escrow vr reds st origins power amt = Some (st', rec) ->
  Slash.s_bonded st - bonded_ledger st = Slash.s_bonded st' - bonded_ledger st' /\
  Slash.s_notbonded st - notbonded_ledger st = Slash.s_notbonded st' - notbonded_ledger st' /\
  Slash.s_bonded st' <= Slash.s_bonded st /\ Slash.s_notbonded st' <= Slash.s_notbonded st.
Proof. exact (escrow_keeps_gaps vr reds st origins power amt st' rec). Qed.
Print Assumptions C05_stake_escrow_keeps_gaps.

Theorem C05_stake_escrow_slack vr reds st origins power amt st' rec :
  Slash.escrow vr reds st origins power amt = Some (st', rec) -> slack st' = slack st.
Proof. exact (escrow_slack vr reds st origins power amt st' rec). Qed.
Print Assumptions C05_stake_escrow_slack.

(* what the two ledgers lose is what arrives in the dispute escrow *)
Theorem C05_stake_escrow_ledger_to_escrow vr reds st origins power amt st' rec :
  Slash.escrow vr reds st origins power amt = Some (st', rec) ->
  (bonded_ledger st - bonded_ledger st') + (notbonded_ledger st - notbonded_ledger st') = Slash.s_escrow st' - Slash.s_escrow st /\
  0 <= bonded_ledger st - bonded_ledger st' /\ 0 <= notbonded_ledger st - notbonded_ledger st'.
Proof. exact (escrow_ledger_to_escrow vr reds st origins power amt st' rec). Qed.
Print Assumptions C05_stake_escrow_ledger_to_escrow.

Theorem C05_stake_escrow_wf vr reds st origins power amt st' rec :
  Slash.escrow vr reds st origins power amt = Some (st', rec) -> wf_stk st -> wf_stk st'.
Proof. exact (escrow_wf vr reds st origins power amt st' rec). Qed.
Print Assumptions C05_stake_escrow_wf.

Theorem C05_stake_pools_nonneg st : wf_stk st -> backed st -> 0 <= Slash.s_bonded st /\ 0 <= Slash.s_notbonded st.
Proof. exact (backed_wf_pools_nonneg st). Qed.
Print Assumptions C05_stake_pools_nonneg.

(* the building blocks: deductFromdelegation (Keeper.Unbond + MoveTokensFromValidator), deductUnbondingDelegation
   for the unbonding delegation the store holds under that key (what undelegate passes), undelegate *)
Theorem C05_stake_deduct_from_delegation vr st del vl dt st' rem :
  Slash.deduct_from_delegation vr st del vl dt = Some (st', rem) ->
  (bonded_gap st' = bonded_gap st /\ notbonded_gap st' = notbonded_gap st /\
   Slash.s_bonded st' <= Slash.s_bonded st /\ Slash.s_notbonded st' <= Slash.s_notbonded st) /\
  (wf_stk st -> wf_stk st').
Proof. exact (deduct_from_delegation_good vr st del vl dt st' rem). Qed.
Print Assumptions C05_stake_deduct_from_delegation.

Theorem C05_stake_deduct_unbonding vr st u t st' tl :
  Slash.find_ubd (Slash.u_del u) (Slash.u_val u) (Slash.s_ubds st) = Some u ->
  Slash.deduct_unbonding vr st u t = Some (st', tl) ->
  (bonded_gap st' = bonded_gap st /\ notbonded_gap st' = notbonded_gap st /\
   Slash.s_bonded st' <= Slash.s_bonded st /\ Slash.s_notbonded st' <= Slash.s_notbonded st) /\
  (wf_stk st -> wf_stk st').
Proof. exact (deduct_unbonding_good vr st u t st' tl). Qed.
Print Assumptions C05_stake_deduct_unbonding.

(* without that hypothesis: an unbonding delegation that is not in the store is paid out of the pool *)
Theorem C05_stake_deduct_unbonding_foreign_refuted :
  exists st u t st' tl, backed st /\ wf_stk st /\ Slash.deduct_unbonding Slash.current st u t = Some (st', tl) /\ ~ backed st'.
Proof. exact deduct_unbonding_foreign_refuted. Qed.
Print Assumptions C05_stake_deduct_unbonding_foreign_refuted.

Theorem C05_stake_undelegate vr st del vl dt st' rem :
  Slash.undelegate vr st del vl dt = Some (st', rem) ->
  (bonded_gap st' = bonded_gap st /\ notbonded_gap st' = notbonded_gap st /\
   Slash.s_bonded st' <= Slash.s_bonded st /\ Slash.s_notbonded st' <= Slash.s_notbonded st) /\
  (wf_stk st -> wf_stk st').
Proof. exact (undelegate_good vr st del vl dt st' rem). Qed.
Print Assumptions C05_stake_undelegate.

(* dispute histories.  A fee paid from stake leaves the bonded pool while no validator of the slice loses tokens: the
   payer's stake sits with a validator outside the slice and w_bond is its ledger (outside_bond w = its sum).
     world_backed w = bonded_ledger (w_stk w) + outside_bond w <= s_bonded (w_stk w) /\
                      notbonded_ledger (w_stk w) <= s_notbonded (w_stk w)
   Along every history both gaps are constant and no pool grows *)
Theorem C05_stake_history_keeps_gaps vr e ops w :
  let w' := Slash.run vr e w ops in
  Slash.s_bonded (Slash.w_stk w') - bonded_ledger (Slash.w_stk w') - outside_bond w' =
    Slash.s_bonded (Slash.w_stk w) - bonded_ledger (Slash.w_stk w) - outside_bond w /\
  Slash.s_notbonded (Slash.w_stk w') - notbonded_ledger (Slash.w_stk w') =
    Slash.s_notbonded (Slash.w_stk w) - notbonded_ledger (Slash.w_stk w) /\
  Slash.s_bonded (Slash.w_stk w') <= Slash.s_bonded (Slash.w_stk w) /\
  Slash.s_notbonded (Slash.w_stk w') <= Slash.s_notbonded (Slash.w_stk w).
Proof. exact (run_keeps_gaps vr e ops w). Qed.
Print Assumptions C05_stake_history_keeps_gaps.

Theorem C05_stake_history_world_backed vr e ops w : world_backed w -> world_backed (Slash.run vr e w ops).
Proof. exact (run_world_backed vr e ops w). Qed.
Print Assumptions C05_stake_history_world_backed.

(* in every reachable world the pools back the ledgers of the slice *)
Theorem C05_stake_history_backed vr e ops w :
  world_backed w -> bonds_nonneg w -> backed (Slash.w_stk (Slash.run vr e w ops)).
Proof. exact (run_backed vr e ops w). Qed.
Print Assumptions C05_stake_history_backed.

Theorem C05_stake_history_wf vr e ops w : wf_stk (Slash.w_stk w) -> wf_stk (Slash.w_stk (Slash.run vr e w ops)).
Proof. exact (run_wf vr e ops w). Qed.
Print Assumptions C05_stake_history_wf.

(* PayDisputeFee alone, whatever the sign of the amount: no gap shrinks *)
Theorem C05_stake_pay_gaps w sender amount from_bond w1 :
  Slash.pay w sender amount from_bond = Some w1 ->
  world_bonded_gap w <= world_bonded_gap w1 /\ notbonded_gap (Slash.w_stk w1) = notbonded_gap (Slash.w_stk w).
Proof. exact (pay_gaps_le w sender amount from_bond w1). Qed.
Print Assumptions C05_stake_pay_gaps.

(* with backed (w_stk w) alone as the hypothesis the statement is false in the model: the bonded pool has to contain
   the payer's stake outside the slice as well *)
Theorem C05_stake_history_without_outside_bond_refuted :
  exists e w ops, backed (Slash.w_stk w) /\ wf_stk (Slash.w_stk w) /\ bonds_nonneg w /\
                  ~ backed (Slash.w_stk (Slash.run Slash.current e w ops)).
Proof. exact run_backed_without_outside_bond_refuted. Qed.
Print Assumptions C05_stake_history_without_outside_bond_refuted.
