(* C05 — The staked-token ledger is always backed by the staking pools.
   Partial by construction: x/staking itself is exercised through the history driver; the
   machine below keeps the pool/ledger bookkeeping of every Layer flow that moves stake. *)
From Coq Require Import ZArith List.
From Coq Require Import String.
From Verif Require Import Base.Harness Model.Escrow Model.Ledger Proofs.EscrowProofs Proofs.LedgerProofs.
Import ListNotations.
Open Scope Z_scope.

Theorem C05_pools_back_ledger_step s o s' : pinv s -> pstep s o = Some s' -> pinv s'.
Proof. exact (pstep_inv s o s'). Qed.
Print Assumptions C05_pools_back_ledger_step.

Theorem C05_pools_back_ledger ops s : pinv s -> pinv (fold_left pstep_total ops s).
Proof. exact (prun_inv ops s). Qed.
Print Assumptions C05_pools_back_ledger.

(* stake taken for a dispute or a fee leaves ledger and pool by the same amount *)
Theorem C05_escrow_conserves s a s' : pstep s (PEscrowBonded a) = Some s' ->
  p_bonded s - p_bonded s' = a /\ p_bonded_ledger s - p_bonded_ledger s' = a /\ p_dispute s' - p_dispute s = a.
Proof. exact (escrow_moves_equal s a s'). Qed.
Print Assumptions C05_escrow_conserves.

(* stake put back enters both by the same amount, except the dust that stays in the pool *)
Theorem C05_return_conserves s amount dust tb s' : pstep s (PReturn amount dust tb) = Some s' ->
  (p_bonded s' + p_notbonded s') - (p_bonded s + p_notbonded s) = amount /\
  (p_bonded_ledger s' + p_notbonded_ledger s') - (p_bonded_ledger s + p_notbonded_ledger s) = amount - dust /\
  (p_bonded s' - p_bonded_ledger s') - (p_bonded s - p_bonded_ledger s) = dust.
Proof. exact (return_moves_equal_up_to_dust s amount dust tb s'). Qed.
Print Assumptions C05_return_conserves.

Theorem C05_return_to_unbonded_refuted :
  exists s amount, pinv s /\ 0 < amount <= p_dispute s /\ ~ pinv (pstep_return_as_found s amount).
Proof. exact return_as_found_refuted. Qed.
Print Assumptions C05_return_to_unbonded_refuted.

(* what the pools hold beyond the ledger never shrinks: every operation keeps it, a return adds exactly the
   dust of its entries; along every history it is monotone *)
Theorem C05_slack_step s o s' : pstep s o = Some s' ->
  pslack s' = pslack s + match o with PReturn _ dust _ => dust | _ => 0 end /\
  0 <= match o with PReturn _ dust _ => dust | _ => 0 end.
Proof. exact (pstep_slack s o s'). Qed.
Print Assumptions C05_slack_step.

Theorem C05_slack_monotone ops s : pslack s <= pslack (fold_left pstep_total ops s).
Proof. exact (prun_slack_monotone ops s). Qed.
Print Assumptions C05_slack_monotone.

(* the executable specification evaluated after every operation of the real histories means: pools cover the
   ledgers, shares positive, tokens non-negative, per-backer fee records sum to their totals, and the slack
   grew by between 0 and 64 units *)
Theorem C05_check_sound before op signer res params after decs :
  c05_step before (Step op signer res params after decs) = [] ->
  sp_bonded_ledger after <= sp_bonded after /\ sp_notbonded_ledger after <= sp_notbonded after /\
  sp_shares_pos after = true /\ sp_tokens_nonneg after = true /\ sp_records_sum after = true /\
  pool_slack before <= pool_slack after <= pool_slack before + 64.
Proof. exact (c05_step_sound before op signer res params after decs). Qed.
Print Assumptions C05_check_sound.
