(* C14 — Bridge deposits mint once, conditionally; withdrawals burn what they attest.
   Property theorems only; proofs live in Proofs/BridgeTokensProofs.v, the model in Model/BridgeTokens.v.

   Variant flags (DESIGN 2.3): [repaired] = the code after the two proposed fix: patches (and what
   c14_check compares the implementation with), [as_found] = the code as found (F26, F45). *)
From Coq Require Import ZArith List String.
From Verif Require Import Base.Harness Model.BridgeTokens Proofs.BridgeTokensProofs.
Import ListNotations.
Open Scope Z_scope.

(* ---- deposits ------------------------------------------------------------------------------------------ *)
(* over every history of transactions and environment events, from every state, in both variants:
   the sequence of deposit ids tokens were minted for has no repetition, and contains no id that
   was already claimed at the start *)
Theorem C14_claim_at_most_once v cf ops s :
  NoDup (trace v cf s ops) /\ forall d, In d (s_claimed s) -> ~ In d (trace v cf s ops).
Proof. exact (trace_once v cf ops s). Qed.
Print Assumptions C14_claim_at_most_once.

(* one ClaimDeposits message: distinct ids, none claimed before, all claimed afterwards (and a
   failing element fails the whole message: claim_deposits is all-or-nothing by construction) *)
Theorem C14_batch_distinct_and_fresh v cf s claimer ds idxs s' :
  claim_deposits v cf s claimer ds idxs = Some s' ->
  NoDup ds /\ (forall d, In d ds -> ~ In d (s_claimed s)) /\
  (forall d, In d (s_claimed s') <-> In d ds \/ In d (s_claimed s)).
Proof. exact (claim_batch v cf s claimer ds idxs s'). Qed.
Print Assumptions C14_batch_distinct_and_fresh.

(* success only from an unflagged aggregate of that deposit's query, at least 12 h old, whose power
   reaches the threshold of the latest checkpoint strictly before the aggregate's timestamp *)
Theorem C14_claim_only_if v cf s claimer dep idx s' :
  claim_deposit v cf s claimer dep idx = Some s' ->
  exists a, nth_z (aggs_of s dep) idx = Some a /\ In a (aggs_of s dep) /\ a_flagged a = false /\
            ~ In dep (s_claimed s) /\
            TWELVE_H <= s_now s - a_ts a * MS /\
            exists thr, in_force (s_ckpts s) (a_ts a) thr /\ thr <= a_power a.
Proof. exact (claim_only_if v cf s claimer dep idx s'). Qed.
Print Assumptions C14_claim_only_if.

(* exactly amount / 10^12 is minted, tip / 10^12 goes to the claimer, the rest to the recipient named
   in the report, the bridge account ends where it started — for every uint256 amount and tip *)
Theorem C14_mint_exact cf s claimer dep idx s' :
  claim_deposit repaired cf s claimer dep idx = Some s' ->
  exists a d evm text x y r,
    nth_z (aggs_of s dep) idx = Some a /\
    hex_decode (codes (a_value a)) = Some d /\ abi_decode4 d = Some (evm, text, x, y) /\
    tbl_lookup (c_tbl cf) text = Some (Some r) /\
    y / E12 <= x / E12 /\
    s_supply s' = s_supply s + x / E12 /\
    s_bridge s' = s_bridge s /\
    forall acct, bal_get (s_bal s') acct =
                 bal_get (s_bal s) acct + (if claimer =? acct then y / E12 else 0)
                 + (if r =? acct then x / E12 - y / E12 else 0).
Proof. exact (claim_mint_exact repaired cf s claimer dep idx s' eq_refl). Qed.
Print Assumptions C14_mint_exact.

(* the code as found: the same, provided both quotients fit int64 *)
Theorem C14_mint_exact_partial cf s claimer dep idx s' :
  claim_deposit as_found cf s claimer dep idx = Some s' ->
  exists a d evm text x y r,
    nth_z (aggs_of s dep) idx = Some a /\
    hex_decode (codes (a_value a)) = Some d /\ abi_decode4 d = Some (evm, text, x, y) /\
    tbl_lookup (c_tbl cf) text = Some (Some r) /\
    (x / E12 < 2 ^ 63 -> y / E12 < 2 ^ 63 ->
     y / E12 <= x / E12 /\
     s_supply s' = s_supply s + x / E12 /\
     s_bridge s' = s_bridge s /\
     forall acct, bal_get (s_bal s') acct =
                  bal_get (s_bal s) acct + (if claimer =? acct then y / E12 else 0)
                  + (if r =? acct then x / E12 - y / E12 else 0)).
Proof. exact (claim_mint_exact_partial as_found cf s claimer dep idx s' eq_refl). Qed.
Print Assumptions C14_mint_exact_partial.

(* ... and beyond that bound it is false (finding F26): amount (2^64+5)*10^12 mints 5 *)
Theorem C14_huge_amount_refuted :
  exists cf s claimer dep idx s' a d evm text x y,
    claim_deposit as_found cf s claimer dep idx = Some s' /\
    nth_z (aggs_of s dep) idx = Some a /\ hex_decode (codes (a_value a)) = Some d /\
    abi_decode4 d = Some (evm, text, x, y) /\
    s_supply s' <> s_supply s + x / E12.
Proof. exact huge_amount_refuted. Qed.
Print Assumptions C14_huge_amount_refuted.

Theorem C14_tip_gt_amount_rejected v cf s claimer dep idx a r am tp :
  nth_z (aggs_of s dep) idx = Some a ->
  decode_deposit v cf (a_value a) = DOk r am tp -> am < tp ->
  claim_deposit v cf s claimer dep idx = None.
Proof. exact (claim_tip_gt_amount_rejected v cf s claimer dep idx a r am tp). Qed.
Print Assumptions C14_tip_gt_amount_rejected.

(* ---- withdrawals ----------------------------------------------------------------------------------------- *)
Theorem C14_withdraw_burns_exact v cf s sender dn amount rcpt s' :
  withdraw v cf s sender dn amount rcpt = Some s' ->
  dn = true /\ 0 < amount /\ amount <= bal_get (s_bal s) sender /\
  s_supply s' = s_supply s - amount /\ s_bridge s' = s_bridge s /\
  forall a, bal_get (s_bal s') a = bal_get (s_bal s) a - (if sender =? a then amount else 0).
Proof. exact (withdraw_burns_exact v cf s sender dn amount rcpt s'). Qed.
Print Assumptions C14_withdraw_burns_exact.

(* over every history: the ids of the published withdrawal aggregates are strictly increasing in
   time and never above the counter ... *)
Theorem C14_withdraw_ids_increasing v cf ops s : wids_ok s -> wids_ok (run v cf s ops).
Proof. exact (run_wids_ok v cf ops s). Qed.
Print Assumptions C14_withdraw_ids_increasing.

(* ... and an accepted withdrawal takes an id above all of them *)
Theorem C14_withdraw_id_fresh v cf s sender dn amount rcpt s' :
  wids_ok s -> withdraw v cf s sender dn amount rcpt = Some s' ->
  exists w, s_wpub s' = w :: s_wpub s /\ w_id w = s_wid s + 1 /\ s_wid s' = w_id w /\
            forall w', In w' (s_wpub s) -> w_id w' < w_id w.
Proof. exact (withdraw_id_fresh v cf s sender dn amount rcpt s'). Qed.
Print Assumptions C14_withdraw_id_fresh.

(* the published value, decoded the way the EVM contract decodes it, is (recipient, sender, amount, 0) *)
Theorem C14_withdraw_aggregate_encodes cf s sender dn amount rcpt s' :
  withdraw repaired cf s sender dn amount rcpt = Some s' ->
  exists rb text w rest,
    hex_decode (codes rcpt) = Some rb /\ blen rb = 20 /\ nth_z (c_addrs cf) sender = Some text /\
    s_wpub s' = w :: rest /\ rest = s_wpub s /\ w_id w = s_wid s + 1 /\
    (blen text < 2 ^ 256 -> abi_decode4 (w_value w) = Some (of_be rb, text, amount, 0)).
Proof. exact (withdraw_encodes repaired cf s sender dn amount rcpt s' eq_refl). Qed.
Print Assumptions C14_withdraw_aggregate_encodes.

(* the code as found accepts a 21-byte recipient and attests a different one (finding F45) *)
Theorem C14_long_recipient_refuted :
  exists cf s sender amount rcpt s' rb w evm text x y,
    withdraw as_found cf s sender true amount rcpt = Some s' /\
    hex_decode (codes rcpt) = Some rb /\ head (s_wpub s') = Some w /\
    abi_decode4 (w_value w) = Some (evm, text, x, y) /\ evm <> of_be rb.
Proof. exact long_recipient_refuted. Qed.
Print Assumptions C14_long_recipient_refuted.

(* the ABI round trip the two theorems above rest on, for all field values *)
Theorem C14_abi_roundtrip addr s x y :
  0 <= addr < 2 ^ 160 -> 0 <= x < 2 ^ 256 -> 0 <= y < 2 ^ 256 -> blen s < 2 ^ 256 ->
  abi_decode4 (abi_encode4 addr s x y) = Some (addr, s, x, y).
Proof. exact (abi_decode_encode4 addr s x y). Qed.
Print Assumptions C14_abi_roundtrip.

(* ---- reporters cannot touch withdrawal queries ------------------------------------------------------------- *)
(* the blocker rejects the query data of every withdrawal id and lets every deposit id through;
   a report under a withdrawal query id needs query data hashing to that id, i.e. (keccak collision
   resistance) exactly these bytes *)
Theorem C14_no_report_for_withdrawal_query id :
  submit_passes_blocker (bridge_qdata false id) = false /\ submit_passes_blocker (bridge_qdata true id) = true.
Proof. exact (conj (no_report_for_withdrawal_query id) (deposit_query_passes id)). Qed.
Print Assumptions C14_no_report_for_withdrawal_query.

(* in the model, the list of withdrawal aggregates changes only by an accepted withdrawal *)
Theorem C14_withdrawal_aggregates_only_by_withdraw v cf s o :
  s_wpub (hstep v cf s o) <> s_wpub s ->
  exists sender dn amount rcpt s', o = OWithdraw sender dn amount rcpt /\ withdraw v cf s sender dn amount rcpt = Some s'.
Proof. exact (wpub_only_by_withdraw v cf s o). Qed.
Print Assumptions C14_withdrawal_aggregates_only_by_withdraw.

(* ---- what a silent check establishes about the implementation's own outputs --------------------------------- *)
Theorem C14_check_sound_claim v cf pre pre_o minted maxid claimer ds idxs o r :
  check_steps v cf pre pre_o minted maxid (SClaim claimer ds idxs o :: r) = [] -> o_ok o = true ->
  NoDup ds /\ (forall d, In d ds -> ~ In d minted) /\
  exists gs, List.length ds = List.length idxs /\
             Forall2 (fun di g => grant_ok cf pre (fst di) (snd di) g) (combine ds idxs) gs /\
             o_supply o = s_supply pre + sum_amount gs /\
             o_bridge o = s_bridge pre /\
             forall a, In a (accounts o) -> bal_get (bals_of 0 (o_bals o)) a = bal_get (s_bal pre) a + credit claimer a gs.
Proof.
  exact (fun H Hok => claim_spec_sound cf pre minted claimer ds idxs o
                        (check_steps_claim v cf pre pre_o minted maxid claimer ds idxs o r H Hok)).
Qed.
Print Assumptions C14_check_sound_claim.

Theorem C14_check_sound_withdraw v cf pre pre_o minted maxid sender dn amount rcpt o r :
  check_steps v cf pre pre_o minted maxid (SWithdraw sender dn amount rcpt o :: r) = [] -> o_ok o = true ->
  dn = true /\ 0 < amount /\
  o_supply o = s_supply pre - amount /\ o_bridge o = s_bridge pre /\
  (forall a, In a (accounts o) -> bal_get (bals_of 0 (o_bals o)) a = bal_get (s_bal pre) a - (if a =? sender then amount else 0)) /\
  exists id value power ts nrep rb d text,
    o_w o = WPub id value power ts false nrep /\ maxid < id /\ o_wid o = id /\ o_naggs o = o_naggs pre_o + 1 /\
    hex_decode (codes rcpt) = Some rb /\ hex_decode (codes value) = Some d /\ nth_z (c_addrs cf) sender = Some text /\
    abi_decode4 d = Some (of_be rb, text, amount, 0).
Proof.
  exact (fun H Hok => withdraw_spec_sound cf pre pre_o maxid sender dn amount rcpt o
                        (check_steps_withdraw v cf pre pre_o minted maxid sender dn amount rcpt o r H Hok)).
Qed.
Print Assumptions C14_check_sound_withdraw.

Theorem C14_check_sound_submit v cf pre pre_o minted maxid id o r :
  check_steps v cf pre pre_o minted maxid (SSubmit true id o :: r) = [] -> o_ok o = false.
Proof. exact (check_steps_submit v cf pre pre_o minted maxid id o r). Qed.
Print Assumptions C14_check_sound_submit.
