(* C14 — Bridge deposits mint once, conditionally; withdrawals burn what they attest.
   Property theorems only; proofs live in Proofs/BridgeTokensProofs.v, the model in Model/BridgeTokens.v;
   the byte level of the query ids and of the report value: Model/BridgeIds.v, Proofs/BridgeIdsProofs.v
   (names of those two files and of Model/BridgeEnc.v are written qualified).

   Variant flags (DESIGN 2.3): [repaired] = the code after the two proposed fix: patches (and what
   c14_check compares the implementation with), [as_found] = the code as found (F26, F45). *)
From Coq Require Import ZArith List String.
From Verif Require Import Base.Harness Model.BridgeTokens Proofs.BridgeTokensProofs.
From Verif Require Model.BridgeEnc Model.BridgeIds Proofs.BridgeIdsProofs.
Import ListNotations.
Open Scope Z_scope.

(* ---- deposits ------------------------------------------------------------------------------------------ *)
(* over every history of transactions and environment events, from every state, in both variants:
   the sequence of deposit ids tokens were minted for has no repetition, and contains no id that
   was already claimed at the start *)
Theorem C14_claim_at_most_once v cf ops s :
  NoDup (trace v cf s ops) /\ forall d, In d (s_claimed s) -> ~ In d (trace v cf s ops).
Proof. exact (trace_once v cf ops s). Qed.
Print Assumptions C14_claim_at_most_once.

(* one ClaimDeposits message: distinct ids, none claimed before, all claimed afterwards (and a
   failing element fails the whole message: claim_deposits is all-or-nothing by construction) *)
Theorem C14_batch_distinct_and_fresh v cf s claimer ds idxs s' :
  claim_deposits v cf s claimer ds idxs = Some s' ->
  NoDup ds /\ (forall d, In d ds -> ~ In d (s_claimed s)) /\
  (forall d, In d (s_claimed s') <-> In d ds \/ In d (s_claimed s)).
Proof. exact (claim_batch v cf s claimer ds idxs s'). Qed.
Print Assumptions C14_batch_distinct_and_fresh.

(* success only from an unflagged aggregate of that deposit's query, at least 12 h old, whose power
   reaches the threshold of the latest checkpoint strictly before the aggregate's timestamp *)
Theorem C14_claim_only_if v cf s claimer dep idx s' :
  claim_deposit v cf s claimer dep idx = Some s' ->
  exists a, nth_z (aggs_of s dep) idx = Some a /\ In a (aggs_of s dep) /\ a_flagged a = false /\
            ~ In dep (s_claimed s) /\
            TWELVE_H <= s_now s - a_ts a * MS /\
            exists thr, in_force (s_ckpts s) (a_ts a) thr /\ thr <= a_power a.
Proof. exact (claim_only_if v cf s claimer dep idx s'). Qed.
Print Assumptions C14_claim_only_if.

(* exactly amount / 10^12 is minted, tip / 10^12 goes to the claimer, the rest to the recipient named
   in the report, the bridge account ends where it started — for every uint256 amount and tip *)
Theorem C14_mint_exact cf s claimer dep idx s' :
  claim_deposit repaired cf s claimer dep idx = Some s' ->
  exists a d evm text x y r,
    nth_z (aggs_of s dep) idx = Some a /\
    hex_decode (codes (a_value a)) = Some d /\ abi_decode4 d = Some (evm, text, x, y) /\
    tbl_lookup (c_tbl cf) text = Some (Some r) /\
    y / E12 <= x / E12 /\
    s_supply s' = s_supply s + x / E12 /\
    s_bridge s' = s_bridge s /\
    forall acct, bal_get (s_bal s') acct =
                 bal_get (s_bal s) acct + (if claimer =? acct then y / E12 else 0)
                 + (if r =? acct then x / E12 - y / E12 else 0).
Proof. exact (claim_mint_exact repaired cf s claimer dep idx s' eq_refl). Qed.
Print Assumptions C14_mint_exact.

(* the code as found: the same, provided both quotients fit int64 *)
Theorem C14_mint_exact_partial cf s claimer dep idx s' :
  claim_deposit as_found cf s claimer dep idx = Some s' ->
  exists a d evm text x y r,
    nth_z (aggs_of s dep) idx = Some a /\
    hex_decode (codes (a_value a)) = Some d /\ abi_decode4 d = Some (evm, text, x, y) /\
    tbl_lookup (c_tbl cf) text = Some (Some r) /\
    (x / E12 < 2 ^ 63 -> y / E12 < 2 ^ 63 ->
     y / E12 <= x / E12 /\
     s_supply s' = s_supply s + x / E12 /\
     s_bridge s' = s_bridge s /\
     forall acct, bal_get (s_bal s') acct =
                  bal_get (s_bal s) acct + (if claimer =? acct then y / E12 else 0)
                  + (if r =? acct then x / E12 - y / E12 else 0)).
Proof. exact (claim_mint_exact_partial as_found cf s claimer dep idx s' eq_refl). Qed.
Print Assumptions C14_mint_exact_partial.

(* ... and beyond that bound it is false (finding F26): amount (2^64+5)*10^12 mints 5 *)
Theorem C14_huge_amount_refuted :
  exists cf s claimer dep idx s' a d evm text x y,
    claim_deposit as_found cf s claimer dep idx = Some s' /\
    nth_z (aggs_of s dep) idx = Some a /\ hex_decode (codes (a_value a)) = Some d /\
    abi_decode4 d = Some (evm, text, x, y) /\
    s_supply s' <> s_supply s + x / E12.
Proof. exact huge_amount_refuted. Qed.
Print Assumptions C14_huge_amount_refuted.

Theorem C14_tip_gt_amount_rejected v cf s claimer dep idx a r am tp :
  nth_z (aggs_of s dep) idx = Some a ->
  decode_deposit v cf (a_value a) = DOk r am tp -> am < tp ->
  claim_deposit v cf s claimer dep idx = None.
Proof. exact (claim_tip_gt_amount_rejected v cf s claimer dep idx a r am tp). Qed.
Print Assumptions C14_tip_gt_amount_rejected.

(* ---- withdrawals ----------------------------------------------------------------------------------------- *)
Theorem C14_withdraw_burns_exact v cf s sender dn amount rcpt s' :
  withdraw v cf s sender dn amount rcpt = Some s' ->
  dn = true /\ 0 < amount /\ amount <= bal_get (s_bal s) sender /\
  s_supply s' = s_supply s - amount /\ s_bridge s' = s_bridge s /\
  forall a, bal_get (s_bal s') a = bal_get (s_bal s) a - (if sender =? a then amount else 0).
Proof. exact (withdraw_burns_exact v cf s sender dn amount rcpt s'). Qed.
Print Assumptions C14_withdraw_burns_exact.

(* over every history: the ids of the published withdrawal aggregates are strictly increasing in
   time and never above the counter ... *)
Theorem C14_withdraw_ids_increasing v cf ops s : wids_ok s -> wids_ok (run v cf s ops).
Proof. exact (run_wids_ok v cf ops s). Qed.
Print Assumptions C14_withdraw_ids_increasing.

(* ... and an accepted withdrawal takes an id above all of them *)
Theorem C14_withdraw_id_fresh v cf s sender dn amount rcpt s' :
  wids_ok s -> withdraw v cf s sender dn amount rcpt = Some s' ->
  exists w, s_wpub s' = w :: s_wpub s /\ w_id w = s_wid s + 1 /\ s_wid s' = w_id w /\
            forall w', In w' (s_wpub s) -> w_id w' < w_id w.
Proof. exact (withdraw_id_fresh v cf s sender dn amount rcpt s'). Qed.
Print Assumptions C14_withdraw_id_fresh.

(* the published value, decoded the way the EVM contract decodes it, is (recipient, sender, amount, 0) *)
Theorem C14_withdraw_aggregate_encodes cf s sender dn amount rcpt s' :
  withdraw repaired cf s sender dn amount rcpt = Some s' ->
  exists rb text w rest,
    hex_decode (codes rcpt) = Some rb /\ blen rb = 20 /\ nth_z (c_addrs cf) sender = Some text /\
    s_wpub s' = w :: rest /\ rest = s_wpub s /\ w_id w = s_wid s + 1 /\
    (blen text < 2 ^ 256 -> abi_decode4 (w_value w) = Some (of_be rb, text, amount, 0)).
Proof. exact (withdraw_encodes repaired cf s sender dn amount rcpt s' eq_refl). Qed.
Print Assumptions C14_withdraw_aggregate_encodes.

(* the code as found accepts a 21-byte recipient and attests a different one (finding F45) *)
Theorem C14_long_recipient_refuted :
  exists cf s sender amount rcpt s' rb w evm text x y,
    withdraw as_found cf s sender true amount rcpt = Some s' /\
    hex_decode (codes rcpt) = Some rb /\ head (s_wpub s') = Some w /\
    abi_decode4 (w_value w) = Some (evm, text, x, y) /\ evm <> of_be rb.
Proof. exact long_recipient_refuted. Qed.
Print Assumptions C14_long_recipient_refuted.

(* the ABI round trip the two theorems above rest on, for all field values *)
Theorem C14_abi_roundtrip addr s x y :
  0 <= addr < 2 ^ 160 -> 0 <= x < 2 ^ 256 -> 0 <= y < 2 ^ 256 -> blen s < 2 ^ 256 ->
  abi_decode4 (abi_encode4 addr s x y) = Some (addr, s, x, y).
Proof. exact (abi_decode_encode4 addr s x y). Qed.
Print Assumptions C14_abi_roundtrip.

(* ---- reporters cannot touch withdrawal queries ------------------------------------------------------------- *)
(* the blocker rejects the query data of every withdrawal id and lets every deposit id through;
   a report under a withdrawal query id needs query data hashing to that id, i.e. (keccak collision
   resistance) exactly these bytes *)
Theorem C14_no_report_for_withdrawal_query id :
  submit_passes_blocker (bridge_qdata false id) = false /\ submit_passes_blocker (bridge_qdata true id) = true.
Proof. exact (conj (no_report_for_withdrawal_query id) (deposit_query_passes id)). Qed.
Print Assumptions C14_no_report_for_withdrawal_query.

(* in the model, the list of withdrawal aggregates changes only by an accepted withdrawal *)
Theorem C14_withdrawal_aggregates_only_by_withdraw v cf s o :
  s_wpub (hstep v cf s o) <> s_wpub s ->
  exists sender dn amount rcpt s', o = OWithdraw sender dn amount rcpt /\ withdraw v cf s sender dn amount rcpt = Some s'.
Proof. exact (wpub_only_by_withdraw v cf s o). Qed.
Print Assumptions C14_withdrawal_aggregates_only_by_withdraw.

(* ---- what a silent check establishes about the implementation's own outputs --------------------------------- *)
Theorem C14_check_sound_claim v cf pre pre_o minted maxid claimer ds idxs o r :
  check_steps v cf pre pre_o minted maxid (SClaim claimer ds idxs o :: r) = [] -> o_ok o = true ->
  NoDup ds /\ (forall d, In d ds -> ~ In d minted) /\
  exists gs, List.length ds = List.length idxs /\
             Forall2 (fun di g => grant_ok cf pre (fst di) (snd di) g) (combine ds idxs) gs /\
             o_supply o = s_supply pre + sum_amount gs /\
             o_bridge o = s_bridge pre /\
             forall a, In a (accounts o) -> bal_get (bals_of 0 (o_bals o)) a = bal_get (s_bal pre) a + credit claimer a gs.
Proof.
  exact (fun H Hok => claim_spec_sound cf pre minted claimer ds idxs o
                        (check_steps_claim v cf pre pre_o minted maxid claimer ds idxs o r H Hok)).
Qed.
Print Assumptions C14_check_sound_claim.

Theorem C14_check_sound_withdraw v cf pre pre_o minted maxid sender dn amount rcpt o r :
  check_steps v cf pre pre_o minted maxid (SWithdraw sender dn amount rcpt o :: r) = [] -> o_ok o = true ->
  dn = true /\ 0 < amount /\
  o_supply o = s_supply pre - amount /\ o_bridge o = s_bridge pre /\
  (forall a, In a (accounts o) -> bal_get (bals_of 0 (o_bals o)) a = bal_get (s_bal pre) a - (if a =? sender then amount else 0)) /\
  exists id value power ts nrep rb d text,
    o_w o = WPub id value power ts false nrep /\ maxid < id /\ o_wid o = id /\ o_naggs o = o_naggs pre_o + 1 /\
    hex_decode (codes rcpt) = Some rb /\ hex_decode (codes value) = Some d /\ nth_z (c_addrs cf) sender = Some text /\
    abi_decode4 d = Some (of_be rb, text, amount, 0).
Proof.
  exact (fun H Hok => withdraw_spec_sound cf pre pre_o maxid sender dn amount rcpt o
                        (check_steps_withdraw v cf pre pre_o minted maxid sender dn amount rcpt o r H Hok)).
Qed.
Print Assumptions C14_check_sound_withdraw.

Theorem C14_check_sound_submit v cf pre pre_o minted maxid id o r :
  check_steps v cf pre pre_o minted maxid (SSubmit true id o :: r) = [] -> o_ok o = false.
Proof. exact (check_steps_submit v cf pre pre_o minted maxid id o r). Qed.
Print Assumptions C14_check_sound_submit.

(* ---- the names of the queries, in bytes (Model/BridgeIds.v over the encoders and keccak-256 of Model/BridgeEnc.v) -- *)
(* GetDepositQueryId hashes go-ethereum's packing of ("TRBBridge", pack(true, id)); these bytes are
   abi.encode("TRBBridge", abi.encode(true, id)) by the ABI specification's formula, they are the seven words
   written out in query_data_layout, and they are the canonical deposit query data of Model/BridgeTokens.v
   (the bytes the blocker theorems speak about) *)
Theorem C14_deposit_query_data_is id :
  BridgeIds.deposit_query_data id = BridgeEnc.sol_query_data true id /\
  BridgeIds.deposit_query_data id = BridgeIds.query_data_layout true id /\
  bridge_qdata true id = BridgeIds.deposit_query_data id /\
  bridge_qdata false id = BridgeIds.withdraw_query_data id.
Proof.
  exact (conj (BridgeIdsProofs.deposit_query_data_sol id) (conj (BridgeIdsProofs.deposit_query_data_layout id)
        (conj (BridgeIdsProofs.tokens_bridge_qdata_deposit id) (BridgeIdsProofs.tokens_bridge_qdata_withdraw id)))).
Qed.
Print Assumptions C14_deposit_query_data_is.

(* different deposit ids have different query data, for all ids a uint256 can hold (the keeper's are uint64):
   two deposits share a query id = keccak256(query data) only through a keccak-256 collision between two
   distinct 224-byte strings *)
Theorem C14_deposit_query_data_injective id1 id2 :
  0 <= id1 < 2 ^ 256 -> 0 <= id2 < 2 ^ 256 ->
  BridgeIds.deposit_query_data id1 = BridgeIds.deposit_query_data id2 -> id1 = id2.
Proof. exact (BridgeIdsProofs.deposit_query_data_inj id1 id2). Qed.
Print Assumptions C14_deposit_query_data_injective.

Theorem C14_withdraw_query_data_injective id1 id2 :
  0 <= id1 < 2 ^ 256 -> 0 <= id2 < 2 ^ 256 ->
  BridgeIds.withdraw_query_data id1 = BridgeIds.withdraw_query_data id2 -> id1 = id2.
Proof. exact (BridgeIdsProofs.withdraw_query_data_inj id1 id2). Qed.
Print Assumptions C14_withdraw_query_data_injective.

(* the length does not depend on the id *)
Theorem C14_query_data_length id :
  BridgeEnc.blen (BridgeIds.deposit_query_data id) = 224 /\ BridgeEnc.blen (BridgeIds.withdraw_query_data id) = 224.
Proof. exact (conj (BridgeIdsProofs.deposit_query_data_length id) (BridgeIdsProofs.withdraw_query_data_length id)). Qed.
Print Assumptions C14_query_data_length.

(* no deposit shares its query data with a withdrawal, whatever the two ids *)
Theorem C14_deposit_query_data_not_withdrawal id1 id2 :
  BridgeIds.deposit_query_data id1 <> BridgeIds.withdraw_query_data id2.
Proof. exact (BridgeIdsProofs.deposit_withdraw_query_data_differ id1 id2). Qed.
Print Assumptions C14_deposit_query_data_not_withdrawal.

(* the blocker on the very bytes whose hash is the query id *)
Theorem C14_blocker_on_query_data id :
  submit_passes_blocker (BridgeIds.withdraw_query_data id) = false /\
  submit_passes_blocker (BridgeIds.deposit_query_data id) = true.
Proof. exact (BridgeIdsProofs.blocker_on_query_data id). Qed.
Print Assumptions C14_blocker_on_query_data.

(* the executable keccak-256 on these bytes: the ids the real keeper returns for deposit 1 and withdrawal 1 *)
Theorem C14_query_id_of_1 :
  BridgeEnc.hex_encode (BridgeIds.deposit_query_id 1) = "abd24ad7de0468ea1a78db7451aa889e4bf61cc9b69500be227cadf0c00e43e9"%string /\
  BridgeEnc.hex_encode (BridgeIds.withdraw_query_id 1) = "a51d3b4fa2d5d1983c3ab121cb1a8ce691c336ab4eafb858ac5e70386cb3ad9f"%string.
Proof. exact (conj BridgeIdsProofs.deposit_query_id_1 BridgeIdsProofs.withdraw_query_id_1). Qed.
Print Assumptions C14_query_id_of_1.

(* ---- the deposit report value, in bytes ----------------------------------------------------------------------- *)
(* abi.encode(address, string, uint256, uint256) decodes back to the recipient text, the amount and the tip:
   every address word (clean or dirty), every text, all uint256 amounts and tips *)
Theorem C14_deposit_value_roundtrip a s amt tip :
  0 <= amt < 2 ^ 256 -> 0 <= tip < 2 ^ 256 -> BridgeEnc.blen s < 2 ^ 256 ->
  BridgeIds.decode_deposit_value (BridgeIds.deposit_value a s amt tip) = Some (BridgeIds.DF s amt tip).
Proof. exact (BridgeIdsProofs.deposit_value_decodes a s amt tip). Qed.
Print Assumptions C14_deposit_value_roundtrip.

(* through the hex text of the aggregate value and the division by 10^12 (no bound at 2^64 loya) *)
Theorem C14_deposit_report_roundtrip a s amt tip :
  BridgeEnc.bytes_ok s = true -> 0 <= amt < 2 ^ 256 -> 0 <= tip < 2 ^ 256 -> BridgeEnc.blen s < 2 ^ 256 ->
  BridgeIds.decode_deposit_report (BridgeEnc.hex_encode (BridgeIds.deposit_value a s amt tip)) =
  Some (BridgeIds.DF s (amt / E12) (tip / E12)).
Proof. exact (BridgeIdsProofs.deposit_report_decodes a s amt tip). Qed.
Print Assumptions C14_deposit_report_roundtrip.

(* this decoder and the one the claim theorems above are stated with read the same fields out of every byte string *)
Theorem C14_decoders_agree d :
  BridgeIds.decode_deposit_value d =
  match abi_decode4 d with Some (_, s, x, y) => Some (BridgeIds.DF s x y) | None => None end.
Proof. exact (BridgeIdsProofs.tokens_abi_decode4 d). Qed.
Print Assumptions C14_decoders_agree.

(* ---- what a silent check of the byte-level drivers establishes -------------------------------------------------- *)
Theorem C14_check_sound_query_id o :
  BridgeIds.c14i_check (BridgeIds.IdCase o) = [] ->
  BridgeEnc.unhex (BridgeIds.io_deposit_qid o) = BridgeIds.deposit_query_id (BridgeIds.io_id o) /\
  BridgeEnc.unhex (BridgeIds.io_withdraw_qid o) = BridgeIds.withdraw_query_id (BridgeIds.io_id o) /\
  BridgeEnc.unhex (BridgeIds.io_reg_qdata o) = BridgeIds.deposit_query_data (BridgeIds.io_id o) /\
  BridgeIds.io_oracle_qid o = BridgeIds.io_deposit_qid o /\
  BridgeIds.io_deposit_qid o <> BridgeIds.io_withdraw_qid o /\ BridgeIds.io_blocker o = 1.
Proof. exact (BridgeIdsProofs.check_sound_id o). Qed.
Print Assumptions C14_check_sound_query_id.

Theorem C14_check_sound_query_ids l :
  BridgeIds.c14i_check (BridgeIds.IdsCase l) = [] -> NoDup (BridgeIds.ids_of l) /\ NoDup (BridgeIds.qids_of l).
Proof. exact (BridgeIdsProofs.check_sound_ids l). Qed.
Print Assumptions C14_check_sound_query_ids.

Theorem C14_check_sound_value value a r x y lib bech_ok rt am tp :
  BridgeIds.c14i_check (BridgeIds.ValueCase value (Some (a, r, x, y)) lib bech_ok (Some (rt, am, tp))) = [] ->
  BridgeEnc.unhex value = BridgeIds.deposit_value a (BridgeEnc.unhex r) x y /\ am = x / E12 /\ tp = y / E12 /\
  BridgeEnc.str_bytes rt = map BridgeIds.lower_byte (BridgeEnc.unhex r).
Proof. exact (BridgeIdsProofs.check_sound_value value a r x y lib bech_ok rt am tp). Qed.
Print Assumptions C14_check_sound_value.
