(* C20 — Price daemon serves the true median of fresh exchange prices under concurrency.
   Property theorems only; proofs live in Proofs/PricefeedProofs.v. *)
From Coq Require Import ZArith List Permutation Sorted String.
From Verif Require Import Base.Harness Model.LockedObject Model.Pricefeed Proofs.PricefeedProofs.
Import ListNotations.
Open Scope Z_scope.

(* lib.Median, all four instantiations, all inputs: for ANY sorted arrangement s of a non-empty
   input the result is the middle element (odd length) or the mean of the two middle elements
   rounded away from zero (even length); it lies in the type's range, and in the even case the
   mathematical value of every intermediate Go expression lies in the range of the type, i.e. no
   wrap occurs (pairs with x + y >= 2^64, mixed signs and MinInt64 included). *)
Theorem C20_median_correct ty l s :
  l <> [] -> Forall (in_range ty) l -> Permutation l s -> StronglySorted Z.le s ->
  median ty l = Some (median_sorted s)
  /\ in_range ty (median_sorted s)
  /\ (Nat.odd (List.length l) = false ->
      Forall (in_range ty) (med2_steps (nth (List.length l / 2 - 1) s 0) (nth (List.length l / 2) s 0))).
Proof. exact (median_correct ty l s). Qed.
Print Assumptions C20_median_correct.

(* "rounded away from zero": 2m is x+y or the next integer further from zero *)
Theorem C20_mean_away_from_zero x y :
  let m := mean_away x y in
  (0 <= x + y -> x + y <= 2 * m <= x + y + 1) /\ (x + y < 0 -> x + y - 1 <= 2 * m <= x + y).
Proof. exact (mean_away_char x y). Qed.
Print Assumptions C20_mean_away_from_zero.

(* the same without mentioning a sort: the k-th element of the sorted input is the unique value
   v of the input with  #{x < v} <= k < #{x <= v} *)
Theorem C20_median_rank l s k :
  Permutation l s -> StronglySorted Z.le s -> (k < List.length l)%nat ->
  has_rank l (Z.of_nat k) (nth k s 0) /\ (forall w, has_rank l (Z.of_nat k) w -> w = nth k s 0).
Proof.
  exact (fun HP Hs Hk => conj (median_rank l s k HP Hs Hk)
                              (fun w Hw => rank_unique l (Z.of_nat k) w (nth k s 0) Hw (median_rank l s k HP Hs Hk))).
Qed.
Print Assumptions C20_median_rank.

(* the order of the valid-price slice (a Go map range) does not matter *)
Theorem C20_median_order_independent ty l l' : Permutation l l' -> median ty l = median ty l'.
Proof. exact (median_perm ty l l'). Qed.
Print Assumptions C20_median_order_independent.

(* a read serves market m iff some parameter entry for m asks for at most #fresh exchanges and at
   least one price is fresh; the served value is the median of exactly the fresh prices *)
Theorem C20_served_price maxAge s ps readT m :
  prices_in_range s ->
  aget (mte_read maxAge s ps readT) m = served_spec (fresh_prices s m (readT - maxAge)) ps m.
Proof. exact (served_price maxAge s ps readT m). Qed.
Print Assumptions C20_served_price.

(* fresh = stored update time >= read time - maxAge *)
Theorem C20_fresh_prices s m cutoff :
  fresh_prices s m cutoff =
  match aget s m with
  | Some e => map p_price (filter (fun pt => cutoff <=? p_time pt) (map snd e))
  | None => []
  end.
Proof. exact (fresh_prices_char s m cutoff). Qed.
Print Assumptions C20_fresh_prices.

(* stored prices are uint64 after any updates with uint64 prices (premise of C20_served_price) *)
Theorem C20_prices_in_range ups s :
  prices_in_range s -> updates_in_range ups -> prices_in_range (mte_update s ups).
Proof. exact (mte_update_in_range ups s). Qed.
Print Assumptions C20_prices_in_range.

(* after ANY sequence of UpdatePrices calls from the empty store, the stored price of exchange x
   of market m is the latest submitted one ... *)
Theorem C20_store_is_latest opss m x :
  let h := hist_of (flat_map flat_updates opss) m x in
  (forall u, In u h -> time_zero < fst u) ->
  cell (fold_left mte_update opss []) m x = option_map mk_pts (latest_of h).
Proof. exact (store_is_latest opss m x). Qed.
Print Assumptions C20_store_is_latest.

(* ... i.e. the one with the greatest update time, the first among equal times *)
Theorem C20_latest_is_first_maximum l u : latest_of l = Some u -> is_latest l u.
Proof. exact (latest_of_char l u). Qed.
Print Assumptions C20_latest_is_first_maximum.

(* the read clause in terms of the submitted updates alone (this is the specification the check
   evaluates on the real read results): for a cutoff after Go's zero Time, the fresh prices of the
   store reached by ANY update list are, per exchange in order of first appearance, the latest
   submitted price if its time is >= cutoff *)
Theorem C20_fresh_from_history ups m cutoff :
  time_zero < cutoff ->
  fresh_prices (mte_update [] ups) m cutoff = fresh_of_history (flat_updates ups) m cutoff.
Proof. exact (fresh_prices_history ups m cutoff). Qed.
Print Assumptions C20_fresh_from_history.

(* an exchange's stored price only moves forward in update time, over any history of updates:
   the entry stays, and it is either unchanged or has a strictly greater update time *)
Theorem C20_update_monotone s opss m x pt :
  cell s m x = Some pt ->
  exists pt', cell (fold_left mte_update opss s) m x = Some pt' /\ (pt' = pt \/ p_time pt < p_time pt').
Proof. exact (update_monotone_history s opss m x pt). Qed.
Print Assumptions C20_update_monotone.

(* every interleaving of the lock machine (any number of goroutines, preemption between any two
   loop iterations) that ends with the mutex free: the calls, in the order of their responses,
   returned exactly what the sequential model returns, and the store is the sequential result.
   The response order respects real time (C20_real_time_order). *)
Theorem C20_linearizable maxAge s0 es c :
  exec p_l0 (p_bstep maxAge) (init s0) es c -> owner c = None ->
  run_ops maxAge s0 (map fst (responses es)) = (map snd (responses es), sh c).
Proof. exact (pricefeed_linearizable maxAge s0 es c). Qed.
Print Assumptions C20_linearizable.

Theorem C20_real_time_order (es1 es2 es3 : list (event cop (list (Z * Z)))) t1 o1 r1 t2 o2 r2 :
  responses (es1 ++ Res t1 o1 r1 :: es2 ++ Res t2 o2 r2 :: es3)
  = responses es1 ++ (o1, r1) :: responses es2 ++ (o2, r2) :: responses es3.
Proof. exact (real_time_order cop (list (Z * Z)) es1 es2 es3 t1 o1 r1 t2 o2 r2). Qed.
Print Assumptions C20_real_time_order.

(* no data race in the model: every step that reads or writes the store is taken by the goroutine
   that holds the mutex, and at most one call is inside its critical section *)
Theorem C20_race_free_model maxAge s0 es c :
  exec p_l0 (p_bstep maxAge) (init s0) es c ->
  guarded p_l0 (p_bstep maxAge) (init s0) es
  /\ (forall t1 o1 l1 t2 o2 l2, th c t1 = Running o1 l1 -> th c t2 = Running o2 l2 -> t1 = t2 /\ owner c = Some t1).
Proof.
  exact (fun He => conj (exec_guarded _ _ _ _ p_l0 (p_bstep maxAge) _ _ _ He)
                        (fun t1 o1 l1 t2 o2 l2 => mutual_exclusion _ _ _ _ p_l0 (p_bstep maxAge) s0 es c t1 o1 l1 t2 o2 l2 He)).
Qed.
Print Assumptions C20_race_free_model.

(* the source-scan facts the check accepts are exactly the lock discipline *)
Theorem C20_lock_discipline_covered facts :
  c20_check (LockCase facts) = [] ->
  (forall f, In f facts -> lf_guarded f = true /\ lf_escapes f = false)
  /\ (exists f, In f facts /\ lf_name f = "UpdatePrices"%string)
  /\ (exists f, In f facts /\ lf_name f = "GetValidMedianPrices"%string).
Proof. exact (check_lock_sound facts). Qed.
Print Assumptions C20_lock_discipline_covered.

(* what the check establishes about a real answer of lib.Median ... *)
Theorem C20_check_sound_median ty l impl :
  c20_check (MedianCase ty l impl) = [] ->
  impl = median_spec l /\ impl = median ty l /\ Forall (in_range ty) l.
Proof. exact (check_median_sound ty l impl). Qed.
Print Assumptions C20_check_sound_median.

(* ... about every read result recorded in a sequential run on the real object: it is what the
   property prescribes for the updates submitted before the read ... *)
Theorem C20_check_sound_read maxAge pre ps t impl post :
  c20_check (SeqCase maxAge (pre ++ SRead ps t impl :: post)) = [] -> time_zero < t - maxAge ->
  forall m, aget impl m = served_spec (fresh_of_history (updates_of pre) m (t - maxAge)) ps m.
Proof. exact (check_seq_sound maxAge pre ps t impl post). Qed.
Print Assumptions C20_check_sound_read.

(* ... and about a recorded concurrent history: a real-time respecting order of all calls along
   which the sequential model gives every recorded result and the recorded final store *)
Theorem C20_check_sound_history maxAge calls final :
  c20_check (ConcCase maxAge calls final) = [] -> lin_witness maxAge final [] calls.
Proof. exact (check_conc_sound maxAge calls final). Qed.
Print Assumptions C20_check_sound_history.

(* ... and about both endpoints of the median server (GetAllMedianValues, GetMedianValue) on the real
   server object: each answers what the property prescribes for the updates submitted before the call *)
Theorem C20_check_sound_server maxAge ups ps readT all singles :
  c20_check (ServerCase maxAge ups ps readT all singles) = [] ->
  (forall m, aget all m = served_spec (fresh_of_history (flat_updates ups) m (readT - maxAge)) ps m) /\
  (forall m r, In (m, r) singles ->
     r = served_spec (fresh_of_history (flat_updates ups) m (readT - maxAge)) (filter (fun p => mp_id p =? m) ps) m).
Proof. exact (check_server_sound maxAge ups ps readT all singles). Qed.
Print Assumptions C20_check_sound_server.
