(* C19 — Privileged changes need governance; messages touch only the signer's assets. *)
From Coq Require Import ZArith List String.
From Verif Require Import Base.Harness Model.Authority Model.Ledger Proofs.AuthorityProofs.
Import ListNotations.
Open Scope Z_scope.

Theorem C19_privileged_need_authority {S P} authority (apply : S -> P -> option S) st req payload :
  req <> authority -> gated authority apply st req payload = None.
Proof. exact (gated_needs_authority authority apply st req payload). Qed.
Print Assumptions C19_privileged_need_authority.

Theorem C19_team_by_team_only team current new : current <> team -> update_team team current new = None.
Proof. exact (team_by_team_only team current new). Qed.
Print Assumptions C19_team_by_team_only.

Theorem C19_no_reregistration specs q1 q2 spec spec' specs' :
  lower_str q1 = lower_str q2 ->
  register_spec specs q1 spec = Some specs' -> register_spec specs' q2 spec' = None.
Proof. exact (no_reregistration_any_case specs q1 q2 spec spec' specs'). Qed.
Print Assumptions C19_no_reregistration.

(* PARTIAL (see level note): the frame condition "only the signer's assets go down, with the three
   exceptions" is stated here as the meaning of the executable check that is evaluated on the
   real message handlers; it is not derived from a model of all handlers *)
Theorem C19_frame_check_sound_partial before op signer params after decs :
  c19_step before (Step op signer 0 params after decs) = [] -> 0 <= signer ->
  ~ In op privileged_ops ->
  forall acct comp role, In (acct, comp, role) decs ->
    role = "signer"%string \/ exception_ok op params role comp = true.
Proof. exact (c19_step_sound before op signer params after decs). Qed.
Print Assumptions C19_frame_check_sound_partial.

(* the third exception of the property: a selection is removed by somebody else only when the selector
   fell below its reporter's minimum and the reporter is over the selector cap; nothing else changes *)
Theorem C19_remove_selector_only_if sels sel stake mn nsel cap sels' :
  remove_selector sels sel stake mn nsel cap = Some sels' ->
  stake < mn /\ cap < nsel /\ (forall e, In e sels -> fst e <> sel -> In e sels') /\ (forall e, In e sels' -> In e sels /\ fst e <> sel).
Proof. exact (remove_selector_only_if sels sel stake mn nsel cap sels'). Qed.
Print Assumptions C19_remove_selector_only_if.

Theorem C19_remove_selector_rejected sels sel stake mn nsel cap :
  mn <= stake \/ nsel <= cap -> remove_selector sels sel stake mn nsel cap = None.
Proof. exact (remove_selector_rejected sels sel stake mn nsel cap). Qed.
Print Assumptions C19_remove_selector_rejected.

(* the first exception is for funded disputes only: a dispute message that reduced the stake of the disputed reporter
   or of its backers left the dispute fully funded *)
Theorem C19_dispute_exception_needs_funding op params role comp :
  exception_ok op params role comp = true ->
  str_in role ["disputed_reporter"; "backer_of_disputed"]%string = true -> funded_after params = true.
Proof. exact (dispute_exception_needs_funding op params role comp). Qed.
Print Assumptions C19_dispute_exception_needs_funding.
