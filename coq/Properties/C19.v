(* C19 — Privileged changes need governance; messages touch only the signer's assets. *)
From Coq Require Import ZArith List String.
From Verif Require Import Base.Dec Base.Harness Model.Authority Model.Ledger Proofs.AuthorityProofs.
(* the handler models have clashing names: required, not imported, and used with qualified names *)
From Verif Require Model.Reporter Model.Slash Model.DisputeSettle Model.OracleRound Model.Escrow.
From Verif Require Proofs.SlashProofs Proofs.DisputeSettleProofs Proofs.FrameProofs.
Import ListNotations.
Open Scope Z_scope.

Theorem C19_privileged_need_authority {S P} authority (apply : S -> P -> option S) st req payload :
  req <> authority -> gated authority apply st req payload = None.
Proof. exact (gated_needs_authority authority apply st req payload). Qed.
Print Assumptions C19_privileged_need_authority.

Theorem C19_team_by_team_only team current new : current <> team -> update_team team current new = None.
Proof. exact (team_by_team_only team current new). Qed.
Print Assumptions C19_team_by_team_only.

Theorem C19_no_reregistration specs q1 q2 spec spec' specs' :
  lower_str q1 = lower_str q2 ->
  register_spec specs q1 spec = Some specs' -> register_spec specs' q2 spec' = None.
Proof. exact (no_reregistration_any_case specs q1 q2 spec spec' specs'). Qed.
Print Assumptions C19_no_reregistration.

(* PARTIAL (see level note): the frame condition "only the signer's assets go down, with the three
   exceptions" is stated here as the meaning of the executable check that is evaluated on the
   real message handlers; it is not derived from a model of all 25 handlers.  For the handlers that have an
   executable model (C10, C11, C13, C07, C04) it IS derived from the model: second half of this file *)
Theorem C19_frame_check_sound_partial before op signer params after decs :
  c19_step before (Step op signer 0 params after decs) = [] -> 0 <= signer ->
  ~ In op privileged_ops ->
  forall acct comp role, In (acct, comp, role) decs ->
    role = "signer"%string \/ exception_ok op params role comp = true.
Proof. exact (c19_step_sound before op signer params after decs). Qed.
Print Assumptions C19_frame_check_sound_partial.

(* the third exception of the property: a selection is removed by somebody else only when the selector
   fell below its reporter's minimum and the reporter is over the selector cap; nothing else changes *)
Theorem C19_remove_selector_only_if sels sel stake mn nsel cap sels' :
  remove_selector sels sel stake mn nsel cap = Some sels' ->
  stake < mn /\ cap < nsel /\ (forall e, In e sels -> fst e <> sel -> In e sels') /\ (forall e, In e sels' -> In e sels /\ fst e <> sel).
Proof. exact (remove_selector_only_if sels sel stake mn nsel cap sels'). Qed.
Print Assumptions C19_remove_selector_only_if.

Theorem C19_remove_selector_rejected sels sel stake mn nsel cap :
  mn <= stake \/ nsel <= cap -> remove_selector sels sel stake mn nsel cap = None.
Proof. exact (remove_selector_rejected sels sel stake mn nsel cap). Qed.
Print Assumptions C19_remove_selector_rejected.

(* the first exception is for funded disputes only: a dispute message that reduced the stake of the disputed reporter
   or of its backers left the dispute fully funded *)
Theorem C19_dispute_exception_needs_funding op params role comp :
  exception_ok op params role comp = true ->
  str_in role ["disputed_reporter"; "backer_of_disputed"]%string = true -> funded_after params = true.
Proof. exact (dispute_exception_needs_funding op params role comp). Qed.
Print Assumptions C19_dispute_exception_needs_funding.

(* ================================================================================================= *)
(* The frame condition derived from the handler models (Proofs/FrameProofs.v), for ALL states of each model.
   A model is tied to the Go code by the correspondence check of its own property: Model/Reporter.v by C10,
   Model/Slash.v by C11, Model/DisputeSettle.v by C13, Model/OracleRound.v by C07, Model/Escrow.v by C04.        *)
(* ================================================================================================= *)

(* ---- (a) reporter module: CreateReporter, SelectReporter, SwitchReporter, UnjailReporter, SubmitValue ------ *)
(* [rep_signer]: OCreate a, OSelect a r, OSwitch a r -> a;  OUnjail r, OReport r q -> r.
   The selection and the reporter record of every account other than the signer stay as they are; the staking view
   (everybody's delegations) and the parameters are not touched.  Not excluded, and not a reduction of anybody's
   holdings: the stake COUNTED for reporter r (derived from the selections) changes when a selects or leaves r. *)
Theorem C19_reporter_signer_only fx st o a :
  FrameProofs.rep_signer o = Some a ->
  let st' := fst (Reporter.step fx st o) in
  (forall b, b <> a -> Reporter.sel_get (Reporter.st_sel st') b = Reporter.sel_get (Reporter.st_sel st) b) /\
  (forall b, b <> a -> Reporter.rep_get (Reporter.st_rep st') b = Reporter.rep_get (Reporter.st_rep st) b) /\
  Reporter.st_view st' = Reporter.st_view st /\ Reporter.st_par st' = Reporter.st_par st.
Proof. exact (FrameProofs.reporter_signed_frame fx st o a). Qed.
Print Assumptions C19_reporter_signer_only.

(* [rep_subject] adds the two operations that act on somebody who did not sign: ORemove a (anybody may send
   RemoveSelector for selector a - third exception) and OJail r (the dispute keeper jails the disputed reporter of a
   funded dispute - first exception).  Still only that one account's records change. *)
Theorem C19_reporter_one_account_only fx st o a :
  FrameProofs.rep_subject o = Some a ->
  let st' := fst (Reporter.step fx st o) in
  (forall b, b <> a -> Reporter.sel_get (Reporter.st_sel st') b = Reporter.sel_get (Reporter.st_sel st) b) /\
  (forall b, b <> a -> Reporter.rep_get (Reporter.st_rep st') b = Reporter.rep_get (Reporter.st_rep st) b) /\
  Reporter.st_view st' = Reporter.st_view st /\ Reporter.st_par st' = Reporter.st_par st.
Proof. exact (FrameProofs.reporter_frame fx st o a). Qed.
Print Assumptions C19_reporter_one_account_only.

Theorem C19_reporter_rejected_no_change fx st o a :
  FrameProofs.rep_subject o = Some a -> Reporter.rs_code (snd (Reporter.step fx st o)) <> Reporter.OK ->
  fst (Reporter.step fx st o) = st.
Proof. exact (FrameProofs.reporter_rejected_no_change fx st o a). Qed.
Print Assumptions C19_reporter_rejected_no_change.

(* the third exception in the handler model: an accepted RemoveSelector found HasMin false for the selector against
   its reporter's minimum and the reporter over the selector cap, and deleted that one selection.  When every
   delegation of the selector points to a known validator ([validators_known], always so in the staking store) this is
   the abstract rule of C19_remove_selector_only_if with stake = the selector's bonded tokens. *)
Theorem C19_reporter_remove_is_third_exception fx st a :
  Reporter.rs_code (snd (Reporter.step fx st (Reporter.ORemove a))) = Reporter.OK ->
  exists s rp,
    Reporter.sel_get (Reporter.st_sel st) a = Some s /\
    Reporter.rep_get (Reporter.st_rep st) (Reporter.s_reporter s) = Some rp /\
    Reporter.has_min (Reporter.st_view st) a (Reporter.r_min rp) = false /\
    Reporter.p_max_sel (Reporter.st_par st) < Reporter.sel_count (Reporter.st_sel st) (Reporter.s_reporter s) /\
    fst (Reporter.step fx st (Reporter.ORemove a)) = Reporter.set_sel st (Reporter.sel_remove (Reporter.st_sel st) a) /\
    (FrameProofs.validators_known (Reporter.st_view st) a ->
       Reporter.bonded_tokens (Reporter.st_view st) a < Reporter.r_min rp /\
       remove_selector (FrameProofs.sel_pairs (Reporter.st_sel st)) a (Reporter.bonded_tokens (Reporter.st_view st) a)
                       (Reporter.r_min rp) (Reporter.sel_count (Reporter.st_sel st) (Reporter.s_reporter s))
                       (Reporter.p_max_sel (Reporter.st_par st))
       = Some (FrameProofs.sel_pairs (Reporter.st_sel (fst (Reporter.step fx st (Reporter.ORemove a)))))).
Proof. exact (FrameProofs.reporter_remove_only_if fx st a). Qed.
Print Assumptions C19_reporter_remove_is_third_exception.

(* what is not a message (new staking view, parameters, next block): reporter records stay, every selection keeps
   its owner, its reporter and its lock *)
Theorem C19_reporter_environment_keeps_selections fx st o :
  FrameProofs.rep_subject o = None ->
  let st' := fst (Reporter.step fx st o) in
  Reporter.st_rep st' = Reporter.st_rep st /\
  map (fun s => (Reporter.s_addr s, Reporter.s_reporter s, Reporter.s_locked s)) (Reporter.st_sel st') =
  map (fun s => (Reporter.s_addr s, Reporter.s_reporter s, Reporter.s_locked s)) (Reporter.st_sel st).
Proof. exact (FrameProofs.reporter_env_frame fx st o). Qed.
Print Assumptions C19_reporter_environment_keeps_selections.

(* ---- (b) ProposeDispute / AddFeeToDispute in the slashing model; the signer is [sender] --------------------- *)
(* [slice_same a b]: validators, delegations, unbonding delegations and the not-bonded pool of the slice are equal.
   [untouched b st st']: delegator b has the same delegations (shares) and unbonding entries in st and st'. *)
(* PayDisputeFee: from the sender's liquid balance, or (from_bond, second exception) from the sender's own bonded
   amount and the bonded pool; nobody else's balance or bonded amount, no delegation of the slice *)
Theorem C19_dispute_fee_from_sender_only w sender amount fb w1 :
  Slash.pay w sender amount fb = Some w1 ->
  FrameProofs.slice_same (Slash.w_stk w1) (Slash.w_stk w) /\
  Slash.s_escrow (Slash.w_stk w1) = Slash.s_escrow (Slash.w_stk w) + amount /\
  Slash.s_bonded (Slash.w_stk w1) = Slash.s_bonded (Slash.w_stk w) - (if fb then amount else 0) /\
  (forall b, b <> sender -> Slash.bond_get b (Slash.w_liq w1) = Slash.bond_get b (Slash.w_liq w) /\
                            Slash.bond_get b (Slash.w_bond w1) = Slash.bond_get b (Slash.w_bond w)) /\
  (if fb then Slash.w_liq w1 = Slash.w_liq w /\ amount <= Slash.bond_get sender (Slash.w_bond w)
   else Slash.w_bond w1 = Slash.w_bond w /\ amount <= Slash.bond_get sender (Slash.w_liq w)).
Proof. exact (FrameProofs.pay_frame w sender amount fb w1). Qed.
Print Assumptions C19_dispute_fee_from_sender_only.

(* EscrowReporterStake (every variant of the code): stake is taken from the delegators of the snapshot only *)
Theorem C19_escrow_takes_from_backers_only vr reds st origins power amt st' rec b :
  Slash.escrow vr reds st origins power amt = Some (st', rec) -> ~ In b (map Slash.o_del origins) ->
  FrameProofs.untouched b st st'.
Proof. exact (FrameProofs.escrow_frame vr reds st origins power amt st' rec b). Qed.
Print Assumptions C19_escrow_takes_from_backers_only.

Theorem C19_slash_and_jail_frame vr e w id r cat w' :
  Slash.slash_and_jail vr e w id r cat = Some w' ->
  Slash.w_liq w' = Slash.w_liq w /\ Slash.w_bond w' = Slash.w_bond w /\
  In id (map Slash.rc_id (Slash.w_rcds w')) /\
  (forall a, a <> Slash.rp_reporter r -> Slash.find_rep a (Slash.w_reps w') = Slash.find_rep a (Slash.w_reps w)) /\
  exists s, Slash.find_snap (Slash.rp_qid r) (Slash.rp_reporter r) (Slash.rp_height r) (Slash.e_snaps e) = Some s /\
            forall b, ~ In b (map Slash.o_del (Slash.sn_origins s)) -> FrameProofs.untouched b (Slash.w_stk w) (Slash.w_stk w').
Proof. exact (FrameProofs.slash_and_jail_frame vr e w id r cat w'). Qed.
Print Assumptions C19_slash_and_jail_frame.

(* ProposeDispute.  Always: only the sender's liquid balance or bonded amount moves, the one named in the message.
   Fee not complete (paid < dfee): the staking slice is what the payment alone left, no delegation, unbonding entry or
   validator changed, nobody is jailed, no aggregate flagged, no escrow record written.
   Fee complete (paid = dfee, first exception): the escrow record of the new dispute exists, only the jail record of
   the disputed reporter can change, only the delegators in the stake snapshot of the report lose stake. *)
Theorem C19_propose_dispute_frame vr e w sender r cat fee fb w' :
  Slash.propose vr e w sender r cat fee fb = Some w' ->
  exists dfee paid w1,
    Slash.dispute_fee (Slash.rp_power r) cat = Some dfee /\ paid = Z.min fee dfee /\ Slash.pay w sender paid fb = Some w1 /\
    ((forall b, b <> sender -> Slash.bond_get b (Slash.w_liq w') = Slash.bond_get b (Slash.w_liq w) /\
                               Slash.bond_get b (Slash.w_bond w') = Slash.bond_get b (Slash.w_bond w)) /\
     (if fb then Slash.w_liq w' = Slash.w_liq w else Slash.w_bond w' = Slash.w_bond w)) /\
    ((paid < dfee /\
      (Slash.w_stk w' = Slash.w_stk w1 /\ FrameProofs.slice_same (Slash.w_stk w') (Slash.w_stk w) /\
       Slash.w_reps w' = Slash.w_reps w /\ Slash.w_aggs w' = Slash.w_aggs w /\ Slash.w_rcds w' = Slash.w_rcds w)) \/
     (paid = dfee /\
      (In (Slash.next_id (Slash.w_disps w)) (map Slash.rc_id (Slash.w_rcds w')) /\
       (forall a, a <> Slash.rp_reporter r -> Slash.find_rep a (Slash.w_reps w') = Slash.find_rep a (Slash.w_reps w)) /\
       exists s, Slash.find_snap (Slash.rp_qid r) (Slash.rp_reporter r) (Slash.rp_height r) (Slash.e_snaps e) = Some s /\
                 forall b, ~ In b (map Slash.o_del (Slash.sn_origins s)) ->
                           FrameProofs.untouched b (Slash.w_stk w) (Slash.w_stk w')))).
Proof. exact (FrameProofs.propose_frame vr e w sender r cat fee fb w'). Qed.
Print Assumptions C19_propose_dispute_frame.

(* AddFeeToDispute: the same with "complete" = the dispute's fee total reaches its slash amount *)
Theorem C19_add_fee_frame vr e w sender id amount fb w' :
  Slash.add_fee vr e w sender id amount fb = Some w' ->
  exists d amt w1,
    Slash.find_disp id (Slash.w_disps w) = Some d /\ Slash.dp_fee_total d < Slash.dp_slash d /\
    amt = Z.min amount (Slash.dp_slash d - Slash.dp_fee_total d) /\ Slash.pay w sender amt fb = Some w1 /\
    ((forall b, b <> sender -> Slash.bond_get b (Slash.w_liq w') = Slash.bond_get b (Slash.w_liq w) /\
                               Slash.bond_get b (Slash.w_bond w') = Slash.bond_get b (Slash.w_bond w)) /\
     (if fb then Slash.w_liq w' = Slash.w_liq w else Slash.w_bond w' = Slash.w_bond w)) /\
    ((Slash.dp_fee_total d + amt < Slash.dp_slash d /\
      (Slash.w_stk w' = Slash.w_stk w1 /\ FrameProofs.slice_same (Slash.w_stk w') (Slash.w_stk w) /\
       Slash.w_reps w' = Slash.w_reps w /\ Slash.w_aggs w' = Slash.w_aggs w /\ Slash.w_rcds w' = Slash.w_rcds w)) \/
     (Slash.dp_fee_total d + amt = Slash.dp_slash d /\
      (In id (map Slash.rc_id (Slash.w_rcds w')) /\
       (forall a, a <> Slash.rp_reporter (Slash.dp_report d) ->
                  Slash.find_rep a (Slash.w_reps w') = Slash.find_rep a (Slash.w_reps w)) /\
       exists s, Slash.find_snap (Slash.rp_qid (Slash.dp_report d)) (Slash.rp_reporter (Slash.dp_report d))
                                 (Slash.rp_height (Slash.dp_report d)) (Slash.e_snaps e) = Some s /\
                 forall b, ~ In b (map Slash.o_del (Slash.sn_origins s)) ->
                           FrameProofs.untouched b (Slash.w_stk w) (Slash.w_stk w')))).
Proof. exact (FrameProofs.add_fee_frame vr e w sender id amount fb w'). Qed.
Print Assumptions C19_add_fee_frame.

(* when the slice is the same, so is the token value of everybody's delegations and unbonding entries *)
Theorem C19_same_slice_same_holdings a b d : FrameProofs.slice_same a b -> Slash.holdings a d = Slash.holdings b d.
Proof. exact (FrameProofs.slice_same_holdings a b d). Qed.
Print Assumptions C19_same_slice_same_holdings.

(* ---- (c) dispute settlement with per-account holdings (accounts are vector positions) ------------------------ *)
(* WithdrawFeeRefund for payer [who] of dispute [id], sent by anybody.  [tracker_nonneg]: the amounts recorded in the
   fee tracker of the reporter module are not negative.  No liquid balance and no staked holding goes down; the only
   balance that moves is [who]'s; staked holdings move only for [who] and for the accounts whose stake paid fees (the
   origins of the fee tracker); voters' records and the slash tracker stay; exactly the payer record (id, who) goes. *)
Theorem C19_withdraw_refund_frame s who id s' :
  DisputeSettle.withdraw s who id = (s', DisputeSettle.OK) -> FrameProofs.tracker_nonneg (DisputeSettle.s_feetr s) ->
  ((forall b, DisputeSettle.getz (DisputeSettle.s_liq s) b <= DisputeSettle.getz (DisputeSettle.s_liq s') b) /\
   (forall b, DisputeSettle.getz (DisputeSettle.s_stk s) b <= DisputeSettle.getz (DisputeSettle.s_stk s') b) /\
   (forall b, Z.to_nat b <> Z.to_nat who ->
              DisputeSettle.getz (DisputeSettle.s_liq s') b = DisputeSettle.getz (DisputeSettle.s_liq s) b) /\
   (forall b, Z.to_nat b <> Z.to_nat who ->
              ~ FrameProofs.acct_in b (FrameProofs.tracker_origins (DisputeSettle.s_feetr s)) ->
              DisputeSettle.getz (DisputeSettle.s_stk s') b = DisputeSettle.getz (DisputeSettle.s_stk s) b) /\
   DisputeSettle.s_rounds s' = DisputeSettle.s_rounds s /\ DisputeSettle.s_slashtr s' = DisputeSettle.s_slashtr s) /\
  DisputeSettle.s_payers s' = DisputeSettle.remove_payer (DisputeSettle.s_payers s) id who /\
  (forall id' b, (id', b) <> (id, who) ->
     DisputeSettle.find_payer (DisputeSettle.s_payers s') id' b = DisputeSettle.find_payer (DisputeSettle.s_payers s) id' b).
Proof. exact (FrameProofs.withdraw_frame s who id s'). Qed.
Print Assumptions C19_withdraw_refund_frame.

Theorem C19_withdraw_refused_no_change s who id :
  snd (DisputeSettle.withdraw s who id) <> DisputeSettle.OK -> fst (DisputeSettle.withdraw s who id) = s.
Proof. exact (FrameProofs.withdraw_refused_no_change s who id). Qed.
Print Assumptions C19_withdraw_refused_no_change.

(* the hypothesis on the tracker is needed: a negative recorded amount would be taken from that account *)
Theorem C19_withdraw_frame_needs_tracker_nonneg :
  exists s s', DisputeSettle.withdraw s 1 1 = (s', DisputeSettle.OK) /\
               DisputeSettle.getz (DisputeSettle.s_stk s') 2 < DisputeSettle.getz (DisputeSettle.s_stk s) 2.
Proof. exact FrameProofs.withdraw_frame_needs_tracker_nonneg. Qed.
Print Assumptions C19_withdraw_frame_needs_tracker_nonneg.

(* ClaimReward, signed by the voter [who]: a positive reward goes from the escrow to [who]'s balance; nothing else *)
Theorem C19_claim_reward_frame fx s who id s' :
  DisputeSettle.claim fx s who id = (s', DisputeSettle.OK) ->
  DisputeSettle.s_stk s' = DisputeSettle.s_stk s /\ DisputeSettle.s_payers s' = DisputeSettle.s_payers s /\
  DisputeSettle.s_feetr s' = DisputeSettle.s_feetr s /\ DisputeSettle.s_slashtr s' = DisputeSettle.s_slashtr s /\
  (exists r, 0 < r /\ DisputeSettle.s_liq s' = DisputeSettle.addz (DisputeSettle.s_liq s) who r /\
             DisputeSettle.s_esc s' = DisputeSettle.s_esc s - r) /\
  (forall b, DisputeSettle.getz (DisputeSettle.s_liq s) b <= DisputeSettle.getz (DisputeSettle.s_liq s') b) /\
  (forall b, Z.to_nat b <> Z.to_nat who ->
             DisputeSettle.getz (DisputeSettle.s_liq s') b = DisputeSettle.getz (DisputeSettle.s_liq s) b) /\
  (forall i b, b <> who -> DisputeSettle.find_voter (DisputeSettle.s_rounds s') i b =
                           DisputeSettle.find_voter (DisputeSettle.s_rounds s) i b) /\
  (forall i, DisputeSettle.counts_of (DisputeSettle.s_rounds s') i = DisputeSettle.counts_of (DisputeSettle.s_rounds s) i).
Proof. exact (FrameProofs.claim_frame fx s who id s'). Qed.
Print Assumptions C19_claim_reward_frame.

(* ProposeDispute / AddFeeToDispute in the settlement model (signer [who]; [ft] / [sl] = the fee tracker / the stake
   snapshot of the reporter module after the message): accepted, they have the [payment_shape]; read per account
   (C19_dispute_payment_per_account): only the payer's balance moves, and a staked holding moves only for an origin the
   payment from stake added to the fee tracker (second exception) or, when the message completed the fee and the
   dispute went to voting, for a backer in the snapshot of the disputed reporter (first exception) *)
Theorem C19_dispute_payment_shape fx SS reporter s who id fee bond ft sl s' :
  (DisputeSettle.propose fx SS s who fee bond ft sl = (s', DisputeSettle.OK) -> FrameProofs.payment_shape s s' who bond ft sl) /\
  (DisputeSettle.add_fee fx reporter s who id fee bond ft sl = (s', DisputeSettle.OK) -> FrameProofs.payment_shape s s' who bond ft sl).
Proof.
  exact (conj (FrameProofs.propose_payment_shape fx SS s who fee bond ft sl s')
              (FrameProofs.add_fee_payment_shape fx reporter s who id fee bond ft sl s')).
Qed.
Print Assumptions C19_dispute_payment_shape.

Theorem C19_dispute_payment_per_account (s s' : DisputeSettle.st) (who : Z) (bond : bool) (ft sl : option DisputeSettle.tracker) :
  (exists slashed,
     (slashed = [] \/ (DisputeSettle.s_feetotal s' = DisputeSettle.s_slash s' /\ DisputeSettle.s_status s' = DisputeSettle.Voting /\
                       exists t, sl = Some (slashed, t))) /\
     DisputeSettle.s_stk s' =
       DisputeSettle.add_all (DisputeSettle.add_all (DisputeSettle.s_stk s)
                                (DisputeSettle.neg_all (if bond then DisputeSettle.new_origins (DisputeSettle.s_feetr s) ft else [])))
                             (DisputeSettle.neg_all slashed) /\
     (if bond then DisputeSettle.s_liq s' = DisputeSettle.s_liq s
      else exists amt, DisputeSettle.s_liq s' = DisputeSettle.addz (DisputeSettle.s_liq s) who (- amt)) /\
     DisputeSettle.s_rounds s' = DisputeSettle.s_rounds s) ->
  (forall b, Z.to_nat b <> Z.to_nat who ->
             DisputeSettle.getz (DisputeSettle.s_liq s') b = DisputeSettle.getz (DisputeSettle.s_liq s) b) /\
  (bond = true -> DisputeSettle.s_liq s' = DisputeSettle.s_liq s) /\
  (forall b, DisputeSettle.getz (DisputeSettle.s_stk s') b <> DisputeSettle.getz (DisputeSettle.s_stk s) b ->
     (bond = true /\ FrameProofs.acct_in b (DisputeSettle.new_origins (DisputeSettle.s_feetr s) ft)) \/
     (DisputeSettle.s_feetotal s' = DisputeSettle.s_slash s' /\ DisputeSettle.s_status s' = DisputeSettle.Voting /\
      FrameProofs.acct_in b (FrameProofs.tracker_origins sl))).
Proof. exact (FrameProofs.payment_frame s s' who bond ft sl). Qed.
Print Assumptions C19_dispute_payment_per_account.

(* ---- (d) tips, reports, end blocker, reward credits ------------------------------------------------------------ *)
(* Model/OracleRound.v has no balances, stakes or credits; per account it has the reports: a tip and the end blocker
   keep all of them, SubmitValue writes a report of its signer only *)
Theorem C19_oracle_reports_frame s h q amt ts kind_of reporter stake min_stake ok s' :
  (OracleRound.tip s h q amt = Some s' -> OracleRound.o_reports s' = OracleRound.o_reports s) /\
  (OracleRound.end_block s h ts kind_of = Some s' -> OracleRound.o_reports s' = OracleRound.o_reports s) /\
  (OracleRound.submit_value s h q reporter stake min_stake ok = inl s' ->
   forall b, b <> reporter -> FrameProofs.reports_by (OracleRound.o_reports s') b = FrameProofs.reports_by (OracleRound.o_reports s) b).
Proof.
  exact (conj (FrameProofs.oracle_tip_keeps_reports s h q amt s')
        (conj (FrameProofs.oracle_end_block_keeps_reports s h ts kind_of s')
              (fun H b => FrameProofs.oracle_submit_writes_own_report s h q reporter stake min_stake ok s' b H))).
Qed.
Print Assumptions C19_oracle_reports_frame.

(* Model/Escrow.v lumps everything held outside the module accounts into [e_users] (users are not told apart): a tip
   takes exactly the tipped amount from there and touches no credit, no other operation lowers [e_users] *)
Theorem C19_tip_from_users_side_only s q a o s' :
  (Escrow.estep s (Escrow.ETip q a) = Some s' ->
   0 < a <= Escrow.e_users s /\ Escrow.e_users s' = Escrow.e_users s - a /\
   Escrow.e_credits s' = Escrow.e_credits s /\ Escrow.e_bonded s' = Escrow.e_bonded s /\ Escrow.e_tips s' = Escrow.e_tips s) /\
  (Escrow.estep s o = Some s' -> (forall q a, o <> Escrow.ETip q a) -> Escrow.e_users s' = Escrow.e_users s).
Proof. exact (conj (FrameProofs.escrow_tip_frame s q a s') (FrameProofs.escrow_users_only_by_tip s o s')). Qed.
Print Assumptions C19_tip_from_users_side_only.

(* no selector's reward credit goes down, whatever the operation, except by its own WithdrawTip *)
Theorem C19_credits_never_reduced_by_others s o s' b :
  Escrow.estep s o = Some s' -> o <> Escrow.EWithdrawTip b ->
  Escrow.owed_get b (Escrow.e_credits s) <= Escrow.owed_get b (Escrow.e_credits s').
Proof. exact (FrameProofs.escrow_credits_frame s o s' b). Qed.
Print Assumptions C19_credits_never_reduced_by_others.

(* WithdrawTip of selector [sel]: the whole units of its own credit go to the bonded pool, the fraction stays *)
Theorem C19_withdraw_tip_own_credit s sel s' :
  Escrow.estep s (Escrow.EWithdrawTip sel) = Some s' ->
  let c := Escrow.owed_get sel (Escrow.e_credits s) in
  0 < c / P /\
  Escrow.owed_get sel (Escrow.e_credits s') = c - (c / P) * P /\ 0 <= Escrow.owed_get sel (Escrow.e_credits s') < P /\
  Escrow.e_bonded s' = Escrow.e_bonded s + c / P /\ Escrow.e_tips s' = Escrow.e_tips s - c / P /\
  Escrow.e_users s' = Escrow.e_users s /\
  forall b, b <> sel -> Escrow.owed_get b (Escrow.e_credits s') = Escrow.owed_get b (Escrow.e_credits s).
Proof. exact (FrameProofs.escrow_withdraw_tip_frame s sel s'). Qed.
Print Assumptions C19_withdraw_tip_own_credit.

(* ---- the hypotheses of the theorems above are satisfiable: concrete accepted messages ---------------------------- *)
Theorem C19_frame_examples :
  (* reporter: 7 selects reporter 4 (9's selection stays); later a third party removes 7 but not 9 *)
  (let st1 := fst (Reporter.step false FrameProofs.ex_rep_state (Reporter.OSelect 7 4)) in
   Reporter.rs_code (snd (Reporter.step false FrameProofs.ex_rep_state (Reporter.OSelect 7 4))) = Reporter.OK /\
   Reporter.sel_get (Reporter.st_sel st1) 7 = Some (Reporter.mkSel 7 4 1 0) /\
   Reporter.sel_get (Reporter.st_sel st1) 9 = Some (Reporter.mkSel 9 4 1 0) /\
   let st2 := fst (Reporter.step false (fst (Reporter.step false st1 (Reporter.OParams (Reporter.mkPar 1000000 0 1000000))))
                                 (Reporter.OEnv (FrameProofs.ex_view 1000000))) in
   FrameProofs.validators_known (Reporter.st_view st2) 7 /\
   Reporter.rs_code (snd (Reporter.step false st2 (Reporter.ORemove 7))) = Reporter.OK /\
   Reporter.rs_code (snd (Reporter.step false st2 (Reporter.ORemove 9))) = Reporter.E_HAS_MIN) /\
  (* slashing model: a partial fee, its completion from another payer's bonded amount, a full fee from bond *)
  ((exists w', Slash.propose Slash.current SlashProofs.wit18_env FrameProofs.ex_world 7 SlashProofs.wit18_real 2 200000 false = Some w' /\
      Slash.bond_get 7 (Slash.w_liq w') = 100000000 - 200000 /\ Slash.bond_get 8 (Slash.w_liq w') = 6000000 /\
      Slash.holdings (Slash.w_stk w') 3 = Slash.holdings (Slash.w_stk FrameProofs.ex_world) 3 /\ Slash.w_rcds w' = [] /\
      exists w'', Slash.add_fee Slash.current SlashProofs.wit18_env w' 8 1 300000 true = Some w'' /\
         Slash.bond_get 8 (Slash.w_bond w'') = 5000000 - 300000 /\ Slash.bond_get 7 (Slash.w_bond w'') = 100000000 /\
         Slash.w_liq w'' = Slash.w_liq w' /\
         Slash.holdings (Slash.w_stk w'') 3 = Slash.holdings (Slash.w_stk FrameProofs.ex_world) 3 - 500000 /\
         map Slash.rs_jailed (Slash.w_reps w'') = [true]) /\
   (exists w', Slash.propose Slash.current SlashProofs.wit18_env FrameProofs.ex_world 7 SlashProofs.wit18_real 2 500000 true = Some w' /\
      Slash.bond_get 7 (Slash.w_bond w') = 100000000 - 500000 /\ Slash.w_liq w' = Slash.w_liq FrameProofs.ex_world /\
      Slash.bond_get 8 (Slash.w_bond w') = 5000000 /\
      Slash.holdings (Slash.w_stk w') 3 = Slash.holdings (Slash.w_stk FrameProofs.ex_world) 3 - 500000 /\
      map Slash.rc_id (Slash.w_rcds w') = [1])) /\
  (* settlement model: two payments from stake, refund of payer 1, reward of voter 1 *)
  ((let '(s1, r1) := DisputeSettle.propose true 150000 DisputeSettleProofs.st0 1 75000 true DisputeSettleProofs.feetr1 None in
    r1 = DisputeSettle.OK /\ DisputeSettle.s_stk s1 = [10000000; 4925000; 5000000] /\
    DisputeSettle.s_liq s1 = DisputeSettle.s_liq DisputeSettleProofs.st0 /\
    let '(s2, r2) := DisputeSettle.add_fee true 0 s1 2 1 75000 true DisputeSettleProofs.feetr2 DisputeSettleProofs.snap in
    r2 = DisputeSettle.OK /\ DisputeSettle.s_stk s2 = [9850000; 4925000; 4925000] /\
    DisputeSettle.s_feetotal s2 = DisputeSettle.s_slash s2) /\
   FrameProofs.tracker_nonneg (DisputeSettle.s_feetr FrameProofs.ex_settled) /\
   (exists s', DisputeSettle.withdraw FrameProofs.ex_settled 1 1 = (s', DisputeSettle.OK) /\
      DisputeSettle.s_liq s' = DisputeSettle.s_liq FrameProofs.ex_settled /\
      DisputeSettle.s_stk FrameProofs.ex_settled = [10000000; 4925000; 4925000] /\
      DisputeSettle.s_stk s' = [10000000; 4960625; 4960625] /\
      DisputeSettle.find_payer (DisputeSettle.s_payers s') 1 1 = None /\
      DisputeSettle.find_payer (DisputeSettle.s_payers s') 1 2 = Some (DisputeSettle.PY 1 2 75000 true)) /\
   (exists s', DisputeSettle.claim true FrameProofs.ex_settled 1 1 = (s', DisputeSettle.OK) /\
      DisputeSettle.s_liq s' = [0; 1003750; 1000000] /\ DisputeSettle.s_liq FrameProofs.ex_settled = [0; 1000000; 1000000])) /\
  (* tips and credits: a tip, its payout to selectors 5 and 6, selector 5 withdraws one whole unit *)
  (exists s1 s2 s3,
    Escrow.estep (Escrow.einit 1000) (Escrow.ETip 1 100) = Some s1 /\ Escrow.e_users s1 = 900 /\
    Escrow.estep s1 (Escrow.EPayTip 1 [(5, 3 * P / 2); (6, 98 * P - 3 * P / 2)]) = Some s2 /\
    Escrow.owed_get 5 (Escrow.e_credits s2) = 3 * P / 2 /\
    Escrow.estep s2 (Escrow.EWithdrawTip 5) = Some s3 /\
    Escrow.owed_get 5 (Escrow.e_credits s3) = P / 2 /\
    Escrow.owed_get 6 (Escrow.e_credits s3) = Escrow.owed_get 6 (Escrow.e_credits s2) /\
    Escrow.e_bonded s3 = 1).
Proof.
  exact (conj FrameProofs.reporter_frame_example (conj FrameProofs.dispute_frame_example
        (conj FrameProofs.settlement_frame_example FrameProofs.escrow_frame_example))).
Qed.
Print Assumptions C19_frame_examples.
