(* C03 — Token supply changes only by the documented, exactly quantified events.
   Property theorems only; proofs live in Proofs/MintProofs.v, the model in Model/Mint.v.
   [fx = true]: the mint module with finding F37 repaired; [fx = false]: the code as found.
   Times are unix nanoseconds, amounts loya. *)
From Coq Require Import ZArith List Bool.
From Verif Require Import Base.Harness Model.Mint Proofs.MintProofs.
Import ListNotations.
Open Scope Z_scope.

(* -- the block provision: elapsed milliseconds times the daily rate, rounded down ------------- *)
(* for every forward gap below 2^63/146940000 ms (726.5 days) the int64 expression of
   Minter.CalculateBlockProvision is the exact floor *)
Theorem C03_provision_exact cur prev :
  prev <= cur -> cur - prev < 2 ^ 63 ->
  146940000 * ((cur - prev) / 1000000) < 2 ^ 63 ->
  calc_block_provision cur prev = PCoin (146940000 * ((cur - prev) / 1000000) / 86400000).
Proof. exact (provision_exact_ns cur prev). Qed.
Print Assumptions C03_provision_exact.

(* three quarters (total - floor(total/4)) to time_based_rewards, floor(total/4) to fee_collector *)
Theorem C03_split_exact p :
  0 <= p ->
  let t := fst (split p) in let q := snd (split p) in
  q = p / 4 /\ t = p - p / 4 /\ t + q = p /\ 0 <= q <= t /\ 4 * q <= p < 4 * q + 4 /\ 3 * p <= 4 * t <= 3 * p + 3.
Proof. exact (split_props p). Qed.
Print Assumptions C03_split_exact.

(* one BeginBlocker of the started minter: mints exactly the provision, splits it, records the time *)
Theorem C03_begin_block_exact m prev now :
  m_init m = true -> m_prev m = Some prev -> now <> zero_time ->
  prev <= now -> in_range (elapsed_ms now prev) = true ->
  let p := provision_spec (elapsed_ms now prev) in
  begin_block true m now = BBOk p (p - p / 4) (p / 4) {| m_init := true; m_prev := Some now |}.
Proof. exact (begin_block_exact m prev now). Qed.
Print Assumptions C03_begin_block_exact.

(* nothing before governance has started minting ... *)
Theorem C03_no_mint_before_init fx m now : m_init m = false -> begin_block fx m now = BBOk 0 0 0 m.
Proof. exact (no_mint_before_init fx m now). Qed.
Print Assumptions C03_no_mint_before_init.

(* ... and nothing for the time before it: the first block after MsgInit only records its time *)
Theorem C03_no_mint_first_block fx m m' auth now :
  minter_wf m -> msg_init auth m = Some m' -> now <> zero_time ->
  begin_block fx m' now = BBOk 0 0 0 {| m_init := true; m_prev := Some now |}.
Proof. exact (first_block_after_init fx m m' auth now). Qed.
Print Assumptions C03_no_mint_first_block.

(* whenever a block mints (either variant): minting is switched on, an earlier time is recorded,
   and the two transfers add up to the minted amount *)
Theorem C03_mints_only_if fx m now minted t q m' :
  begin_block fx m now = BBOk minted t q m' -> minted <> 0 ->
  m_init m = true /\ (exists prev, m_prev m = Some prev /\ prev <= now) /\
  m' = {| m_init := true; m_prev := Some now |} /\ t + q = minted /\ 0 < minted.
Proof. exact (begin_block_mints_only_if fx m now minted t q m'). Qed.
Print Assumptions C03_mints_only_if.

(* -- cumulative inflation never exceeds the daily rate times the elapsed time --------------------- *)
(* over every non-decreasing sequence of block times (sub-millisecond and multi-day gaps
   included), for both variants: total minted <= floor(rate * elapsed_ms(last, first) / day) *)
Theorem C03_cumulative_bound fx times m p :
  m_init m = true -> m_prev m = Some p -> nondecr p times ->
  in_range (elapsed_ms (last times p) p) = true ->
  0 <= fst (run_blocks fx m times) <= provision_spec (elapsed_ms (last times p) p).
Proof. exact (run_blocks_bound fx times m p). Qed.
Print Assumptions C03_cumulative_bound.

Theorem C03_cumulative_bound_from_init fx m t r :
  m_init m = true -> m_prev m = None -> t <> zero_time -> nondecr t r ->
  in_range (elapsed_ms (last r t) t) = true ->
  0 <= fst (run_blocks fx m (t :: r)) <= provision_spec (elapsed_ms (last r t) t).
Proof. exact (run_blocks_after_init fx m t r). Qed.
Print Assumptions C03_cumulative_bound_from_init.

Theorem C03_cumulative_zero_before_init fx times m : m_init m = false -> run_blocks fx m times = (0, m).
Proof. exact (run_blocks_uninit fx times m). Qed.
Print Assumptions C03_cumulative_zero_before_init.

(* the arithmetic core (DESIGN appendix A): sum of floors <= floor of the sum, on the Go expression *)
Theorem C03_cumulative_bound_gaps (gaps : list Z) :
  Forall (fun g => 0 <= g < 2 ^ 63 / 146940000) gaps ->
  sumZ (map provision_raw gaps) <= 146940000 * sumZ gaps / 86400000.
Proof. exact (cumulative_bound_gaps_raw gaps). Qed.
Print Assumptions C03_cumulative_bound_gaps.

(* what rounding loses is below one loya per block *)
Theorem C03_cumulative_loss (gaps : list Z) :
  daily_mint_rate * sumZ gaps - Z.of_nat (List.length gaps) * (ms_in_day - 1)
  <= ms_in_day * sumZ (map provision_spec gaps).
Proof. exact (cumulative_loss_gaps gaps). Qed.
Print Assumptions C03_cumulative_loss.

(* -- the int64 boundary: 62 769 647 725 ms is the last exact gap ------------------------------------ *)
Theorem C03_mint_gap_overflow_refuted :
  exists prev cur, prev <= cur /\ elapsed_ms cur prev = 62769647726 /\
    calc_block_provision cur prev = PPanic /\ 0 < provision_spec (elapsed_ms cur prev).
Proof. exact mint_gap_overflow_panics. Qed.
Print Assumptions C03_mint_gap_overflow_refuted.

Theorem C03_mint_gap_undermint_refuted :
  exists prev cur a, prev <= cur /\ calc_block_provision cur prev = PCoin a /\
    a < provision_spec (elapsed_ms cur prev).
Proof. exact mint_gap_overflow_undermints. Qed.
Print Assumptions C03_mint_gap_undermint_refuted.

(* -- finding F37: in the code as found a provision of 1..3 loya makes BeginBlocker fail ------------- *)
Theorem C03_small_provision_refuted :
  exists m prev now,
    m_init m = true /\ m_prev m = Some prev /\ prev <= now /\ now <> zero_time /\
    in_range (elapsed_ms now prev) = true /\ provision_spec (elapsed_ms now prev) = 1 /\
    begin_block false m now = BBErr 1 /\
    begin_block true m now = BBOk 1 1 0 {| m_init := true; m_prev := Some now |}.
Proof. exact small_provision_refuted. Qed.
Print Assumptions C03_small_provision_refuted.

(* ... and that is the only deviation of the code as found *)
Theorem C03_as_found_fails_iff m prev now :
  m_init m = true -> m_prev m = Some prev -> now <> zero_time ->
  prev <= now -> in_range (elapsed_ms now prev) = true ->
  (status_of (begin_block false m now) <> 0 <-> 1 <= provision_spec (elapsed_ms now prev) <= 3).
Proof. exact (begin_block_found_fails_iff m prev now). Qed.
Print Assumptions C03_as_found_fails_iff.

(* -- frame condition over the ledger of documented supply events -------------------------------------- *)
Theorem C03_frame fx l op : lsupply (lstep fx l op) = lsupply l + supply_delta fx l op.
Proof. exact (frame fx l op). Qed.
Print Assumptions C03_frame.

Theorem C03_frame_history fx ops l :
  lsupply (fold_left (lstep fx) ops l) = lsupply l + sum_deltas fx l ops.
Proof. exact (frame_history fx ops l). Qed.
Print Assumptions C03_frame_history.

(* the supply moves only at the documented events, by exactly the documented amount; a plain
   transfer, MsgInit and every failed operation leave it unchanged *)
Theorem C03_only_documented fx l op :
  supply_delta fx l op <> 0 ->
  match op with
  | LBeginBlock now => exists p, 0 < p /\ supply_delta fx l op = p /\ minted_of (begin_block fx (l_minter l) now) = p
  | LClaim _ _ _ w _ => supply_delta fx l op = w / 1000000000000
  | LWithdraw _ a => supply_delta fx l op = - a
  | LTip _ a => supply_delta fx l op = - (2 * a / 100) /\ 0 < a
  | LDisputeBurn v | LDustBurn v => supply_delta fx l op = - v
  | LFund _ v => supply_delta fx l op = v
  | LInit _ | LSend _ _ _ => False
  end.
Proof. exact (delta_only_documented fx l op). Qed.
Print Assumptions C03_only_documented.

(* sum of all balances = supply, balances non-negative: invariant under every operation / history *)
Theorem C03_balances_sum fx dom l op :
  NoDup dom -> incl module_addrs dom -> incl (op_addrs op) dom ->
  ledger_ok dom l -> ledger_ok dom (lstep fx l op).
Proof. exact (lstep_ok fx dom l op). Qed.
Print Assumptions C03_balances_sum.

Theorem C03_balances_sum_history fx dom ops l :
  NoDup dom -> incl module_addrs dom -> Forall (fun op => incl (op_addrs op) dom) ops ->
  ledger_ok dom l -> ledger_ok dom (fold_left (lstep fx) ops l).
Proof. exact (history_ok fx dom ops l). Qed.
Print Assumptions C03_balances_sum_history.

(* a minting block in the ledger: supply + p, reward pool + (p - p/4), fee collector + p/4,
   nothing stays in the mint account, nobody else is touched *)
Theorem C03_mint_distribution dom l prev now :
  NoDup dom -> incl module_addrs dom -> ledger_ok dom l ->
  m_init (l_minter l) = true -> m_prev (l_minter l) = Some prev -> now <> zero_time ->
  prev <= now -> in_range (elapsed_ms now prev) = true ->
  let p := provision_spec (elapsed_ms now prev) in
  let l' := lstep true l (LBeginBlock now) in
  lsupply l' = lsupply l + p /\
  bal (l_bank l') a_tbr = bal (l_bank l) a_tbr + (p - p / 4) /\
  bal (l_bank l') a_fee = bal (l_bank l) a_fee + p / 4 /\
  bal (l_bank l') a_mint = bal (l_bank l) a_mint /\
  (forall a, a <> a_tbr -> a <> a_fee -> a <> a_mint -> bal (l_bank l') a = bal (l_bank l) a) /\
  l_minter l' = {| m_init := true; m_prev := Some now |}.
Proof. exact (mint_block_distribution dom l prev now). Qed.
Print Assumptions C03_mint_distribution.

(* -- the executable checks mean what they say ------------------------------------------------------------ *)
Theorem C03_check_sound_provision prev cur impl :
  c03_check (ProvCase prev cur impl) = [] ->
  impl = calc_block_provision cur prev /\
  (prev <= cur -> in_range (elapsed_ms cur prev) = true ->
   impl = PCoin (provision_spec (elapsed_ms cur prev))).
Proof. exact (check_sound_prov prev cur impl). Qed.
Print Assumptions C03_check_sound_provision.

Theorem C03_check_sound_block pre now status minted tbr fee post :
  spec_block pre now status minted tbr fee post = [] ->
  (m_init pre = false -> status = 0 /\ minted = 0 /\ tbr = 0 /\ fee = 0 /\ post = pre) /\
  (m_init pre = true -> now <> zero_time ->
     (m_prev pre = None -> status = 0 /\ minted = 0 /\ tbr = 0 /\ fee = 0 /\ m_prev post = Some now) /\
     (forall prev, m_prev pre = Some prev -> prev <= now -> in_range (elapsed_ms now prev) = true ->
        status = 0 /\ minted = provision_spec (elapsed_ms now prev) /\
        tbr = minted - minted / 4 /\ fee = minted / 4 /\ m_prev post = Some now)).
Proof. exact (spec_block_sound pre now status minted tbr fee post). Qed.
Print Assumptions C03_check_sound_block.

Theorem C03_check_sound_ledger tracked steps mi sup lm :
  check_ledger tracked mi sup lm steps = [] -> ledger_obs_ok mi sup steps.
Proof. exact (check_ledger_sound tracked steps mi sup lm). Qed.
Print Assumptions C03_check_sound_ledger.

(* every MintCoins/BurnCoins call found in x/ and app/ is one of the modelled events, and only the
   documented module accounts hold the Minter / Burner permission *)
Theorem C03_sites_covered sites minters burners :
  c03_check (SitesCase sites minters burners) = [] ->
  (forall s, In s sites -> In s modelled_sites) /\
  (forall m, In m minters -> In m allowed_minters) /\
  (forall m, In m burners -> In m allowed_burners).
Proof. exact (check_sound_sites sites minters burners). Qed.
Print Assumptions C03_sites_covered.

(* -- the observed histories of the full application (Model/Ledger.v, drivers TestHistAll / TestHistDisputes /
      TestHistPayouts): what an empty result of the executable check says ------------------------------ *)
From Coq Require Import String.
From Verif Require Model.Ledger Proofs.LedgerProofs.

(* after every step the sum of all balances is the recorded supply, and every step whose supply change the
   documented events pin (a tip: minus 2 %; a withdrawal: minus the amount; a deposit claim: plus the reported
   amount; a rejected message and every other message: nothing) changed the supply by exactly that *)
Theorem C03_hist_step before s d :
  Ledger.c03_step before s = [] ->
  Ledger.sp_balsum (Ledger.st_after s) = Ledger.sp_supply (Ledger.st_after s) /\
  (Ledger.expected_supply_delta s = Some d -> Ledger.sp_supply (Ledger.st_after s) - Ledger.sp_supply before = d).
Proof. exact (LedgerProofs.c03_step_sound before s d). Qed.
Print Assumptions C03_hist_step.

(* a completed begin blocker changed the supply by exactly the block provision minus the documented burn (half the
   burn amount, all of it when nobody voted) of each dispute it executed; none of those is a superseded round *)
Theorem C03_hist_begin_block before signer params after decs :
  Ledger.c03_step before (Ledger.Step "BeginBlock"%string signer 0 params after decs) = [] ->
  let s := Ledger.Step "BeginBlock"%string signer 0 params after decs in
  Ledger.sp_supply after - Ledger.sp_supply before
    = Ledger.begin_block_mint s - Ledger.zsum (map Ledger.dispute_burn (Ledger.begin_block_executed s)) /\
  (forall id b f, In (id, b, f) (Ledger.begin_block_executed s) -> Z.testbit f 1 = false) /\
  Ledger.sp_tbr after - Ledger.sp_tbr before = Ledger.begin_block_mint s - Z.quot (Ledger.begin_block_mint s) 4 /\
  Ledger.sp_feecoll after - Ledger.sp_feecoll before = Z.quot (Ledger.begin_block_mint s) 4.
Proof. exact (LedgerProofs.c03_step_sound_begin_block before signer params after decs). Qed.
Print Assumptions C03_hist_begin_block.

(* no dispute was executed, and its burn taken, twice in a history *)
Theorem C03_hist_executed_once init steps :
  Ledger.c03_hist_check (Ledger.Hist init steps) = [] -> NoDup (Ledger.executed_ids steps).
Proof. exact (LedgerProofs.c03_hist_executed_once init steps). Qed.
Print Assumptions C03_hist_executed_once.

(* == the frame / exact-delta clauses derived from the executable models of the handlers that move coins ===========
   (Proofs/SupplyFrameProofs.v).  Every statement is over ALL states and operations of the model, histories by
   induction over the operation list.  What ties a model to the Go code is the correspondence check of the property
   that owns it: Escrow C04, BridgeTokens C14, DisputeSettle C13, Slash C11. *)
From Verif Require Base.Dec Model.Escrow Model.BridgeTokens Model.DisputeSettle Model.Slash Proofs.SupplyFrameProofs.

(* -- Model/Escrow.v: tips, payouts of tips and of time based rewards, tip withdrawals, the block provision ------- *)
(* an accepted tip of a burns floor(2a/100) *)
Theorem C03_escrow_tip_exact s q a s' :
  Escrow.estep s (Escrow.ETip q a) = Some s' ->
  0 < a <= Escrow.e_users s /\ Escrow.supply_delta s (Escrow.ETip q a) = - (2 * a / 100) /\
  Escrow.e_supply s' = Escrow.e_supply s - 2 * a / 100 /\ 0 <= 2 * a / 100 <= a /\
  Escrow.e_users s' = Escrow.e_users s - a /\ Escrow.e_oracle s' = Escrow.e_oracle s + (a - 2 * a / 100).
Proof. exact (SupplyFrameProofs.EscrowFrame.tip_exact s q a s'). Qed.
Print Assumptions C03_escrow_tip_exact.

(* an accepted block provision p adds p: three quarters to the reward pool, one quarter to the fee collector *)
Theorem C03_escrow_mint_exact s p s' :
  Escrow.estep s (Escrow.EMint p) = Some s' ->
  0 <= p /\ Escrow.supply_delta s (Escrow.EMint p) = p /\ Escrow.e_supply s' = Escrow.e_supply s + p /\
  Escrow.e_tbr s' = Escrow.e_tbr s + (p - p / 4) /\ Escrow.e_feecoll s' = Escrow.e_feecoll s + p / 4.
Proof. exact (SupplyFrameProofs.EscrowFrame.mint_exact s p s'). Qed.
Print Assumptions C03_escrow_mint_exact.

(* every operation: the supply changes by exactly the model's delta ... *)
Theorem C03_escrow_frame s o :
  Escrow.e_supply (Escrow.estep_total s o) = Escrow.e_supply s + Escrow.supply_delta s o.
Proof. exact (EscrowProofs.supply_frame s o). Qed.
Print Assumptions C03_escrow_frame.

(* ... which is non-zero only at an accepted tip or provision *)
Theorem C03_escrow_only_documented s o :
  Escrow.supply_delta s o <> 0 ->
  match o with
  | Escrow.ETip _ a => Escrow.estep s o <> None /\ 0 < a /\ Escrow.supply_delta s o = - (2 * a / 100)
  | Escrow.EMint p => Escrow.estep s o <> None /\ 0 < p /\ Escrow.supply_delta s o = p
  | Escrow.EPayTip _ _ | Escrow.EPayTbr _ | Escrow.EWithdrawTip _ => False
  end.
Proof. exact (SupplyFrameProofs.EscrowFrame.delta_only_documented s o). Qed.
Print Assumptions C03_escrow_only_documented.

Theorem C03_escrow_other_ops_unchanged s o :
  match o with Escrow.ETip _ _ | Escrow.EMint _ => False | _ => True end ->
  Escrow.supply_delta s o = 0 /\ Escrow.e_supply (Escrow.estep_total s o) = Escrow.e_supply s.
Proof. exact (SupplyFrameProofs.EscrowFrame.other_ops_unchanged s o). Qed.
Print Assumptions C03_escrow_other_ops_unchanged.

Theorem C03_escrow_rejected_unchanged s o :
  Escrow.estep s o = None -> Escrow.estep_total s o = s /\ Escrow.supply_delta s o = 0.
Proof. exact (SupplyFrameProofs.EscrowFrame.rejected_unchanged s o). Qed.
Print Assumptions C03_escrow_rejected_unchanged.

(* over any history: final supply = initial supply + sum of the per-operation deltas; and it stays the sum of the
   balances the model tracks *)
Theorem C03_escrow_history ops s :
  Escrow.e_supply (fold_left Escrow.estep_total ops s)
  = Escrow.e_supply s + SupplyFrameProofs.zsum (SupplyFrameProofs.EscrowFrame.deltas s ops).
Proof. exact (SupplyFrameProofs.EscrowFrame.supply_history ops s). Qed.
Print Assumptions C03_escrow_history.

Theorem C03_escrow_supply_is_balance_sum ops s :
  EscrowProofs.einv s ->
  let s' := fold_left Escrow.estep_total ops s in
  Escrow.e_supply s' = Escrow.e_users s' + Escrow.e_oracle s' + Escrow.e_tips s' + Escrow.e_tbr s'
                       + Escrow.e_feecoll s' + Escrow.e_bonded s'.
Proof. exact (SupplyFrameProofs.EscrowFrame.supply_is_balance_sum ops s). Qed.
Print Assumptions C03_escrow_supply_is_balance_sum.

(* -- Model/BridgeTokens.v: claims of deposits, withdrawals -------------------------------------------------------- *)
(* one claimed deposit mints the reported amount / 10^12 *)
Theorem C03_bridge_claim_one_exact v cf s claimer dep idx s' :
  BridgeTokens.v_wide v = true -> BridgeTokens.claim_deposit v cf s claimer dep idx = Some s' ->
  BridgeTokens.s_supply s' = BridgeTokens.s_supply s + SupplyFrameProofs.BridgeFrame.reported_wei s dep idx / BridgeTokens.E12 /\
  0 <= SupplyFrameProofs.BridgeFrame.reported_wei s dep idx / BridgeTokens.E12 /\
  BridgeTokens.s_aggs s' = BridgeTokens.s_aggs s.
Proof. exact (SupplyFrameProofs.BridgeFrame.claim_one_exact v cf s claimer dep idx s'). Qed.
Print Assumptions C03_bridge_claim_one_exact.

(* an accepted batch mints the sum over the batch *)
Theorem C03_bridge_claim_batch_exact v cf s claimer ds is_ s' :
  BridgeTokens.v_wide v = true -> BridgeTokens.claim_deposits v cf s claimer ds is_ = Some s' ->
  BridgeTokens.s_supply s' = BridgeTokens.s_supply s + SupplyFrameProofs.BridgeFrame.batch_loya s ds is_ /\
  0 <= SupplyFrameProofs.BridgeFrame.batch_loya s ds is_ /\
  SupplyFrameProofs.BridgeFrame.supply_delta v cf s (BridgeTokens.OClaim claimer ds is_)
  = SupplyFrameProofs.BridgeFrame.batch_loya s ds is_.
Proof. exact (SupplyFrameProofs.BridgeFrame.claim_batch_exact v cf s claimer ds is_ s'). Qed.
Print Assumptions C03_bridge_claim_batch_exact.

(* an accepted withdrawal burns the withdrawn amount (either variant) *)
Theorem C03_bridge_withdraw_exact v cf s sender dn amount rcpt s' :
  BridgeTokens.withdraw v cf s sender dn amount rcpt = Some s' ->
  BridgeTokens.s_supply s' = BridgeTokens.s_supply s - amount /\
  0 < amount <= BridgeTokens.bal_get (BridgeTokens.s_bal s) sender /\
  SupplyFrameProofs.BridgeFrame.supply_delta v cf s (BridgeTokens.OWithdraw sender dn amount rcpt) = - amount.
Proof. exact (SupplyFrameProofs.BridgeFrame.withdraw_exact v cf s sender dn amount rcpt s'). Qed.
Print Assumptions C03_bridge_withdraw_exact.

(* every operation of the model (block time, stored aggregates, flags, checkpoints, oracle submissions, rejected
   messages included): the supply changes by exactly the delta *)
Theorem C03_bridge_frame v cf s o :
  BridgeTokens.v_wide v = true ->
  BridgeTokens.s_supply (BridgeTokens.hstep v cf s o)
  = BridgeTokens.s_supply s + SupplyFrameProofs.BridgeFrame.supply_delta v cf s o.
Proof. exact (SupplyFrameProofs.BridgeFrame.supply_frame v cf s o). Qed.
Print Assumptions C03_bridge_frame.

Theorem C03_bridge_only_documented v cf s o :
  SupplyFrameProofs.BridgeFrame.supply_delta v cf s o <> 0 ->
  match o with
  | BridgeTokens.OClaim c ds is_ =>
      BridgeTokens.claim_deposits v cf s c ds is_ <> None /\
      SupplyFrameProofs.BridgeFrame.supply_delta v cf s o = SupplyFrameProofs.BridgeFrame.batch_loya s ds is_
  | BridgeTokens.OWithdraw a dn amt r =>
      BridgeTokens.withdraw v cf s a dn amt r <> None /\ 0 < amt /\
      SupplyFrameProofs.BridgeFrame.supply_delta v cf s o = - amt
  | _ => False
  end.
Proof. exact (SupplyFrameProofs.BridgeFrame.delta_only_documented v cf s o). Qed.
Print Assumptions C03_bridge_only_documented.

Theorem C03_bridge_rejected_unchanged v cf s o :
  match o with
  | BridgeTokens.OClaim c ds is_ => BridgeTokens.claim_deposits v cf s c ds is_ = None
  | BridgeTokens.OWithdraw a dn amt r => BridgeTokens.withdraw v cf s a dn amt r = None
  | _ => False
  end -> BridgeTokens.hstep v cf s o = s /\ SupplyFrameProofs.BridgeFrame.supply_delta v cf s o = 0.
Proof. exact (SupplyFrameProofs.BridgeFrame.rejected_unchanged v cf s o). Qed.
Print Assumptions C03_bridge_rejected_unchanged.

Theorem C03_bridge_history v cf ops :
  BridgeTokens.v_wide v = true -> forall s,
  BridgeTokens.s_supply (fold_left (BridgeTokens.hstep v cf) ops s)
  = BridgeTokens.s_supply s + SupplyFrameProofs.zsum (SupplyFrameProofs.BridgeFrame.deltas v cf s ops).
Proof. exact (SupplyFrameProofs.BridgeFrame.supply_history v cf ops). Qed.
Print Assumptions C03_bridge_history.

(* the code as found (finding F26 of C14: amount / 10^12 passes through Int64()): the frame is false *)
Theorem C03_bridge_frame_as_found_refuted :
  exists cf s o,
    BridgeTokens.s_supply (BridgeTokens.hstep BridgeTokens.as_found cf s o)
    <> BridgeTokens.s_supply s + SupplyFrameProofs.BridgeFrame.supply_delta BridgeTokens.as_found cf s o.
Proof. exact SupplyFrameProofs.BridgeFrame.supply_frame_as_found_refuted. Qed.
Print Assumptions C03_bridge_frame_as_found_refuted.

(* -- Model/DisputeSettle.v: fee payments, execution, refunds, rewards (s_burned = supply burnt so far) ----------- *)
(* every operation of the model, every variant: the burnt total grows by exactly the delta ... *)
Theorem C03_dispute_frame v c s o :
  DisputeSettle.s_burned (fst (DisputeSettle.step v c s o))
  = DisputeSettle.s_burned s + SupplyFrameProofs.DisputeFrame.burn_delta v c s o.
Proof. exact (SupplyFrameProofs.DisputeFrame.burn_frame v c s o). Qed.
Print Assumptions C03_dispute_frame.

(* ... which is non-zero only at the step that executes the dispute and at an accepted fee refund; proposals, fee
   payments (from the account or from stake), time, tally, votes, reward claims: nothing *)
Theorem C03_dispute_only_documented v c s o :
  SupplyFrameProofs.DisputeFrame.burn_delta v c s o <> 0 ->
  match o with
  | DisputeSettle.OExecBlock | DisputeSettle.OExecute _ =>
      snd (DisputeSettle.step v c s o) = DisputeSettle.OK /\ DisputeSettle.s_executed s = false /\
      DisputeSettle.s_executed (fst (DisputeSettle.step v c s o)) = true /\
      SupplyFrameProofs.DisputeFrame.burn_delta v c s o = SupplyFrameProofs.DisputeFrame.exec_burn s
  | DisputeSettle.OWithdraw who id =>
      snd (DisputeSettle.step v c s o) = DisputeSettle.OK /\
      SupplyFrameProofs.DisputeFrame.burn_delta v c s o
      = SupplyFrameProofs.DisputeFrame.dust_units (DisputeSettle.s_dust s + SupplyFrameProofs.DisputeFrame.withdraw_fraction s who id)
  | _ => False
  end.
Proof. exact (SupplyFrameProofs.DisputeFrame.delta_only_documented v c s o). Qed.
Print Assumptions C03_dispute_only_documented.

Theorem C03_dispute_rejected_unchanged v c s o :
  snd (DisputeSettle.step v c s o) <> DisputeSettle.OK -> SupplyFrameProofs.DisputeFrame.burn_delta v c s o = 0.
Proof. exact (SupplyFrameProofs.DisputeFrame.rejected_unchanged v c s o). Qed.
Print Assumptions C03_dispute_rejected_unchanged.

(* the execution burns half the burn amount, all of it when no voting power was recorded *)
Theorem C03_dispute_execution_burn_exact v c s o :
  match o with DisputeSettle.OExecBlock | DisputeSettle.OExecute _ => True | _ => False end ->
  0 <= DisputeSettle.s_burn s -> SupplyFrameProofs.DisputeFrame.executes v c s o = true ->
  DisputeSettle.s_burned (fst (DisputeSettle.step v c s o)) - DisputeSettle.s_burned s
    = (if DisputeSettle.total_voter_power (DisputeSettle.s_rounds s) (DisputeSettle.s_id s) (DisputeSettle.s_prev s) =? 0
       then DisputeSettle.s_burn s else DisputeSettle.s_burn s / 2) /\
  snd (DisputeSettle.step v c s o) = DisputeSettle.OK.
Proof. exact (SupplyFrameProofs.DisputeFrame.execution_burn_exact v c s o). Qed.
Print Assumptions C03_dispute_execution_burn_exact.

(* an accepted fee refund burns the whole loya of the accumulated dust (10^-6 loya): at most two; no dust is lost *)
Theorem C03_dispute_refund_burn_exact v c s who id :
  SupplyFrameProofs.DisputeFrame.dust_ok s ->
  snd (DisputeSettle.step v c s (DisputeSettle.OWithdraw who id)) = DisputeSettle.OK ->
  let s' := fst (DisputeSettle.step v c s (DisputeSettle.OWithdraw who id)) in
  let D := DisputeSettle.s_dust s + SupplyFrameProofs.DisputeFrame.withdraw_fraction s who id in
  DisputeSettle.s_burned s' - DisputeSettle.s_burned s = D / DisputeSettle.PR6 /\ 0 <= D / DisputeSettle.PR6 <= 2 /\
  DisputeSettle.s_dust s' = D mod DisputeSettle.PR6 /\
  DisputeSettle.s_burned s' * DisputeSettle.PR6 + DisputeSettle.s_dust s'
  = DisputeSettle.s_burned s * DisputeSettle.PR6 + DisputeSettle.s_dust s + SupplyFrameProofs.DisputeFrame.withdraw_fraction s who id.
Proof. exact (SupplyFrameProofs.DisputeFrame.refund_burn_exact v c s who id). Qed.
Print Assumptions C03_dispute_refund_burn_exact.

Theorem C03_dispute_refund_fraction_range s who id :
  0 <= SupplyFrameProofs.DisputeFrame.withdraw_fraction s who id < 2 * DisputeSettle.PR6.
Proof. exact (SupplyFrameProofs.DisputeFrame.withdraw_fraction_range s who id). Qed.
Print Assumptions C03_dispute_refund_fraction_range.

(* the dust store stays in [0, 1 loya) over every history, so the bound of two holds at every refund *)
Theorem C03_dispute_dust_invariant v c ops s :
  SupplyFrameProofs.DisputeFrame.dust_ok s -> SupplyFrameProofs.DisputeFrame.dust_ok (DisputeSettle.run v c s ops).
Proof. exact (SupplyFrameProofs.DisputeFrame.dust_history v c ops s). Qed.
Print Assumptions C03_dispute_dust_invariant.

Theorem C03_dispute_burn_bounds v c s o :
  SupplyFrameProofs.DisputeFrame.dust_ok s -> 0 <= DisputeSettle.s_burn s ->
  0 <= SupplyFrameProofs.DisputeFrame.burn_delta v c s o <= Z.max (DisputeSettle.s_burn s) 2.
Proof. exact (SupplyFrameProofs.DisputeFrame.burn_delta_bounds v c s o). Qed.
Print Assumptions C03_dispute_burn_bounds.

Theorem C03_dispute_history v c ops s :
  DisputeSettle.s_burned (DisputeSettle.run v c s ops)
  = DisputeSettle.s_burned s + SupplyFrameProofs.zsum (SupplyFrameProofs.DisputeFrame.deltas v c s ops).
Proof. exact (SupplyFrameProofs.DisputeFrame.burn_history v c ops s). Qed.
Print Assumptions C03_dispute_history.

(* -- Model/Slash.v: escrowing stake moves coins from the two pools into the dispute escrow; no supply change ----- *)
Theorem C03_slash_escrow_no_supply_change vr reds st origins power amt st' rec :
  Slash.escrow vr reds st origins power amt = Some (st', rec) ->
  Slash.s_bonded st' + Slash.s_notbonded st' + Slash.s_escrow st'
  = Slash.s_bonded st + Slash.s_notbonded st + Slash.s_escrow st /\
  Slash.s_escrow st <= Slash.s_escrow st'.
Proof. exact (SupplyFrameProofs.SlashFrame.escrow_no_supply_change vr reds st origins power amt st' rec). Qed.
Print Assumptions C03_slash_escrow_no_supply_change.

(* -- the models' deltas are the documented events of the ledger above (nominal_delta) ---------------------------- *)
Theorem C03_escrow_tip_is_ledger_event fx l t s q a s' :
  Escrow.estep s (Escrow.ETip q a) = Some s' ->
  Escrow.supply_delta s (Escrow.ETip q a) = nominal_delta fx l (LTip t a).
Proof. exact (SupplyFrameProofs.EscrowFrame.tip_is_ledger_event fx l t s q a s'). Qed.
Print Assumptions C03_escrow_tip_is_ledger_event.

Theorem C03_bridge_claim_is_ledger_event fx l fresh c r tipw s dep idx :
  SupplyFrameProofs.BridgeFrame.reported_wei s dep idx / BridgeTokens.E12
  = nominal_delta fx l (LClaim fresh c r (SupplyFrameProofs.BridgeFrame.reported_wei s dep idx) tipw).
Proof. exact (SupplyFrameProofs.BridgeFrame.claim_is_ledger_event fx l fresh c r tipw s dep idx). Qed.
Print Assumptions C03_bridge_claim_is_ledger_event.

Theorem C03_dispute_burns_are_ledger_events fx l b :
  - b = nominal_delta fx l (LDisputeBurn b) /\ - b = nominal_delta fx l (LDustBurn b).
Proof. exact (SupplyFrameProofs.DisputeFrame.burns_are_ledger_events fx l b). Qed.
Print Assumptions C03_dispute_burns_are_ledger_events.

(* a completed BeginBlocker of the mint model and the provision operation of the escrow machine move the same amounts *)
Theorem C03_begin_block_is_escrow_mint fx m now p t q m' s s' :
  begin_block fx m now = BBOk p t q m' -> Escrow.estep s (Escrow.EMint p) = Some s' ->
  Escrow.e_supply s' = Escrow.e_supply s + p /\
  Escrow.supply_delta s (Escrow.EMint p) = minted_of (begin_block fx m now) /\
  Escrow.e_tbr s' = Escrow.e_tbr s + t /\ Escrow.e_feecoll s' = Escrow.e_feecoll s + q.
Proof. exact (SupplyFrameProofs.MintFrame.begin_block_is_escrow_mint fx m now p t q m' s s'). Qed.
Print Assumptions C03_begin_block_is_escrow_mint.
