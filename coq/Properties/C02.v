From Verif Require Import Base.Harness Model.Ledger.
