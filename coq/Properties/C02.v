(* C02 — No accepted transaction sequence can make block processing fail.
   Partial by construction (DESIGN section 10): totality is proved for the modelled error sites of
   the Layer modules under invariants that accepted transactions maintain; the SDK keepers
   underneath are exercised by the history driver, not modelled. *)
From Coq Require Import ZArith List String.
From Verif Require Import Base.Harness Model.OracleAgg Model.Halt Model.Escrow Model.Ledger
     Proofs.HaltProofs Proofs.EscrowProofs Proofs.OracleAggProofs.
Import ListNotations.
Open Scope Z_scope.

(* every value the message handler stores is parsed by the aggregation code *)
Theorem C02_stored_values_parse v s : submit_value_stored true v = Some s -> parse16 s <> None.
Proof. exact (stored_values_parse v s). Qed.
Print Assumptions C02_stored_values_parse.

Theorem C02_median_never_fails rs :
  Forall (fun r => exists v, submit_value_stored true v = Some (r_value r)) rs -> weighted_median rs <> None.
Proof. exact (median_total_on_stored rs). Qed.
Print Assumptions C02_median_never_fails.

Theorem C02_stored_prefix_refuted : exists v s, submit_value_stored false v = Some s /\ parse16 s = None.
Proof. exact stored_prefix_refuted. Qed.
Print Assumptions C02_stored_prefix_refuted.

(* the cycle-list sequencer stays inside the list along every history of rotations and
   governance replacements *)
Theorem C02_cycle_index_in_range ops c : current_query_ok c = true ->
  current_query_ok (fold_left (cystep true) ops c) = true.
Proof. exact (cycle_index_in_range ops c). Qed.
Print Assumptions C02_cycle_index_in_range.

Theorem C02_cycle_shrink_refuted : exists c ops, current_query_ok c = true /\
  current_query_ok (fold_left (cystep false) ops c) = false.
Proof. exact cycle_shrink_refuted. Qed.
Print Assumptions C02_cycle_shrink_refuted.

(* the mint begin blocker never hands the bank an output without coins *)
Theorem C02_mint_outputs_valid p : 0 < p -> outputs_valid (mint_outputs true p) = true.
Proof. exact (mint_outputs_valid p). Qed.
Print Assumptions C02_mint_outputs_valid.

Theorem C02_mint_small_provision_refuted : exists p, 0 < p /\ outputs_valid (mint_outputs false p) = false.
Proof. exact mint_small_provision_refuted. Qed.
Print Assumptions C02_mint_small_provision_refuted.

(* pool moves of dispute execution keep both staking pools above their ledgers, so later
   bonding-status changes (which move a validator's tokens between the pools) find the coins *)
Theorem C02_pools_cover_ledger ops s : pinv s -> pinv (fold_left pstep_total ops s).
Proof. exact (prun_inv ops s). Qed.
Print Assumptions C02_pools_cover_ledger.

Theorem C02_return_to_unbonded_refuted :
  exists s amount, pinv s /\ 0 < amount <= p_dispute s /\ ~ pinv (pstep_return_as_found s amount).
Proof. exact return_as_found_refuted. Qed.
Print Assumptions C02_return_to_unbonded_refuted.

(* weighted mode is total on non-empty report lists *)
Theorem C02_mode_never_fails r rs : weighted_mode_exec (r :: rs) <> None.
Proof. unfold weighted_mode_exec, weighted_mode. destruct (mode_reporter _ _ _ _) as [[? ?] ?]. discriminate. Qed.
Print Assumptions C02_mode_never_fails.
