(* C02 — No accepted transaction sequence can make block processing fail.
   Partial by construction (DESIGN section 10): totality is proved for the modelled error sites of
   the Layer modules under invariants that accepted transactions maintain; the SDK keepers
   underneath are exercised by the history driver, not modelled. *)
From Coq Require Import ZArith List String.
From Verif Require Import Base.Harness Model.OracleAgg Model.Halt Model.Escrow Model.Ledger
     Proofs.HaltProofs Proofs.EscrowProofs Proofs.OracleAggProofs.
(* the models of the block-processing code paths share names (step, run, op ...): required, not imported *)
From Verif Require Model.OracleRound Model.OracleRoundCheck Proofs.OracleRoundProofs Proofs.OracleRoundInv
     Proofs.OracleRoundDistinct Model.BridgeValset Model.Proposal Proofs.ProposalProofs Model.Mint
     Model.DisputeTally Proofs.DisputeTallyProofs Model.Slash Model.DisputeSettle Proofs.DisputeSettleProofs
     Proofs.NoHaltProofs.
Import ListNotations.
Open Scope Z_scope.

(* every value the message handler stores is parsed by the aggregation code *)
Theorem C02_stored_values_parse v s : submit_value_stored true v = Some s -> parse16 s <> None.
Proof. exact (stored_values_parse v s). Qed.
Print Assumptions C02_stored_values_parse.

Theorem C02_median_never_fails rs :
  Forall (fun r => exists v, submit_value_stored true v = Some (r_value r)) rs -> weighted_median rs <> None.
Proof. exact (median_total_on_stored rs). Qed.
Print Assumptions C02_median_never_fails.

Theorem C02_stored_prefix_refuted : exists v s, submit_value_stored false v = Some s /\ parse16 s = None.
Proof. exact stored_prefix_refuted. Qed.
Print Assumptions C02_stored_prefix_refuted.

(* the cycle-list sequencer stays inside the list along every history of rotations and
   governance replacements *)
Theorem C02_cycle_index_in_range ops c : current_query_ok c = true ->
  current_query_ok (fold_left (cystep true) ops c) = true.
Proof. exact (cycle_index_in_range ops c). Qed.
Print Assumptions C02_cycle_index_in_range.

Theorem C02_cycle_shrink_refuted : exists c ops, current_query_ok c = true /\
  current_query_ok (fold_left (cystep false) ops c) = false.
Proof. exact cycle_shrink_refuted. Qed.
Print Assumptions C02_cycle_shrink_refuted.

(* the mint begin blocker never hands the bank an output without coins *)
Theorem C02_mint_outputs_valid p : 0 < p -> outputs_valid (mint_outputs true p) = true.
Proof. exact (mint_outputs_valid p). Qed.
Print Assumptions C02_mint_outputs_valid.

Theorem C02_mint_small_provision_refuted : exists p, 0 < p /\ outputs_valid (mint_outputs false p) = false.
Proof. exact mint_small_provision_refuted. Qed.
Print Assumptions C02_mint_small_provision_refuted.

(* pool moves of dispute execution keep both staking pools above their ledgers, so later
   bonding-status changes (which move a validator's tokens between the pools) find the coins *)
Theorem C02_pools_cover_ledger ops s : pinv s -> pinv (fold_left pstep_total ops s).
Proof. exact (prun_inv ops s). Qed.
Print Assumptions C02_pools_cover_ledger.

Theorem C02_return_to_unbonded_refuted :
  exists s amount, pinv s /\ 0 < amount <= p_dispute s /\ ~ pinv (pstep_return_as_found s amount).
Proof. exact return_as_found_refuted. Qed.
Print Assumptions C02_return_to_unbonded_refuted.

(* weighted mode is total on non-empty report lists *)
Theorem C02_mode_never_fails r rs : weighted_mode_exec (r :: rs) <> None.
Proof. unfold weighted_mode_exec, weighted_mode. destruct (mode_reporter _ _ _ _) as [[? ?] ?]. discriminate. Qed.
Print Assumptions C02_mode_never_fails.

(* ================================================================================================== *)
(*  Block processing never fails, over the executable models of the Begin/End/PreBlock code paths.     *)
(*  A failing blocker is [None] / an error constructor / an error code of the model; each model is     *)
(*  tied to the Go code by the correspondence check of the property that owns it.                      *)
(* ================================================================================================== *)

(* ---- x/oracle EndBlocker (SetAggregatedReport, RotateQueries): Model/OracleRound.v, C07 ----------- *)
(* in every state satisfying C07's store invariant whose cycle list holds only queries with a registered
   data spec, the end blocker of any block succeeds *)
Theorem C02_oracle_end_block_never_fails qinfos s h ts :
  OracleRoundInv.oinv s -> NoHaltProofs.Oracle.cycle_specd qinfos s ->
  OracleRound.end_block s h ts (OracleRoundCheck.kind_of qinfos) <> None.
Proof. exact (NoHaltProofs.Oracle.end_block_never_fails qinfos s h ts). Qed.
Print Assumptions C02_oracle_end_block_never_fails.

(* over every history of tips, reports, cycle-list updates, data-spec updates and blocks (accepted or
   rejected), every end-block step succeeds *)
Theorem C02_oracle_every_end_block_succeeds qinfos ops s :
  OracleRoundInv.oinv s -> NoHaltProofs.Oracle.cycle_specd qinfos s -> NoHaltProofs.Oracle.blocks_succeed qinfos s ops.
Proof. exact (NoHaltProofs.Oracle.every_end_block_succeeds qinfos ops s). Qed.
Print Assumptions C02_oracle_every_end_block_succeeds.

(* C07/C08 state their history theorems "as long as no end blocker fails" ([run_opt]): none does *)
Theorem C02_oracle_run_never_halts qinfos ops s :
  OracleRoundInv.oinv s -> NoHaltProofs.Oracle.cycle_specd qinfos s -> OracleRoundDistinct.run_opt qinfos s ops <> None.
Proof. exact (NoHaltProofs.Oracle.run_opt_never_halts qinfos ops s). Qed.
Print Assumptions C02_oracle_run_never_halts.

(* from genesis with a non-empty cycle list of spec'd queries *)
Theorem C02_oracle_from_genesis qinfos cycle sw bw ops :
  cycle <> [] -> Forall (fun q => NoHaltProofs.Oracle.specd qinfos q = true) cycle ->
  OracleRoundDistinct.run_opt qinfos (OracleRoundInv.genesis cycle sw bw) ops <> None
  /\ NoHaltProofs.Oracle.blocks_succeed qinfos (OracleRoundInv.genesis cycle sw bw) ops.
Proof. exact (NoHaltProofs.Oracle.genesis_run_never_halts qinfos cycle sw bw ops). Qed.
Print Assumptions C02_oracle_from_genesis.

(* the condition on the cycle list is needed: an entry without data spec stops the end blocker *)
Theorem C02_oracle_unspecd_cycle_refuted :
  exists qinfos s h ts, OracleRoundInv.oinv s /\ OracleRound.end_block s h ts (OracleRoundCheck.kind_of qinfos) = None.
Proof. exact NoHaltProofs.Oracle.unspecd_cycle_refuted. Qed.
Print Assumptions C02_oracle_unspecd_cycle_refuted.

(* microReports[0] and the division by the total power in AllocateRewards: in every state reached by a
   history in which reporters need at least 10^6 loya of stake, a round flagged as having reports has a
   non-empty report list of positive total power ([mk_agg] = the aggregate the end blocker creates, C07) *)
Theorem C02_oracle_closing_round_inputs qinfos ops s h ts m :
  NoHaltProofs.Oracle.rinv s -> Forall (fun hop => NoHaltProofs.Oracle.min_stake_ok (snd hop)) ops ->
  In m (OracleRound.o_queries (OracleRoundInv.run qinfos s ops)) -> OracleRound.m_has_reports m = true ->
  OracleRound.reports_of (OracleRound.m_id m) (OracleRound.o_reports (OracleRoundInv.run qinfos s ops)) <> []
  /\ OracleRound.ag_reporters (OracleRoundProofs.mk_agg (OracleRoundInv.run qinfos s ops) h ts m) <> []
  /\ 1 <= OracleRound.ag_power (OracleRoundProofs.mk_agg (OracleRoundInv.run qinfos s ops) h ts m).
Proof. exact (NoHaltProofs.Oracle.closing_round_inputs_run qinfos ops s h ts m). Qed.
Print Assumptions C02_oracle_closing_round_inputs.

Example C02_oracle_example :
  (OracleRoundInv.oinv NoHaltProofs.Oracle.ex_genesis
   /\ NoHaltProofs.Oracle.cycle_specd NoHaltProofs.Oracle.ex_qinfos NoHaltProofs.Oracle.ex_genesis
   /\ NoHaltProofs.Oracle.rinv NoHaltProofs.Oracle.ex_genesis
   /\ Forall (fun hop => NoHaltProofs.Oracle.min_stake_ok (snd hop)) NoHaltProofs.Oracle.ex_ops)
  /\ OracleRoundDistinct.run_opt NoHaltProofs.Oracle.ex_qinfos NoHaltProofs.Oracle.ex_genesis NoHaltProofs.Oracle.ex_ops
     = Some NoHaltProofs.Oracle.ex_state
  /\ map (fun a => (OracleRound.ag_qid a, OracleRound.ag_reporters a, OracleRound.ag_power a))
         (OracleRound.o_aggs NoHaltProofs.Oracle.ex_state) = [(2, [11; 12], 12)]
  /\ OracleRound.o_cycle NoHaltProofs.Oracle.ex_state = [2; 7] /\ OracleRound.o_seq NoHaltProofs.Oracle.ex_state = 1.
Proof.
  exact (conj NoHaltProofs.Oracle.ex_hypotheses
          (match NoHaltProofs.Oracle.ex_nontrivial with conj A (conj B (conj C (conj D _))) => conj A (conj B (conj C D)) end)).
Qed.

(* ---- x/bridge EndBlock (CompareAndSetBridgeValidators): Model/BridgeValset.v, C16 ------------------ *)
(* the end blocker fails exactly when, after block 1, no bonded validator with at least one unit of power
   has a registered EVM address *)
Theorem C02_bridge_end_block_fails_iff H st r vs height now :
  fst (BridgeValset.end_block H st r vs height now) = BridgeValset.EbErr
  <-> height <> 1 /\ BridgeValset.eligible r vs = [].
Proof. exact (NoHaltProofs.Bridge.end_block_fails_iff H st r vs height now). Qed.
Print Assumptions C02_bridge_end_block_fails_iff.

(* over every history of blocks (registrations and valset signatures in the PreBlocker, any staking
   changes): if in every block after the first the registry, after the block's own registrations, serves
   one of the block's bonded validators, the chain never halts *)
Theorem C02_bridge_chain_never_halts H es c :
  BridgeValset.c_halted c = false -> NoHaltProofs.Bridge.served_run H c es ->
  BridgeValset.c_halted (fold_left (BridgeValset.step H) es c) = false.
Proof. exact (NoHaltProofs.Bridge.chain_never_halts H es c). Qed.
Print Assumptions C02_bridge_chain_never_halts.

(* in particular with one registered operator that stays bonded with at least 10^6 loya *)
Theorem C02_bridge_chain_never_halts_anchor H op a es c :
  BridgeValset.c_halted c = false -> BridgeValset.reg_get (BridgeValset.c_reg c) op = Some a ->
  Forall (fun e => BridgeValset.e_height e = 1
                   \/ exists t, In (BridgeValset.SV op true t) (BridgeValset.e_vals e) /\ BridgeValset.power_reduction <= t) es ->
  BridgeValset.c_halted (fold_left (BridgeValset.step H) es c) = false.
Proof. exact (NoHaltProofs.Bridge.chain_never_halts_anchor H op a es c). Qed.
Print Assumptions C02_bridge_chain_never_halts_anchor.

(* the environment assumption is needed (F07): block 2 with a bonded but unregistered validator halts *)
Theorem C02_bridge_no_validator_halts_refuted : exists H es, BridgeValset.c_halted (BridgeValset.run H es) = true.
Proof. exact NoHaltProofs.Bridge.no_validator_halts_refuted. Qed.
Print Assumptions C02_bridge_no_validator_halts_refuted.

Example C02_bridge_example :
  NoHaltProofs.Bridge.served_run NoHaltProofs.Bridge.ex_hashes BridgeValset.chain0 NoHaltProofs.Bridge.ex_blocks
  /\ BridgeValset.c_halted (BridgeValset.run NoHaltProofs.Bridge.ex_hashes NoHaltProofs.Bridge.ex_blocks) = false
  /\ map BridgeValset.k_set (BridgeValset.c_st (BridgeValset.run NoHaltProofs.Bridge.ex_hashes NoHaltProofs.Bridge.ex_blocks))
     = [[BridgeValset.BV 88 9; BridgeValset.BV 77 5]; [BridgeValset.BV 77 5]].
Proof.
  exact (conj NoHaltProofs.Bridge.ex_served
          (match NoHaltProofs.Bridge.ex_nontrivial with conj A (conj B _) => conj A B end)).
Qed.

(* ---- app PreBlocker on the injected vote-extension transaction: Model/Proposal.v, C17 -------------- *)
(* in every variant, vote extensions enabled or not: on a proposal ProcessProposalHandler accepted the
   PreBlocker neither panics nor returns an error (a malformed injected tx is rejected before) *)
Theorem C02_preblock_ok_on_accepted g tbl en st p :
  Proposal.process g en st p = Proposal.ACCEPT -> exists st', Proposal.pre_block g tbl en st p = Proposal.POk st'.
Proof. exact (NoHaltProofs.Proposal.preblock_ok_on_accepted g tbl en st p). Qed.
Print Assumptions C02_preblock_ok_on_accepted.

(* the block of an honest proposer (PrepareProposalHandler on a valid extended commit) *)
Theorem C02_preblock_ok_on_prepared g tbl st c l :
  Proposal.c_valid c = true -> Proposal.prepare g true st c = Proposal.PInj l ->
  exists st', Proposal.pre_block g tbl true st (Proposal.Tx l c) = Proposal.POk st'.
Proof. exact (NoHaltProofs.Proposal.preblock_ok_on_prepared g tbl st c l). Qed.
Print Assumptions C02_preblock_ok_on_prepared.

(* acceptance is needed: on an undecodable first transaction the PreBlocker returns an error (and
   ProcessProposalHandler rejects it) *)
Theorem C02_preblock_fails_on_rejected_refuted :
  exists g tbl st p, Proposal.pre_block g tbl true st p = Proposal.PErr /\ Proposal.process g true st p = Proposal.REJECT.
Proof. exact NoHaltProofs.Proposal.preblock_fails_on_rejected_refuted. Qed.
Print Assumptions C02_preblock_fails_on_rejected_refuted.

Example C02_preblock_example :
  exists l st', Proposal.process Proposal.repaired true ProposalProofs.st42 (Proposal.Tx l ProposalProofs.c42) = Proposal.ACCEPT
    /\ Proposal.pre_block Proposal.repaired [] true ProposalProofs.st42 (Proposal.Tx l ProposalProofs.c42) = Proposal.POk st'
    /\ Proposal.lookup Z.eqb ProposalProofs.snapS (Proposal.s_atts st') = Some [0x01a0; 0x01b1].
Proof. exact NoHaltProofs.Proposal.ex_accepted. Qed.

(* ---- x/mint BeginBlocker: Model/Mint.v, C03 ---------------------------------------------------------- *)
(* any minter: a block not dated before the recorded one, gap inside the int64 range of rate * ms (726 days) *)
Theorem C02_mint_begin_block_never_fails m now :
  (forall prev, Mint.m_prev m = Some prev -> prev <= now /\ Mint.in_range (Mint.elapsed_ms now prev) = true) ->
  NoHaltProofs.Mint.bb_ok (Mint.begin_block true m now).
Proof. exact (NoHaltProofs.Mint.begin_block_never_fails m now). Qed.
Print Assumptions C02_mint_begin_block_never_fails.

(* every history of blocks and MsgInit from a minter reachable from genesis *)
Theorem C02_mint_every_begin_block_succeeds ops m last :
  Mint.minter_wf m -> (Mint.m_prev m = None \/ Mint.m_prev m = last) -> NoHaltProofs.Mint.times_ok last ops ->
  NoHaltProofs.Mint.blocks_succeed m ops.
Proof. exact (NoHaltProofs.Mint.every_begin_block_succeeds ops m last). Qed.
Print Assumptions C02_mint_every_begin_block_succeeds.

Theorem C02_mint_time_backwards_refuted :
  exists m now, Mint.minter_wf m /\ Mint.begin_block true m now = Mint.BBErr 0.
Proof. exact NoHaltProofs.Mint.time_backwards_refuted. Qed.
Print Assumptions C02_mint_time_backwards_refuted.

Example C02_mint_example :
  Mint.minter_wf NoHaltProofs.Mint.ex_minter /\ NoHaltProofs.Mint.times_ok None NoHaltProofs.Mint.ex_ops
  /\ fold_left NoHaltProofs.Mint.mstep NoHaltProofs.Mint.ex_ops NoHaltProofs.Mint.ex_minter
     = {| Mint.m_init := true; Mint.m_prev := Some (3001000000 + 30 * 86400 * 1000000000) |}.
Proof.
  exact (match NoHaltProofs.Mint.ex_hypotheses with conj A B => conj A (conj B (proj2 NoHaltProofs.Mint.ex_nontrivial)) end).
Qed.

(* ---- x/dispute BeginBlocker, expiry / tally / execution flags: Model/DisputeTally.v, C12 ------------ *)
(* one block on any world whose dispute records satisfy C12's invariant (after the repair of F03) *)
Theorem C02_dispute_begin_block_never_fails w dt :
  DisputeTallyProofs.winv w -> DisputeTally.step true w (DisputeTally.EBlock dt) <> None.
Proof. exact (NoHaltProofs.Tally.begin_block_never_fails w dt). Qed.
Print Assumptions C02_dispute_begin_block_never_fails.

(* [run] is [None] exactly when a begin blocker in the history failed: over every history of proposals, fee
   payments, votes, new rounds and blocks it is not *)
Theorem C02_dispute_every_begin_block_succeeds es w :
  DisputeTallyProofs.winv w -> DisputeTally.run true w es <> None.
Proof. exact (NoHaltProofs.Tally.every_begin_block_succeeds es w). Qed.
Print Assumptions C02_dispute_every_begin_block_succeeds.

Theorem C02_dispute_life_machine_never_halts es w lin :
  DisputeTallyProofs.linv w -> DisputeTallyProofs.life_model_run true w lin es <> None.
Proof. exact (NoHaltProofs.Tally.life_machine_never_halts es w lin). Qed.
Print Assumptions C02_dispute_life_machine_never_halts.

(* ---- x/dispute BeginBlocker, prevote expiry in C11's dispute world: Model/Slash.v ------------------ *)
Theorem C02_slash_begin_block_total vr e w now :
  fst (Slash.step vr e w (Slash.OBegin now)) = true
  /\ Slash.w_stk (snd (Slash.step vr e w (Slash.OBegin now))) = Slash.w_stk w
  /\ Slash.w_rcds (snd (Slash.step vr e w (Slash.OBegin now))) = Slash.w_rcds w
  /\ List.length (Slash.w_disps (snd (Slash.step vr e w (Slash.OBegin now)))) = List.length (Slash.w_disps w).
Proof. exact (NoHaltProofs.SlashBlock.begin_block_total vr e w now). Qed.
Print Assumptions C02_slash_begin_block_total.

(* ---- x/dispute BeginBlocker, CheckClosedDisputesForExecution / ExecuteVote: Model/DisputeSettle.v, C13 *)
(* with fees paid from accounts, one round, the whole slash amount escrowed and tally facts as C12's
   invariant gives them ([env_ok]): the execution step of the begin blocker succeeds in every state of the
   invariant ... *)
Theorem C02_settle_exec_block_never_fails v c s :
  DisputeSettle.fixc v = true -> NoHaltProofs.Settle.sinv c s ->
  snd (DisputeSettle.step v c s DisputeSettle.OExecBlock) = DisputeSettle.OK.
Proof. exact (NoHaltProofs.Settle.exec_block_never_fails v c s). Qed.
Print Assumptions C02_settle_exec_block_never_fails.

(* ... and over every such history of payments, time, tallies, vote facts, begin blocks, executions, refunds
   and reward claims every begin-block execution step succeeds *)
Theorem C02_settle_every_exec_block_succeeds v c ops s :
  DisputeSettle.fixc v = true -> NoHaltProofs.Settle.sinv c s -> NoHaltProofs.Settle.env_ok v c s ops ->
  NoHaltProofs.Settle.exec_blocks_succeed v c s ops.
Proof. exact (fun Hfx => NoHaltProofs.Settle.every_exec_block_succeeds v c Hfx ops s). Qed.
Print Assumptions C02_settle_every_exec_block_succeeds.

Theorem C02_settle_initial_state c now liq stk :
  0 < DisputeSettle.c_S c -> NoHaltProofs.Settle.sinv c (DisputeSettle.init_st now liq stk).
Proof. exact (NoHaltProofs.Settle.init_sinv c now liq stk). Qed.
Print Assumptions C02_settle_initial_state.

(* without "paid from accounts": 501 one-loya payments from stake are credited but move nothing (C13b); all
   operations are accepted, the fee is complete, and the begin blocker's ExecuteVote of an AGAINST result
   fails with insufficient funds (escrow 39499, burn 500, 39000 to send) *)
Theorem C02_settle_stake_shortfall_halts_refuted :
  exists c s ops,
    NoHaltProofs.Settle.all_accepted DisputeSettle.repo_variant c s ops = true
    /\ DisputeSettle.s_feetotal (DisputeSettle.run DisputeSettle.repo_variant c s ops)
       = DisputeSettle.s_slash (DisputeSettle.run DisputeSettle.repo_variant c s ops)
    /\ DisputeSettle.s_esc (DisputeSettle.run DisputeSettle.repo_variant c s ops) = 39499
    /\ snd (DisputeSettle.step DisputeSettle.repo_variant c (DisputeSettle.run DisputeSettle.repo_variant c s ops)
              DisputeSettle.OExecBlock) = DisputeSettle.EInsufficient.
Proof. exact NoHaltProofs.Settle.stake_shortfall_halts_refuted. Qed.
Print Assumptions C02_settle_stake_shortfall_halts_refuted.

(* without "one round" (F12): in the sixth round the burn amount exceeds twice the slash amount; with the code as found
   (reporter's part = SlashAmount - BurnAmount) an AGAINST result made ExecuteVote ask for a negative amount and the
   begin blocker failed (reproduced on the real application: history seed 9000002 with seven rounds); with the repair
   that is in /repo now (FeeTotal - BurnAmount) the same accepted history executes *)
Theorem C02_settle_sixth_round_halts_refuted :
  exists c s ops,
    NoHaltProofs.Settle.all_accepted DisputeSettle.repo_variant c s ops = true
    /\ DisputeSettle.s_id (DisputeSettle.run DisputeSettle.repo_variant c s ops) = 6
    /\ DisputeSettle.s_burn (DisputeSettle.run DisputeSettle.repo_variant c s ops) = 382500
    /\ snd (DisputeSettle.exec_block_gen true false (DisputeSettle.run DisputeSettle.repo_variant c s ops)) = DisputeSettle.EOther
    /\ snd (DisputeSettle.step DisputeSettle.repo_variant c (DisputeSettle.run DisputeSettle.repo_variant c s ops)
              DisputeSettle.OExecBlock) = DisputeSettle.OK.
Proof. exact NoHaltProofs.Settle.sixth_round_halts_refuted. Qed.
Print Assumptions C02_settle_sixth_round_halts_refuted.

Example C02_settle_example :
  (NoHaltProofs.Settle.sinv DisputeSettleProofs.cfg0 DisputeSettleProofs.st0
   /\ NoHaltProofs.Settle.env_ok DisputeSettle.repo_variant DisputeSettleProofs.cfg0 DisputeSettleProofs.st0 NoHaltProofs.Settle.ex_ops)
  /\ NoHaltProofs.Settle.codes DisputeSettle.repo_variant DisputeSettleProofs.cfg0 DisputeSettleProofs.st0 NoHaltProofs.Settle.ex_ops
     = [0; 0; 0; 0; 0; 0; 0; 0; 0; 0].
Proof. exact (conj NoHaltProofs.Settle.ex_hypotheses (proj1 NoHaltProofs.Settle.ex_nontrivial)). Qed.
