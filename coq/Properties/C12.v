(* C12 — Dispute lifecycle, voting power and tally follow the specified rules.
   Property theorems only; proofs live in Proofs/DisputeTallyProofs.v and Proofs/DisputeVoteProofs.v.
   [tally_vote false] is the code as found, [tally_vote true] the repair of finding F03
   (no strict maximum resolves to INVALID instead of the error "no majority"). *)
From Coq Require Import ZArith List Bool.
From Verif Require Import Base.Harness Model.DisputeTally Proofs.DisputeTallyProofs Proofs.DisputeVoteProofs.
Import ListNotations.
Open Scope Z_scope.

(* ---- Ratio ------------------------------------------------------------------------------ *)
(* unfolding the Dec operations: both multiplications are exact, the quotient rounds at 10^-18,
   the truncation is at 1: Ratio = floor(25*10^6 * part / total) below 2*10^16 loya *)
Theorem C12_ratio_exact total part :
  0 < total < 20000000000000000 -> 0 <= part -> ratio total part = (25 * 1000000 * part) / total.
Proof. exact (ratio_exact total part). Qed.
Print Assumptions C12_ratio_exact.

Theorem C12_ratio_zero_total part : ratio 0 part = 0.
Proof. exact (ratio_total_zero part). Qed.
Print Assumptions C12_ratio_zero_total.

(* for every total the 10^-18 rounding adds at most one unit ... *)
Theorem C12_ratio_within_one total part :
  0 < total -> 0 <= part ->
  (25 * 1000000 * part) / total <= ratio total part <= (25 * 1000000 * part) / total + 1.
Proof. exact (ratio_bounds total part). Qed.
Print Assumptions C12_ratio_within_one.

(* ... and just above 2*10^16 it does *)
Theorem C12_ratio_bound_is_tight :
  ratio 20000000000000001 800000000 = (25 * 1000000 * 800000000) / 20000000000000001 + 1.
Proof. exact ratio_exact_bound_tight. Qed.
Print Assumptions C12_ratio_bound_is_tight.

(* ---- the tally is decided for every vote distribution ------------------------------------- *)
Theorem C12_tally_total x :
  ti_prev x = 0 ->
  let o := tally_vote true x in
  (to_err o = TOk /\ 1 <= to_result o <= 6 /\ to_vote_end o = ti_now x /\ to_pending o = true /\
   ((first_quorum x || second_quorum x = true /\ 1 <= to_result o <= 3 /\ to_status o = Resolved /\ to_open o = false) \/
    (first_quorum x || second_quorum x = false /\ ti_vote_end x < ti_now x /\ 4 <= to_result o <= 6)))
  \/ (to_err o = TStillVoting /\ first_quorum x || second_quorum x = false /\ ti_now x <= ti_vote_end x /\
      to_result o = 0 /\ to_vote_end o = ti_vote_end x /\ to_status o = ti_status x /\
      to_open o = ti_open x /\ to_pending o = ti_pending x).
Proof. exact (tally_total x). Qed.
Print Assumptions C12_tally_total.

(* finding F03: the code as found returns "no majority" when no choice is strictly ahead —
   two reporters of equal stake vote support / against, 49 hours later the period is over *)
Theorem C12_tally_total_refuted :
  exists x, ti_prev x = 0 /\ consistent x = true /\ ti_vote_end x < ti_now x /\
            to_err (tally_vote false x) = TNoMajority /\
            to_err (tally_vote true x) = TOk /\ to_result (tally_vote true x) = 6.
Proof. exact tally_total_refuted. Qed.
Print Assumptions C12_tally_total_refuted.

(* ---- the result is the specified formula --------------------------------------------------- *)
(* [tally_spec] is the executable specification the check evaluates on the implementation's
   answers: exact participation 25% * sum cast_g/total_g against 51% (up to 3 units of 10^-6
   percent), exact scores sum_g v_{g,c}/cast_g (a lead of 5*10^-6 decides; inside that
   resolution INVALID or a choice within it), lifecycle fields.  Outside the class of finding
   F24 the repaired model satisfies it for every input. *)
Theorem C12_tally_matches_formula x :
  valid x -> consistent x = true -> class_F24 x = false -> tally_spec x (tally_vote true x) = [].
Proof. exact (tally_matches_formula x). Qed.
Print Assumptions C12_tally_matches_formula.

(* what an empty issue list says about a recorded result *)
Theorem C12_tally_spec_sound x res ve st op pe :
  ti_prev x = 0 -> consistent x = true ->
  tally_spec x (TO TOk res ve st op pe) = [] ->
  1 <= res <= 6 /\
  (res <= 3 -> (51 * PR - 3) * part_den x <= 25 * PR * part_num x) /\
  (3 < res -> 25 * PR * part_num x < (51 * PR + 3) * part_den x /\ ti_vote_end x < ti_now x) /\
  (forall c, clear_winner x = Some c -> res = result_code (res <=? 3) c) /\
  (same_votes c_s c_a x = true ->
     res <> result_code (res <=? 3) Support /\ res <> result_code (res <=? 3) Against) /\
  ve = ti_now x /\ pe = true.
Proof. exact (tally_spec_sound x res ve st op pe). Qed.
Print Assumptions C12_tally_spec_sound.

(* the code's accumulated score of a choice is within 3*10^-18 of the exact score *)
Theorem C12_score_error x :
  valid x ->
  Z.abs (c_s (acc_holders x) * score_den x - PR * P * score_num c_s x) <= 3 * score_den x /\
  Z.abs (c_a (acc_holders x) * score_den x - PR * P * score_num c_a x) <= 3 * score_den x /\
  Z.abs (c_i (acc_holders x) * score_den x - PR * P * score_num c_i x) <= 3 * score_den x.
Proof.
  exact (fun V => conj (proj2 (acc_bound c_s x V good_s))
                       (conj (proj2 (acc_bound c_a x V good_a)) (proj2 (acc_bound c_i x V good_i)))).
Qed.
Print Assumptions C12_score_error.

(* finding F24: team + users + reporters reach quorum, the token holders' votes are ignored:
   the four groups give support 2.4 : against 1.6, both variants of the code say AGAINST *)
Theorem C12_first_quorum_ignores_tokenholders_refuted :
  exists x, ti_prev x = 0 /\ consistent x = true /\ class_F24 x = true /\
            clear_winner x = Some Support /\
            to_err (tally_vote true x) = TOk /\ to_result (tally_vote true x) = result_code true Against /\
            tally_vote false x = tally_vote true x.
Proof. exact first_quorum_ignores_tokenholders_refuted. Qed.
Print Assumptions C12_first_quorum_ignores_tokenholders_refuted.

(* ---- lifecycle ------------------------------------------------------------------------------ *)
(* every event (propose, add fee, vote, new round, next block) keeps the invariant, lets time
   only advance, and moves every existing dispute along
   prevote -> voting -> resolved | unresolved -> resolved, prevote -> failed:
   [dstep]: one edge of that graph or none, rank never decreases, equal rank = no lifecycle
   field (status, open, pending, result, executed, round) changed *)
Theorem C12_lifecycle_monotone fx w e w' :
  winv w -> step fx w e = Some w' ->
  w_now w <= w_now w' /\ winv w' /\
  (forall id d, nth_error (w_ds w) id = Some d -> exists d', nth_error (w_ds w') id = Some d' /\ dstep d d').
Proof. exact (step_ok fx w e w'). Qed.
Print Assumptions C12_lifecycle_monotone.

(* over every history from the empty chain: never backwards, and since each transition
   strictly increases the rank (0..5), none happens twice *)
Theorem C12_lifecycle_history fx t0 es w :
  run fx (W t0 []) es = Some w ->
  winv w /\
  forall es2 w2, run fx w es2 = Some w2 ->
    forall id d, nth_error (w_ds w) id = Some d ->
      exists d', nth_error (w_ds w2) id = Some d' /\ status_reach (d_status d) (d_status d') /\
                 rank d <= rank d' /\ (rank d = rank d' -> lc d = lc d').
Proof.
  exact (fun H => let I := proj1 (proj2 (run_ok fx es (W t0 []) w (winv_empty t0) H)) in
                  conj I (fun es2 w2 H2 => proj2 (proj2 (run_ok fx es2 w w2 I H2)))).
Qed.
Print Assumptions C12_lifecycle_history.

Theorem C12_status_never_back a b : status_reach a b -> status_reach b a -> a = b.
Proof. exact (status_reach_not_back a b). Qed.
Print Assumptions C12_status_never_back.

(* with the repair of F03 BeginBlocker cannot fail on the dispute state, whatever was voted *)
Theorem C12_lifecycle_no_halt t0 es : run true (W t0 []) es <> None.
Proof. exact (run_no_halt es (W t0 []) (winv_empty t0)). Qed.
Print Assumptions C12_lifecycle_no_halt.

(* ... the code as found halts: propose, two equal opposite reporter votes, 49 hours *)
Theorem C12_lifecycle_halt_refuted :
  run false (W 1700000000000000000 []) f03_history = None /\
  exists w, run true (W 1700000000000000000 []) f03_history = Some w /\
            option_map d_result (nth_error (w_ds w) 0) = Some 6 /\
            option_map d_status (nth_error (w_ds w) 0) = Some Unresolved.
Proof. exact lifecycle_halt_refuted. Qed.
Print Assumptions C12_lifecycle_halt_refuted.

(* a new round closes the old id, creates the next free id in Voting with round + 1 and adds
   the round fee; otherwise the request changes nothing *)
Theorem C12_new_round fx w id fee d :
  nth_error (w_ds w) id = Some d -> d_status d = Unresolved -> d_open d = true ->
  w_now w <= d_end d -> round_fee (d_slash d) (d_round d) <= fee ->
  exists old new,
    step fx w (ENewRound id fee) = Some (W (w_now w) (upd_nth id old (w_ds w) ++ [new])) /\
    d_status old = Unresolved /\ d_open old = false /\ d_pending old = false /\
    nth_error (upd_nth id old (w_ds w) ++ [new]) (List.length (w_ds w)) = Some new /\
    d_status new = Voting /\ d_open new = true /\ d_round new = d_round d + 1 /\ d_result new = 0 /\
    d_burn new = d_burn d + round_fee (d_slash d) (d_round d) /\
    d_fee_total new = d_fee_total d + round_fee (d_slash d) (d_round d) /\
    d_vote_end new = w_now w + TWO_DAYS /\ d_end new = w_now w + THREE_DAYS.
Proof. exact (new_round_ok fx w id fee d). Qed.
Print Assumptions C12_new_round.

Theorem C12_new_round_only_if fx w id fee d :
  nth_error (w_ds w) id = Some d ->
  (d_status d <> Unresolved \/ d_open d = false \/ d_end d < w_now w \/ fee < round_fee (d_slash d) (d_round d)) ->
  step fx w (ENewRound id fee) = Some w.
Proof. exact (new_round_rejected fx w id fee d). Qed.
Print Assumptions C12_new_round_only_if.

(* the round fee is 5 % of the slash amount doubled per round, capped by the slash amount *)
Theorem C12_round_fee_doubles slash r :
  0 <= slash -> 0 <= r ->
  five_percent slash = slash / 20 /\ round_fee slash (r + 1) = Z.min (2 * round_fee slash r) slash.
Proof. exact (fun H Hr => conj (five_percent_eq slash H) (round_fee_double slash r H Hr)). Qed.
Print Assumptions C12_round_fee_doubles.

(* ---- votes ------------------------------------------------------------------------------------ *)
(* a vote is accepted only from an address without a vote record, while the dispute is in
   Voting and not after the vote end; a rejected vote changes nothing *)
Theorem C12_vote_once fx env st now who c bal res st' :
  vote_msg fx env st now who c bal = (res, st') ->
  (res = VAccepted ->
     rs_status st = Voting /\ alookup who (rs_voters st) = None /\ now <= rs_vote_end st /\
     alookup who (rs_voters st') <> None) /\
  (res <> VAccepted -> st' = st).
Proof.
  exact (fun H => let (A, B) := vote_msg_once fx env st now who c bal res st' H in
                  conj (fun E => let '(conj a (conj b (conj c0 (conj _ (conj e _))))) := A E in
                                 conj a (conj b (conj c0 e))) B).
Qed.
Print Assumptions C12_vote_once.

(* over every sequence of vote transactions: no address is accepted twice *)
Theorem C12_vote_once_history fx env ops st rs st' :
  vote_run fx env st ops = (rs, st') ->
  NoDup (accepted ops rs) /\
  (forall k, In k (accepted ops rs) -> alookup k (rs_voters st) = None) /\
  (forall k, In k (accepted ops rs) -> alookup k (rs_voters st') <> None).
Proof.
  exact (fun H => let '(conj a (conj b (conj _ d))) := vote_run_once fx env ops st rs st' H in
                  conj a (conj b d)).
Qed.
Print Assumptions C12_vote_once_history.

(* no reporting stake counts twice: after every sequence of vote transactions each reporter-group
   and token-holder counter is, modulo 2^64, the sum of the powers recorded for the voters of that
   choice (a selector voting after its reporter moves its tokens out of the reporter's record and
   counter) ... *)
Theorem C12_counters_match_records fx env ops vend rs st :
  vote_run fx env (round_start vend) ops = (rs, st) ->
  forall c, cget c (rs_reps st) = wrap64 (vsum vr_rep c (rs_voters st)) /\
            cget c (rs_holders st) = wrap64 (vsum vr_holder c (rs_voters st)).
Proof. exact (fun H => vote_run_match fx env ops (round_start vend) rs st (counts_match_start vend) H). Qed.
Print Assumptions C12_counters_match_records.

(* ... exactly, without wrap, as long as that sum is a uint64 value *)
Theorem C12_no_underflow fx env ops vend rs st c :
  vote_run fx env (round_start vend) ops = (rs, st) ->
  0 <= vsum vr_rep c (rs_voters st) < U64 -> cget c (rs_reps st) = vsum vr_rep c (rs_voters st).
Proof.
  exact (fun H => counts_exact st c (vote_run_match fx env ops (round_start vend) rs st (counts_match_start vend) H)).
Qed.
Print Assumptions C12_no_underflow.

(* the premise is needed: with mismatching snapshots (the selector's tokens are not part of what
   its reporter voted with) the uint64 counter wraps — reporter 1 votes with 10, its selector claims 40 *)
Theorem C12_counter_wraps_on_mismatch :
  let env := RE 0 [(1, AC 0 (Some 1) 10 10); (2, AC 0 (Some 1) 0 40)] 0 100 1000 300 in
  let '(rs, st) := vote_run true env (round_start 200) [VO 1 1 Support 0; VO 2 2 Against 0] in
  rs = [VAccepted; VAccepted] /\ cget Support (rs_reps st) = U64 - 30 /\ vsum vr_rep Support (rs_voters st) = -30.
Proof. exact counter_wrap_example. Qed.
Print Assumptions C12_counter_wraps_on_mismatch.

(* non-vacuity: the repo's own "everybody votes" test vector is decided INVALID and meets the spec *)
Theorem C12_tally_example :
  let x := TI 0 (Some Invalid) (C3 22500000 22500000 15000000) (C3 27500000 22500000 10000000)
              (C3 22500000 27500000 10000000) 60000000 60000000 60000000
              1700000000000000000 1700172800000000000 1700259200000000000 4 Voting true false in
  tally_vote false x = TO TOk 3 1700000000000000000 Resolved false true /\ tally_spec x (tally_vote false x) = [].
Proof. exact tally_example. Qed.
Print Assumptions C12_tally_example.

(* ---- lifecycle correspondence: the histories of TestC12Lifecycle (LifeCase) -------------------------- *)
(* the code's Dec arithmetic gives the property's amounts: 5 % = floor(slash/20), and the fee of the round that
   follows round r is that 5 % doubled r times, capped by the slash amount *)
Theorem C12_round_fee_formula slash r :
  0 <= slash -> five_percent slash = slash / 20 /\ round_fee slash r = Z.min (slash / 20 * 2 ^ r) slash.
Proof. exact (fun H => conj (five_percent_eq slash H) (round_fee_min slash r H)). Qed.
Print Assumptions C12_round_fee_formula.

(* 10 %, 20 %, 40 %, 80 %, then the whole slash amount *)
Theorem C12_round_fee_schedule k :
  0 < k ->
  rfee (20 * k) 1 = 2 * k /\ rfee (20 * k) 2 = 4 * k /\ rfee (20 * k) 3 = 8 * k /\ rfee (20 * k) 4 = 16 * k /\
  rfee (20 * k) 5 = 20 * k /\ rfee (20 * k) 6 = 20 * k.
Proof. exact (rfee_schedule k). Qed.
Print Assumptions C12_round_fee_schedule.

Theorem C12_round_fee_capped slash r : 40 <= slash -> 5 <= r -> round_fee slash r = slash.
Proof. exact (round_fee_capped slash r). Qed.
Print Assumptions C12_round_fee_capped.

(* the base is 5 % of the slash amount, not the accumulated burn amount (they differ from the third round on) *)
Theorem C12_round_fee_base_is_not_burn :
  rfee 1000000 2 = 200000 /\ burn_at 1000000 2 = 150000 /\ Z.min (burn_at 1000000 2 * 2 ^ 2) 1000000 = 600000 /\
  round_fee 1000000 2 = 200000.
Proof. exact rfee_not_from_burn. Qed.
Print Assumptions C12_round_fee_base_is_not_burn.

(* bookkeeping over every history of the lifecycle machine: the burn amount of a dispute in round r is 5 % plus the
   fees of rounds 2..r, and once the fee is complete the fee total is the slash amount plus those fees *)
Theorem C12_fee_burn_bookkeeping fx t0 es w d :
  run fx (W t0 []) es = Some w -> In d (w_ds w) ->
  1 <= d_round d /\
  d_burn d = d_slash d / 20 + fee_sum (d_slash d) (Z.to_nat (d_round d - 1)) /\
  (d_slash d <= d_fee_total d -> d_fee_total d = d_slash d + fee_sum (d_slash d) (Z.to_nat (d_round d - 1))) /\
  (d_fee_total d < d_slash d -> d_round d = 1).
Proof.
  exact (fun H Hin =>
    let B := proj1 (Forall_forall _ _) (proj2 (run_linv fx es (W t0 []) w (linv_empty t0) H)) d Hin in
    conj (proj1 (proj2 B)) (conj (proj1 (binv_unfold d B)) (conj (proj2 (binv_unfold d B)) (proj2 (proj2 (proj2 (proj2 B))))))).
Qed.
Print Assumptions C12_fee_burn_bookkeeping.

(* the machine the check runs on the observed events ([step] after refreshing the tally inputs a block reads, new
   disputes and further rounds told apart by the report's lineage, the msg server's minimum fee) keeps the
   invariants and the monotone lifecycle over every history ... *)
Theorem C12_life_machine_history fx t0 es w :
  life_model_run fx (W t0 []) [] es = Some w ->
  winv w /\ Forall binv (w_ds w) /\
  forall es2 lin2 w2, life_model_run fx w lin2 es2 = Some w2 ->
    forall id d, nth_error (w_ds w) id = Some d ->
      exists d', nth_error (w_ds w2) id = Some d' /\ status_reach (d_status d) (d_status d') /\
                 rank d <= rank d' /\ (rank d = rank d' -> lc d = lc d').
Proof.
  exact (fun H => let L := proj1 (proj2 (life_model_run_ok fx es (W t0 []) [] w (linv_empty t0) H)) in
                  conj (proj1 L) (conj (proj2 L)
                    (fun es2 lin2 w2 H2 => proj2 (proj2 (life_model_run_ok fx es2 w lin2 w2 L H2))))).
Qed.
Print Assumptions C12_life_machine_history.

(* ... and with the repair of F03 its BeginBlocker never fails *)
Theorem C12_life_machine_no_halt t0 es : life_model_run true (W t0 []) [] es <> None.
Proof. exact (life_model_run_no_halt es (W t0 []) [] (linv_empty t0)). Qed.
Print Assumptions C12_life_machine_no_halt.

(* soundness of the executable specification evaluated on the observed records: one record before / after one
   event moves along one edge of prevote -> voting -> unresolved -> resolved | prevote -> failed or stays, its rank
   never decreases, an unchanged rank means that status, open, pending, result, executed and round are unchanged
   (so no transition happens twice), and id, slash amount, round and burn amount of an id never change *)
Theorem C12_life_spec_record_step p n :
  rec_step_ok p n = true ->
  r_id p = r_id n /\ status_step (r_status p) (r_status n) /\ rrank p <= rrank n /\
  (rrank p = rrank n -> rlc p = rlc n) /\
  r_slash p = r_slash n /\ r_round p = r_round n /\ r_burn p = r_burn n /\ r_fee_total p <= r_fee_total n /\
  (r_executed p = true -> r_executed n = true) /\ (r_result p <> 0 -> r_result n = r_result p).
Proof. exact (rec_step_sound p n). Qed.
Print Assumptions C12_life_spec_record_step.

(* an empty issue list for a history (without halted blocks) means that the observations form a chain: every
   record of an observation is found under the same position in the next one and moved as above *)
Theorem C12_life_spec_history steps now prev lin log :
  life_spec now prev lin log steps = [] -> (forall s, In s steps -> ls_res s < 2) ->
  obs_chain prev steps /\
  (forall s rest, steps = s :: rest ->
     forall i p, nth_error prev i = Some p -> exists n, nth_error (ls_recs s) i = Some n /\ rec_step_ok p n = true).
Proof. exact (life_spec_history steps now prev lin log). Qed.
Print Assumptions C12_life_spec_history.

(* an accepted further round on which the specification holds: the lineage's last dispute was unresolved, open and
   not past its end, the payer was charged exactly min(5 % * 2^round, slash), the new record has the next id,
   round + 1, and burn amount and fee total grown by that fee *)
Theorem C12_life_spec_new_round now prev lin report slash fee ch N k p :
  alookup report lin = Some k -> rnth prev k = Some p ->
  propose_spec now prev lin report slash fee ch N = [] ->
  exists P' n, split_last N = (P', Some n) /\ r_id n = zlen prev + 1 /\
    r_status p = Unresolved /\ r_open p = true /\ now <= r_end p /\
    ch = rfee (r_slash p) (r_round p) /\ ch <= fee /\
    r_status n = Voting /\ r_round n = r_round p + 1 /\ r_burn n = r_burn p + ch /\ r_fee_total n = r_fee_total p + ch.
Proof. exact (propose_spec_round now prev lin report slash fee ch N k p). Qed.
Print Assumptions C12_life_spec_new_round.

(* non-vacuity: a history recorded from the real application (two rounds without votes) passes the whole check;
   the same history with the second round charged 20 % instead of 10 % does not *)
Theorem C12_life_example : c12_check life_example_case = [] /\ c12_check life_example_bad <> [].
Proof. exact life_example_both. Qed.
Print Assumptions C12_life_example.
