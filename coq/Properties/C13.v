(* C13 — Dispute settlement pays out exactly what was paid in, once.
   Property theorems only; the model is Model/DisputeSettle.v, proofs are in Proofs/DisputeSettleProofs.v.
   Variant flags of the model (true = after the proposed repair): fix20 (F20), fix35 (F35), fixc (C13c). *)
From Coq Require Import ZArith List Bool.
From Verif Require Import Base.Harness Base.Dec Model.DisputeSettle Proofs.DisputeSettleProofs.
Import ListNotations.
Open Scope Z_scope.

(* ---- execution: the burn, the voters' pot and the stake sent back are the amounts implied by the result -------- *)
(* For every state in which ExecuteVote succeeds: it was not executed before and is executed now; the burn and the
   pot are the two halves of the burn amount (all of it is burnt when nobody voted) and lose at most one loya
   together; the escrow pays exactly the burn plus the stake sent back: the escrowed stake (INVALID), nothing
   (SUPPORT), stake + fees - burn amount (AGAINST); no party's liquid balance, the dust store and the payer records
   are untouched. *)
Theorem C13_execute_amounts fx s s' :
  0 <= s_burn s -> execute_vote fx s = (s', OK) ->
  let burnt := s_burned s' - s_burned s in
  s_executed s = false /\ s_executed s' = true /\ s_pending s' = false /\ s_status s' = Resolved
  /\ 0 <= burnt /\ 0 <= s_reward s'
  /\ (total_voter_power (s_rounds s) (s_id s) (s_prev s) = 0 -> burnt = s_burn s /\ s_reward s' = 0)
  /\ (total_voter_power (s_rounds s) (s_id s) (s_prev s) <> 0 -> burnt = s_burn s / 2 /\ s_reward s' = s_burn s / 2)
  /\ s_burn s - 1 <= burnt + s_reward s' <= s_burn s
  /\ s_esc s - s_esc s' = burnt + (if is_invalid (s_result s) then s_slash s
                                   else if is_support (s_result s) then 0
                                   else s_slash s + (s_feetotal s - s_burn s))
  /\ 0 <= s_esc s' /\ s_liq s' = s_liq s /\ s_dust s' = s_dust s /\ s_payers s' = s_payers s.
Proof. exact (execute_vote_amounts fx s s'). Qed.
Print Assumptions C13_execute_amounts.

(* the Dec arithmetic of the two amounts is the integer floor *)
Theorem C13_burn_amounts s : 0 <= s -> five_percent s = s / 20 /\ half_burn (five_percent s) = (s / 20) / 2.
Proof.
  intros Hs. split; [exact (five_percent_eq s Hs)|].
  rewrite (five_percent_eq s Hs). apply half_burn_eq. apply Z.div_pos; [exact Hs | reflexivity].
Qed.
Print Assumptions C13_burn_amounts.

(* ---- refunds: pro rata, never more than the pool ------------------------------------------------------------------ *)
(* RefundDisputeFee pays floor(fee * (fees - burn) / total) loya and hands the remainder, in 10^-6 loya, to the dust
   store (total up to 10^18 loya: the Dec rounding of the 18th decimal cannot reach the next integer) *)
Theorem C13_refund_is_pro_rata_floor fee fmb total :
  0 <= fee -> 0 <= fmb -> 0 < total <= 10 ^ 18 ->
  refund6 fee fmb total = (fee * fmb) / total
  /\ refund6 fee fmb total * 1000000 + refund_rem fee fmb total = (fee * fmb * 1000000) / total
  /\ 0 <= refund_rem fee fmb total < 1000000.
Proof.
  intros Hf Hm Ht. change (10 ^ 18) with P in Ht.
  destruct (refund_split fee fmb total Hf Hm Ht) as (H1 & H2 & _).
  split; [exact (refund6_floor fee fmb total Hf Hm Ht)|]. split; [|exact H2].
  change 1000000 with PR6. rewrite <- (refund12_eq fee fmb total Hf Hm Ht). exact H1.
Qed.
Print Assumptions C13_refund_is_pro_rata_floor.

(* for every set of payers whose recorded amounts add up to at most the fee total, in any order of withdrawal: the
   refunds, dust included, never exceed the pool (claims never exceed their pot) ... *)
Theorem C13_refunds_never_exceed_pool fees fmb total :
  Forall (fun f => 0 <= f) fees -> 0 <= fmb -> 0 < total <= 10 ^ 18 -> sumz fees <= total ->
  sumz (map (fun f => refund12 f fmb total) fees) <= fmb * 1000000.
Proof. exact (refunds_never_exceed_pool fees fmb total). Qed.
Print Assumptions C13_refunds_never_exceed_pool.

(* ... and what they leave of it is less than 10^-6 loya per payer (times total/total): nothing but rounding *)
Theorem C13_refunds_exhaust_pool fees fmb total :
  Forall (fun f => 0 <= f) fees -> 0 <= fmb -> 0 < total <= 10 ^ 18 ->
  sumz fees * fmb * 1000000 - Z.of_nat (List.length fees) * total < sumz (map (fun f => refund12 f fmb total) fees) * total
  \/ fees = [].
Proof. exact (refunds_ge_pool fees fmb total). Qed.
Print Assumptions C13_refunds_exhaust_pool.

(* ---- once: refunds ------------------------------------------------------------------------------------------------ *)
(* a paid refund removes the payer's record; over EVERY later history of operations that contains no new payment
   (executions, claims by anybody, time, votes, begin blocks, in any order) the same payer's next attempt is refused
   and changes nothing *)
Theorem C13_refund_once v c s who id s1 ops :
  withdraw s who id = (s1, OK) -> forallb (fun o => negb (is_payment o)) ops = true ->
  let s2 := run v c s1 ops in withdraw s2 who id = (s2, ENotFound).
Proof. exact (refund_once_over_histories v c s who id s1 ops). Qed.
Print Assumptions C13_refund_once.

(* ---- once: voters' rewards ---------------------------------------------------------------------------------------- *)
Theorem C13_reward_once fx s who id s' : claim fx s who id = (s', OK) -> claim fx s' who id = (s', EClaimed).
Proof. exact (claim_once fx s who id s'). Qed.
Print Assumptions C13_reward_once.

(* ---- once: execution ---------------------------------------------------------------------------------------------- *)
(* an executed vote is refused and nothing changes *)
Theorem C13_execute_refused_when_executed fx s :
  s_executed s = true -> fst (execute_vote fx s) = s /\ snd (execute_vote fx s) <> OK.
Proof. exact (execute_vote_refused_when_executed fx s). Qed.
Print Assumptions C13_execute_refused_when_executed.

(* a successful execution of a funded dispute leaves it settled, and a settled dispute stays settled (executed,
   resolved, fee met) over EVERY history of operations: no payment, new round, tally, vote fact, begin block or
   claim can make it executable again (variant with the repair of C13c) *)
Theorem C13_execute_once v c s s' ops :
  fixc v = true -> 0 <= s_burn s -> s_id s <> 0 -> s_slash s <= s_feetotal s ->
  execute_vote true s = (s', OK) ->
  settled (run v c s' ops) /\ fst (execute_vote true (run v c s' ops)) = run v c s' ops.
Proof.
  intros Hv Hb Hid Hsl He.
  assert (Hs : settled (run v c s' ops)) by (apply settled_forever; [exact Hv | exact (execute_makes_settled s s' Hb Hid Hsl He)]).
  split; [exact Hs | exact (settled_execute true _ Hs)].
Qed.
Print Assumptions C13_execute_once.

(* the code as found stores slash + fees - burn as the slash amount when it executes AGAINST: before the dispute's
   end more fee is accepted, the reporter is slashed again and the vote restarts (C13c) *)
Theorem C13_reopen_after_against_refuted :
  exists c s ops, s_executed (run (VA true true false) c s ops) = false /\ s_status (run (VA true true false) c s ops) = Voting
                  /\ exists k, s_executed (run (VA true true false) c s (firstn k ops)) = true.
Proof.
  exists cfg0, st0, ops_C13c. destruct C13c_witness as (H1 & H2 & _). split; [exact H1|]. split; [exact H2|].
  exists 4%nat. vm_compute. reflexivity.
Qed.
Print Assumptions C13_reopen_after_against_refuted.

(* ---- the code as found: refutations with concrete witnesses --------------------------------------------------------- *)
(* F20: a second payment by the same payer overwrote its record (refund 95000 instead of 142500) *)
Theorem C13_repeat_payment_refuted :
  getz (s_liq (run (VA false true true) cfg0 st0 ops_F20)) 1 = 1000000 - 150000 + 95000
  /\ getz (s_liq (run (VA true true true) cfg0 st0 ops_F20)) 1 = 1000000 - 150000 + 142500.
Proof. exact F20_witness. Qed.
Print Assumptions C13_repeat_payment_refuted.

(* F35: the users-group share is computed from the tips at block number = dispute id *)
Theorem C13_voter_reward_tips_refuted :
  snd (step (VA true false true) cfg0 (run (VA true false true) cfg0 st0 ([OPropose 1 150000 false None snap] ++ settle_invalid)) (OClaim 1 1)) = EZeroReward
  /\ getz (s_liq (run (VA true true true) cfg0 st0 ops_F35)) 1 = 1000000 - 150000 + 3750.
Proof. exact F35_witness. Qed.
Print Assumptions C13_voter_reward_tips_refuted.

(* F21: a dispute that fails for lack of funding refunds 5 %; 95 % stay in escrow with no record left *)
Theorem C13_failed_dispute_refuted :
  let s := run (VA true true true) cfg0 st0 ops_F21 in
  s_payers s = [] /\ s_esc s = 71250 /\ getz (s_liq s) 1 = 1000000 - 75000 + 3750.
Proof. exact F21_witness. Qed.
Print Assumptions C13_failed_dispute_refuted.

(* F22: with two rounds nobody can withdraw: "vote not executed" under the first id, "not found" under the last *)
Theorem C13_multi_round_refuted :
  let s := run (VA true true true) cfg0 st0 ops_F22 in
  s_executed s = true /\ snd (withdraw s 1 1) = ENotExecuted /\ snd (withdraw s 1 2) = ENotFound /\ snd (withdraw s 2 2) = ENotFound
  /\ s_esc s = 142500 /\ s_reward s = 0.
Proof. exact F22_witness. Qed.
Print Assumptions C13_multi_round_refuted.

(* F12 (code as found: the reporter's part was SlashAmount - BurnAmount): sixth round, AGAINST: negative amount, the begin
   blocker fails (a chain halt, C02); fifth round: 150000 re-staked, 67500 moved *)
Theorem C13_burn_exceeds_slash_refuted :
  snd (exec_block_gen true false st_r6) = EOther /\ s_slash st_r6 + (s_slash st_r6 - s_burn st_r6) < 0
  /\ (let s := fst (exec_block_gen true false st_r5) in
      s_esc st_r5 - s_esc s - (s_burned s - s_burned st_r5) = 67500 /\ getz (s_stk s) 0 - getz (s_stk st_r5) 0 = 150000).
Proof. exact F12_witness. Qed.
Print Assumptions C13_burn_exceeds_slash_refuted.

(* F12 repaired (as in /repo now: FeeTotal - BurnAmount): both execute, the backers get stake + fee total - burn amount and
   the escrow is paid out exactly *)
Theorem C13_burn_exceeds_slash_repaired :
  (let s := fst (exec_block true st_r6) in
   snd (exec_block true st_r6) = OK /\ s_esc s = 0 /\ getz (s_stk s) 0 - getz (s_stk st_r6) 0 = 150000 + (525000 - s_burn st_r6))
  /\ (let s := fst (exec_block true st_r5) in
      snd (exec_block true st_r5) = OK /\ s_esc s = 0 /\ getz (s_stk s) 0 - getz (s_stk st_r5) 0 = 150000 + (375000 - s_burn st_r5)).
Proof. exact F12_repaired. Qed.
Print Assumptions C13_burn_exceeds_slash_repaired.

(* F23: two payers from stake: the first refund is split over both and removes the tracker *)
Theorem C13_two_bond_payers_refuted :
  let s := run (VA true true true) cfg0 st0 ops_F23 in
  getz (s_stk s) 1 = 5000000 - 75000 + 35625 /\ getz (s_stk s) 2 = 5000000 - 75000 + 35625
  /\ snd (withdraw s 2 1) = ENotFound /\ find_payer (s_payers s) 1 2 <> None.
Proof. exact F23_witness. Qed.
Print Assumptions C13_two_bond_payers_refuted.

(* C13a: only the team voted: the pot is kept and nobody can claim it *)
Theorem C13_team_only_pot_refuted :
  let s := run (VA true true true) cfg0 st0 ops_C13a in
  s_reward s = 3750 /\ snd (claim true s 2 1) = ENoVotes /\ snd (claim true s 1 1) = ENoVotes.
Proof. exact C13a_witness. Qed.
Print Assumptions C13_team_only_pot_refuted.

(* ---- non-vacuity: a complete single-round settlement (two payers, invalid, one voter) ends with an empty escrow ---- *)
Theorem C13_example_full_settlement :
  let s := run (VA true true true) cfg0 st0 ops_full in
  s_esc s = 0 /\ s_burned s = 3750 /\ s_liq s = [0; 1000000 - 50000 + 47500 + 3750; 1000000 - 100000 + 95000]
  /\ s_stk s = [10000000; 5000000; 5000000] /\ s_payers s = [] /\ settled s.
Proof. exact full_example. Qed.
Print Assumptions C13_example_full_settlement.

(* ---- what a passing check says about the implementation's own observations ----------------------------------------- *)
Theorem C13_check_sound r SS now init steps :
  c13_check (Hist r SS now init steps) = [] ->
  Forall (fun x => o_res (snd x) <> EInsufficient) steps
  /\ (has_end steps = true ->
      let l := fst (spec_run r SS lg0 init steps) in
      let fin := last_obs init steps in
      0 <= o_esc fin /\ (o_esc fin - o_esc init) * PR6 <= (o_dust fin - o_dust init) + parties l * PR6).
Proof. exact (check_sound r SS now init steps). Qed.
Print Assumptions C13_check_sound.

(* ... and for every number of rounds (the repair of F12 at full strength): an AGAINST execution from an escrow that
   holds exactly the escrowed stake plus the fees of all rounds leaves only the voters' pot (and at most the odd unit of
   the halved burn amount) behind; with the code as found the amount sent back was slash + (slash - burn amount), which
   from the second round on is not what the escrow holds *)
Theorem C13_against_pays_out_everything fx s s' :
  0 <= s_burn s -> is_invalid (s_result s) = false -> is_support (s_result s) = false ->
  execute_vote fx s = (s', OK) -> s_esc s = s_slash s + s_feetotal s ->
  s_reward s' <= s_esc s' <= s_reward s' + 1.
Proof. exact (against_pays_out_everything fx s s'). Qed.
Print Assumptions C13_against_pays_out_everything.
