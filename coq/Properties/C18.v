(* C18 — Staking transactions cannot move bonded stake more than 5 % per 12-hour period.
   Property theorems only; proofs live in Proofs/AnteProofs.v. *)
From Coq Require Import ZArith List.
From Verif Require Import Base.Harness Model.Ante Proofs.AnteProofs.
Import ListNotations.
Open Scope Z_scope.

(* a transaction is admitted by the decorator only if the combined amounts stay inside the band *)
Theorem C18_admission_only_if A cur ms :
  ante true (Some A) cur ms = Next ->
  (has_inc ms = true -> cur + sum_inc ms <= upper_bound A) /\
  (has_dec ms = true -> lower_bound A <= cur - sum_dec ms).
Proof. exact (ante_admission_only_if A cur ms). Qed.
Print Assumptions C18_admission_only_if.

(* ... which is the 105 % / 95 % bound of the property text *)
Theorem C18_admission_percent A cur ms :
  0 <= A -> ante true (Some A) cur ms = Next ->
  (has_inc ms = true -> 100 * (cur + sum_inc ms) <= 105 * A) /\
  (has_dec ms = true -> 95 * A <= 100 * (cur - sum_dec ms)).
Proof. exact (ante_admission_percent A cur ms). Qed.
Print Assumptions C18_admission_percent.

(* the code as found compared every message alone (finding F29, repaired by a fix: commit) *)
Theorem C18_sum_not_each_refuted :
  exists A cur ms, amounts_nonneg ms = true /\ 0 <= A /\
    ante false (Some A) cur ms = Next /\ ~ 100 * (cur + sum_inc ms) <= 105 * A.
Proof. exact ante_each_refuted. Qed.
Print Assumptions C18_sum_not_each_refuted.

(* the recorded amount is refreshed only after its 12 hours have passed *)
Theorem C18_refresh_only_after_expiry now total t :
  (now < t_expiration t -> track_stake_change now total t = t) /\
  (t_expiration t <= now ->
     track_stake_change now total t = {| t_amount := total; t_expiration := now + twelve_hours_ns |}).
Proof. exact (track_refresh_only_after_expiry now total t). Qed.
Print Assumptions C18_refresh_only_after_expiry.

(* over every history of block ends and transactions: every admitted transaction was inside
   the band of the amount recorded at that moment; the expiration is always 12 h after the
   last refresh *)
Theorem C18_period_bound s es : hinv s -> hinv (fold_left hstep es s).
Proof. exact (history_inv s es). Qed.
Print Assumptions C18_period_bound.

Theorem C18_amount_changes_only_at_expiry s e :
  t_amount (h_tr (hstep s e)) <> t_amount (h_tr s) ->
  exists now total, e = EndBlock now total /\ t_expiration (h_tr s) <= now /\
                    t_amount (h_tr (hstep s e)) = total /\
                    t_expiration (h_tr (hstep s e)) = now + twelve_hours_ns.
Proof. exact (amount_changes_only_at_expiry s e). Qed.
Print Assumptions C18_amount_changes_only_at_expiry.

(* the executable spec the check evaluates on the implementation's answers is this statement *)
Theorem C18_check_sound A cur ms nxt :
  c18_check (AnteCase (Some A) cur ms false nxt) = [] ->
  (has_inc ms = true -> cur + sum_inc ms <= upper_bound A) /\
  (has_dec ms = true -> lower_bound A <= cur - sum_dec ms).
Proof. exact (c18_check_sound_ante A cur ms nxt). Qed.
Print Assumptions C18_check_sound.
