(* C08 — Aggregate history is append-only, time-ordered and correctly retrievable.
   Property theorems only; proofs live in Proofs/AggHistoryProofs.v. *)
From Coq Require Import ZArith List Bool String Permutation.
From Verif Require Import Base.Harness Model.OracleRound Model.OracleRoundCheck Model.AggHistory
  Proofs.OracleRoundProofs Proofs.OracleRoundInv Proofs.OracleRoundDistinct Proofs.AggHistoryProofs.
Import ListNotations.
Open Scope Z_scope.

(* over every history of tips, reports, end blockers, governance updates and dispute/evidence flags
   (block time strictly increasing from end blocker to end blocker, no two rounds of one query closing
   in one block):
   - the store stays sorted by (query, timestamp) and key-unique (oinv),
   - along each query's chronological list the sequence numbers are 1, 2, 3, ... and the nonce store
     holds their count; timestamps strictly increase along that list because it is sorted (chrono),
   - every aggregate that was ever stored is still stored, identical except that its flag may have
     been raised, and a raised flag is explained by a flag operation naming exactly the report that
     determined the aggregate (hist_rel). *)
Theorem C08_history_append_only_time_ordered qinfos ops s T :
  oinv s -> chrono s T -> good_run qinfos s ops T ->
  oinv (hrun qinfos s ops) /\ chrono (hrun qinfos s ops) (last_time ops T) /\ hist_rel ops s (hrun qinfos s ops).
Proof. exact (hrun_correct qinfos ops s T). Qed.
Print Assumptions C08_history_append_only_time_ordered.

(* the same for every well-scheduled history (block structure, block time strictly increasing, report
   windows of at least one block, no end blocker failing): the side conditions of the theorem above
   (good_run) follow from the round invariant of C07 *)
Theorem C08_history_well_scheduled qinfos ops s H T :
  oinv s -> kinv s H -> chrono s T -> hsched H T ops -> hrun_ok qinfos s ops ->
  oinv (hrun qinfos s ops) /\ chrono (hrun qinfos s ops) (last_time ops T) /\ hist_rel ops s (hrun qinfos s ops).
Proof.
  intros Hi K Hc Hs Hok. apply hrun_correct; [exact Hi | exact Hc |]. exact (hsched_good_run qinfos ops s H T K Hs Hok).
Qed.
Print Assumptions C08_history_well_scheduled.

(* timestamps strictly increase along the chronological list of a query *)
Theorem C08_timestamps_strictly_increase q l : aggs_sorted l -> key_sorted _ ag_ts (hist q l).
Proof. exact (hist_sorted q l). Qed.
Print Assumptions C08_timestamps_strictly_increase.

(* one end blocker: the new aggregate of a query is the last of its chronological list *)
Theorem C08_new_aggregate_is_last s h ts m T :
  aggs_sorted (o_aggs s) -> chrono s T ->
  (forall b, In b (hist (m_qid m) (o_aggs s)) -> ag_ts b < ts) -> T <= ts ->
  (forall q, map ag_nonce (hist q (o_aggs (aggregate_round s h ts m))) = zseq 1 (List.length (hist q (o_aggs (aggregate_round s h ts m))))) /\
  (forall q, nonce_get q (o_nonces (aggregate_round s h ts m)) = Z.of_nat (List.length (hist q (o_aggs (aggregate_round s h ts m))))) /\
  (forall a, In a (o_aggs (aggregate_round s h ts m)) -> ag_ts a <= ts) /\
  hist (m_qid m) (o_aggs (aggregate_round s h ts m)) = hist (m_qid m) (o_aggs s) ++ [mk_agg s h ts m] /\
  (forall q, q <> m_qid m -> hist q (o_aggs (aggregate_round s h ts m)) = hist q (o_aggs s)).
Proof. exact (aggregate_round_chrono s h ts m T). Qed.
Print Assumptions C08_new_aggregate_is_last.

(* the lookups against the chronological list [hist q l] of a sorted store *)
Theorem C08_current q l a : aggs_sorted l ->
  (current q l = Some a <-> In a (hist q l) /\ forall b, In b (hist q l) -> ag_ts b <= ag_ts a).
Proof. intros Hs. exact (current_spec q l Hs a). Qed.
Print Assumptions C08_current.

Theorem C08_data_before_skips_flagged q l t a : aggs_sorted l ->
  (agg_before q t l = Some a <->
   In a (hist q l) /\ ag_ts a < t /\ ag_flagged a = false /\
   forall b, In b (hist q l) -> ag_ts b < t -> ag_flagged b = false -> ag_ts b <= ag_ts a).
Proof. intros Hs. exact (agg_before_spec q l Hs t a). Qed.
Print Assumptions C08_data_before_skips_flagged.

Theorem C08_by_index q l i : 0 <= i -> by_index q i l = nth_error (hist q l) (Z.to_nat i).
Proof. exact (by_index_spec q l i). Qed.
Print Assumptions C08_by_index.

Theorem C08_by_timestamp q l t a : aggs_sorted l -> (by_timestamp q t l = Some a <-> In a (hist q l) /\ ag_ts a = t).
Proof. intros Hs. exact (by_timestamp_spec q l Hs t a). Qed.
Print Assumptions C08_by_timestamp.

Theorem C08_timestamp_before q l t x : aggs_sorted l ->
  (ts_before q t l = Some x <->
   exists a, In a (hist q l) /\ ag_ts a = x /\ x < t /\ forall b, In b (hist q l) -> ag_ts b < t -> ag_ts b <= x).
Proof. intros Hs. exact (ts_before_spec q l Hs t x). Qed.
Print Assumptions C08_timestamp_before.

Theorem C08_timestamp_before_none q l t : aggs_sorted l ->
  (ts_before q t l = None <-> forall b, In b (hist q l) -> t <= ag_ts b).
Proof. intros Hs. exact (ts_before_none q l Hs t). Qed.
Print Assumptions C08_timestamp_before_none.

Theorem C08_timestamp_after q l t x : aggs_sorted l ->
  (ts_after q t l = Some x <->
   exists a, In a (hist q l) /\ ag_ts a = x /\ t < x /\ forall b, In b (hist q l) -> t < ag_ts b -> x <= ag_ts b).
Proof. intros Hs. exact (ts_after_spec q l Hs t x). Qed.
Print Assumptions C08_timestamp_after.

Theorem C08_timestamp_after_none q l t : aggs_sorted l ->
  (ts_after q t l = None <-> forall b, In b (hist q l) -> ag_ts b <= t).
Proof. intros Hs. exact (ts_after_none q l Hs t). Qed.
Print Assumptions C08_timestamp_after_none.

(* a dispute flags at most the aggregates it names, and only raises flags *)
Theorem C08_flag_only_named q r hh l b : In b (flag q r hh l) -> exists a, In a l /\ kept a b /\
  (ag_flagged b = true -> ag_flagged a = true \/ (ag_qid a = q /\ ag_agg_reporter a = r /\ ag_micro_height a = hh)).
Proof. exact (flag_in q r hh l b). Qed.
Print Assumptions C08_flag_only_named.

(* non-vacuity: two rounds of one query, then a dispute against the first *)
Example C08_example :
  let qi := [{| qi_id := 5; qi_kind := KSpot |}] in
  let v := "00000000000000000000000000000000000000000000000000000000000000aa" in
  let ops := [HRound 1 (OEndBlock 1000); HRound 2 (OSubmit 5 7 (Some 2000000) 1000000 v); HRound 3 (OEndBlock 2000); HRound 4 (OEndBlock 3000);
              HRound 5 (OSubmit 5 7 (Some 2000000) 1000000 v); HRound 6 (OEndBlock 4000); HRound 7 (OEndBlock 5000); HFlag 5 (-1) (-1)] in
  let s := hrun qi (genesis [5] 2 2000) ops in
  map ag_nonce (o_aggs s) = [1; 2] /\ map ag_flagged (o_aggs s) = [true; false] /\
  option_map ag_nonce (agg_before 5 6000 (o_aggs s)) = Some 2 /\ option_map ag_nonce (agg_before 5 4000 (o_aggs s)) = None /\
  ts_before 5 4000 (o_aggs s) = Some 2000 /\ ts_after 5 2000 (o_aggs s) = Some 4000.
Proof. vm_compute. repeat split; reflexivity. Qed.
